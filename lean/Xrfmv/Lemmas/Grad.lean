/-
Helper lemmas for C04 at `ℝ`: the closed-form gradients of `Xrfmv/Model/Grad.lean` are the derivatives of the
kernel values (per coordinate, `HasDerivAt` with the other coordinates fixed), linearity in the coefficients,
chain rule through the transform, the coinciding center.  Property theorems are in `Props/C04.lean`.

A point with one varying coordinate is written `vpre ++ s :: vpost`; the matching center `upre ++ a :: upost`
with `vpre.length = upre.length` (every coordinate of every vector has this form).
-/
import Xrfmv.Model.Grad
import Xrfmv.Lemmas.RealInst
import Mathlib.Analysis.Calculus.Deriv.Abs
import Mathlib.Analysis.Calculus.Deriv.Comp
import Mathlib.Analysis.Calculus.Deriv.Mul
import Mathlib.Analysis.Calculus.Deriv.Add
import Mathlib.Analysis.SpecialFunctions.Pow.Deriv
import Mathlib.Analysis.SpecialFunctions.ExpDeriv
import Mathlib.Data.Matrix.Mul
import Mathlib.LinearAlgebra.Matrix.Symmetric
import Mathlib.Algebra.BigOperators.Fin

namespace Xrfmv.Grad

@[simp] theorem rpow_real (x y : ℝ) : rpow x y = x ^ y := rfl
@[simp] theorem abs_real (x : ℝ) : HasAbs.abs x = |x| := rfl
@[simp] theorem exp_real (x : ℝ) : exp x = Real.exp x := rfl
@[simp] theorem sqrt_real (x : ℝ) : sqrt x = Real.sqrt x := rfl

@[simp] theorem vsum_nil : vsum ([] : List ℝ) = 0 := rfl
@[simp] theorem vsum_cons (a : ℝ) (l : List ℝ) : vsum (a :: l) = a + vsum l := rfl
theorem vsum_append (l₁ l₂ : List ℝ) : vsum (l₁ ++ l₂) = vsum l₁ + vsum l₂ := by
  induction l₁ with
  | nil => simp
  | cons a l ih => simp [ih, add_assoc]

theorem sgnPow_eq (a t : ℝ) : sgnPow a t = |t| ^ a * (SignType.sign t : ℝ) := by
  unfold sgnPow
  rcases lt_trichotomy t 0 with h | h | h
  · have : ¬ (0 < t) := not_lt.2 h.le
    simp [this, h, sign_neg h]
  · subst h; simp
  · simp [h, sign_pos h]

/-- (1) derivative of the one-dimensional Laplace profile away from the kink. -/
theorem profile_hasDerivAt' (L q t : ℝ) (ht : t ≠ 0) :
    HasDerivAt (fun s => profile L q s) (profile L q t * (-(q / L ^ q)) * sgnPow (q - 1) t) t := by
  have h1 : HasDerivAt (fun s : ℝ => |s|) (SignType.sign t : ℝ) t := hasDerivAt_abs ht
  have h2 := h1.rpow_const (p := q) (Or.inl (abs_ne_zero.2 ht))
  have h3 := (h2.neg.div_const (L ^ q)).exp
  simp only [Pi.neg_apply] at h3
  unfold profile
  simp only [rpow_real, abs_real, exp_real, sgnPow_eq]
  convert h3 using 1
  ring


/-! ### lists with one varying coordinate -/

theorem vsub_split (vpre vpost upre upost : List ℝ) (a s : ℝ) (h : vpre.length = upre.length) :
    vsub (vpre ++ s :: vpost) (upre ++ a :: upost) = vsub vpre upre ++ (s - a) :: vsub vpost upost := by
  unfold vsub
  rw [List.zipWith_append h]
  rfl

theorem vsub_length_pre (vpre upre : List ℝ) (h : vpre.length = upre.length) :
    (vsub vpre upre).length = vpre.length := by
  unfold vsub; simp [h]

theorem map_entry (g : ℝ → ℝ) (pre post : List ℝ) (x : ℝ) :
    (List.map g (pre ++ x :: post))[pre.length]? = some (g x) := by
  simp

/-- Sum over coordinates of `φ (v_d − u_d)`, one coordinate varying. -/
theorem coordSum_eq (φ : ℝ → ℝ) (vpre vpost upre upost : List ℝ) (a s : ℝ) (h : vpre.length = upre.length) :
    vsum ((vsub (vpre ++ s :: vpost) (upre ++ a :: upost)).map φ)
      = vsum ((vsub vpre upre).map φ) + (φ (s - a) + vsum ((vsub vpost upost).map φ)) := by
  rw [vsub_split _ _ _ _ _ _ h, List.map_append, vsum_append, List.map_cons, vsum_cons]

theorem coordSum_hasDerivAt (φ : ℝ → ℝ) (φ' : ℝ) (vpre vpost upre upost : List ℝ) (a t : ℝ)
    (h : vpre.length = upre.length) (hφ : HasDerivAt φ φ' (t - a)) :
    HasDerivAt (fun s => vsum ((vsub (vpre ++ s :: vpost) (upre ++ a :: upost)).map φ)) φ' t := by
  have h1 : HasDerivAt (fun s : ℝ => s - a) 1 t := (hasDerivAt_id t).sub_const a
  have h2 : HasDerivAt (fun s => φ (s - a)) (φ' * 1) t := hφ.comp t h1
  have h3 := ((h2.add_const (vsum ((vsub vpost upost).map φ))).const_add (vsum ((vsub vpre upre).map φ)))
  simp only [mul_one] at h3
  refine h3.congr_of_eventuallyEq (Filter.Eventually.of_forall fun s => ?_)
  exact coordSum_eq φ vpre vpost upre upost a s h

/-! ### (2) radial profile of the squared distance -/

theorem radial_hasDerivAt (L q r : ℝ) (hr : 0 < r) :
    HasDerivAt (fun x => radial L q x) (radial L q r * (-(q / L ^ q)) * Real.sqrt r ^ (q - 2) / 2) r := by
  have hs : Real.sqrt r ≠ 0 := (Real.sqrt_pos.2 hr).ne'
  have h1 : HasDerivAt (fun x => Real.sqrt x) (1 / (2 * Real.sqrt r)) r := Real.hasDerivAt_sqrt hr.ne'
  have h2 := h1.rpow_const (p := q) (Or.inl hs)
  have h3 := (h2.neg.div_const (L ^ q)).exp
  simp only [Pi.neg_apply] at h3
  unfold radial
  simp only [rpow_real, exp_real, sqrt_real]
  have e : Real.sqrt r ^ (q - 2) = Real.sqrt r ^ (q - 1) / Real.sqrt r := by
    rw [show q - 2 = (q - 1) - 1 by ring, Real.rpow_sub_one hs]
  convert h3 using 1
  rw [e]
  field_simp

theorem sqDist_hasDerivAt (vpre vpost upre upost : List ℝ) (a t : ℝ) (h : vpre.length = upre.length) :
    HasDerivAt (fun s => sqDist (upre ++ a :: upost) (vpre ++ s :: vpost)) (2 * (t - a)) t := by
  have hφ : HasDerivAt (fun x : ℝ => x * x) (2 * (t - a)) (t - a) := by
    exact ((hasDerivAt_id' (t - a)).mul (hasDerivAt_id' (t - a))).congr_deriv (by ring)
  exact coordSum_hasDerivAt (fun x => x * x) _ vpre vpost upre upost a t h hφ


theorem map_vsub_entry (g : ℝ → ℝ) (vpre vpost upre upost : List ℝ) (a t : ℝ) (h : vpre.length = upre.length) :
    (List.map g (vsub (vpre ++ t :: vpost) (upre ++ a :: upost)))[vpre.length]? = some (g (t - a)) := by
  rw [vsub_split _ _ _ _ _ _ h]
  have := map_entry g (vsub vpre upre) (vsub vpost upost) (t - a)
  rwa [vsub_length_pre vpre upre h] at this

/-- L2 kernel, one coordinate: the model entry is the partial derivative (mask not firing). -/
theorem l2_coord (P : Params ℝ) (vpre vpost upre upost : List ℝ) (a t : ℝ) (h : vpre.length = upre.length)
    (heps : 0 < P.eps)
    (hne : ¬ (Real.sqrt (sqDist (upre ++ a :: upost) (vpre ++ t :: vpost)) < P.eps)) :
    ∃ g, (gradL2 P (upre ++ a :: upost) (vpre ++ t :: vpost))[vpre.length]? = some g ∧
      HasDerivAt (fun s => kL2 P (upre ++ a :: upost) (vpre ++ s :: vpost)) g t := by
  set r := sqDist (upre ++ a :: upost) (vpre ++ t :: vpost) with hr
  have hd : 0 < Real.sqrt r := lt_of_lt_of_le heps (not_lt.1 hne)
  have hrpos : 0 < r := Real.sqrt_pos.1 hd
  refine ⟨l2Factor P (Real.sqrt r) * (t - a), ?_, ?_⟩
  · unfold gradL2
    simp only [sqrt_real, ← hr, if_neg hne]
    exact map_vsub_entry (fun x => l2Factor P (Real.sqrt r) * x) vpre vpost upre upost a t h
  · have h1 := (radial_hasDerivAt P.L P.q r hrpos).comp t (sqDist_hasDerivAt vpre vpost upre upost a t h)
    unfold kL2
    refine h1.congr_deriv ?_
    unfold l2Factor radial
    simp only [rpow_real, exp_real, sqrt_real]
    ring

theorem absPow_hasDerivAt (q δ : ℝ) (hδ : δ ≠ 0) :
    HasDerivAt (fun x : ℝ => |x| ^ q) (q * sgnPow (q - 1) δ) δ := by
  have h1 : HasDerivAt (fun s : ℝ => |s|) (SignType.sign δ : ℝ) δ := hasDerivAt_abs hδ
  have h2 := h1.rpow_const (p := q) (Or.inl (abs_ne_zero.2 hδ))
  refine h2.congr_deriv ?_
  rw [sgnPow_eq]; ring

/-- Product kernel, one coordinate. -/
theorem prod_coord (P : Params ℝ) (vpre vpost upre upost : List ℝ) (a t : ℝ) (h : vpre.length = upre.length)
    (hta : t ≠ a)
    (hne : ¬ (pNorm P.q (vsub (vpre ++ t :: vpost) (upre ++ a :: upost)) < P.eps)) :
    ∃ g, (gradProd P (upre ++ a :: upost) (vpre ++ t :: vpost))[vpre.length]? = some g ∧
      HasDerivAt (fun s => kProd P (upre ++ a :: upost) (vpre ++ s :: vpost)) g t := by
  have hδ : t - a ≠ 0 := sub_ne_zero.2 hta
  refine ⟨kProd P (upre ++ a :: upost) (vpre ++ t :: vpost) * (-(P.q / P.L ^ P.q)) * sgnPow (P.q - 1) (t - a), ?_, ?_⟩
  · unfold gradProd
    simp only [if_neg hne, rpow_real]
    exact map_vsub_entry (fun x => kProd P (upre ++ a :: upost) (vpre ++ t :: vpost) * (-(P.q / P.L ^ P.q))
      * sgnPow (P.q - 1) x) vpre vpost upre upost a t h
  · have h1 := coordSum_hasDerivAt (fun x : ℝ => |x| ^ P.q) _ vpre vpost upre upost a t h (absPow_hasDerivAt P.q _ hδ)
    have h2 := (h1.neg.div_const (P.L ^ P.q)).exp
    simp only [Pi.neg_apply] at h2
    unfold kProd pSum
    simp only [rpow_real, abs_real, exp_real]
    refine h2.congr_deriv ?_
    ring


theorem lenS_eq_length {β : Type} (l : List β) : (lenS l : ℝ) = (l.length : ℝ) := by
  induction l with
  | nil => simp [lenS]
  | cons a l ih =>
    have : (lenS (a :: l) : ℝ) = lenS l + 1 := rfl
    rw [this, ih]; simp

theorem vsub_split_length (vpre vpost upre upost : List ℝ) (a s t : ℝ) (h : vpre.length = upre.length) :
    (vsub (vpre ++ s :: vpost) (upre ++ a :: upost)).length = (vsub (vpre ++ t :: vpost) (upre ++ a :: upost)).length := by
  rw [vsub_split _ _ _ _ _ _ h, vsub_split _ _ _ _ _ _ h]; simp

theorem vsum_map_pos (φ : ℝ → ℝ) (hφ : ∀ x, 0 < φ x) : ∀ l : List ℝ, l ≠ [] → 0 < vsum (l.map φ)
  | [], h => absurd rfl h
  | [x], _ => by simpa using hφ x
  | x :: y :: l, _ => by
    have := vsum_map_pos φ hφ (y :: l) (by simp)
    simp only [List.map_cons, vsum_cons] at this ⊢
    linarith [hφ x]

theorem vsum_map_nonneg (φ : ℝ → ℝ) (hφ : ∀ x, 0 ≤ φ x) : ∀ l : List ℝ, 0 ≤ vsum (l.map φ)
  | [] => by simp
  | x :: l => by
    have := vsum_map_nonneg φ hφ l
    simp only [List.map_cons, vsum_cons]
    linarith [hφ x]

theorem profile_pos (L q s : ℝ) : 0 < profile L q s := by
  unfold profile; simp only [exp_real]; exact Real.exp_pos _

/-- The bracket of the sum-power kernel is positive for `0 ≤ const_mix < 1` (so its real power is differentiable). -/
theorem sBracket_pos (P : Params ℝ) (hc0 : 0 ≤ P.cmix) (hc1 : P.cmix < 1) (Δ : List ℝ) (hΔ : Δ ≠ []) :
    0 < sBracket P Δ := by
  unfold sBracket
  have h1 := vsum_map_pos (profile P.L P.q) (profile_pos P.L P.q) Δ hΔ
  have h2 : (0 : ℝ) < lenS Δ := by
    rw [lenS_eq_length]
    exact_mod_cast List.length_pos_iff.2 hΔ
  have h3 : 0 < vsum (Δ.map (profile P.L P.q)) / lenS Δ := div_pos h1 h2
  have h4 : 0 < (1 - P.cmix) * (vsum (Δ.map (profile P.L P.q)) / lenS Δ) := mul_pos (by linarith) h3
  linarith

/-- Sum-power kernel, one coordinate. -/
theorem sumPower_coord (P : Params ℝ) (vpre vpost upre upost : List ℝ) (a t : ℝ) (h : vpre.length = upre.length)
    (hta : t ≠ a) (hne : ¬ (|t - a| < P.eps))
    (hs : sBracket P (vsub (vpre ++ t :: vpost) (upre ++ a :: upost)) ≠ 0 ∨ 1 ≤ P.power) :
    ∃ g, (gradSumPower P (upre ++ a :: upost) (vpre ++ t :: vpost))[vpre.length]? = some g ∧
      HasDerivAt (fun s => kSumPower P (upre ++ a :: upost) (vpre ++ s :: vpost)) g t := by
  have hδ : t - a ≠ 0 := sub_ne_zero.2 hta
  set Δt := vsub (vpre ++ t :: vpost) (upre ++ a :: upost) with hΔt
  refine ⟨P.power * (sBracket P Δt) ^ (P.power - 1) * ((1 - P.cmix) / lenS Δt) * profile P.L P.q (t - a)
      * (-(P.q / P.L ^ P.q)) * sgnPow (P.q - 1) (t - a), ?_, ?_⟩
  · unfold gradSumPower
    simp only [rpow_real, abs_real, ← hΔt]
    have := map_vsub_entry (fun x => if |x| < P.eps then 0 else
        P.power * (sBracket P Δt) ^ (P.power - 1) * ((1 - P.cmix) / lenS Δt) * profile P.L P.q x
          * (-(P.q / P.L ^ P.q)) * sgnPow (P.q - 1) x) vpre vpost upre upost a t h
    rw [← hΔt] at this
    rw [this, if_neg hne]
  · have h1 := coordSum_hasDerivAt (profile P.L P.q) _ vpre vpost upre upost a t h
      (profile_hasDerivAt' P.L P.q (t - a) hδ)
    have hlen : ∀ s, (lenS (vsub (vpre ++ s :: vpost) (upre ++ a :: upost)) : ℝ) = lenS Δt := by
      intro s; rw [lenS_eq_length, lenS_eq_length, hΔt, vsub_split_length vpre vpost upre upost a s t h]
    have h2 := ((h1.div_const (lenS Δt)).const_mul (1 - P.cmix)).add_const P.cmix
    have h3 : HasDerivAt (fun s => sBracket P (vsub (vpre ++ s :: vpost) (upre ++ a :: upost))) _ t :=
      h2.congr_of_eventuallyEq (Filter.Eventually.of_forall fun s => by
        show sBracket P _ = _
        unfold sBracket; rw [hlen s])
    have h4 := h3.rpow_const (p := P.power) hs
    unfold kSumPower
    simp only [rpow_real]
    refine h4.congr_deriv ?_
    simp only [← hΔt]
    ring


theorem pSum_pos_of_entry (p : ℝ) (vpre vpost upre upost : List ℝ) (a t : ℝ) (h : vpre.length = upre.length)
    (hta : t ≠ a) : 0 < pSum p (vsub (vpre ++ t :: vpost) (upre ++ a :: upost)) := by
  unfold pSum
  simp only [rpow_real, abs_real]
  rw [coordSum_eq (fun x : ℝ => |x| ^ p) vpre vpost upre upost a t h]
  have h1 := vsum_map_nonneg (fun x : ℝ => |x| ^ p) (fun x => Real.rpow_nonneg (abs_nonneg x) p) (vsub vpre upre)
  have h2 := vsum_map_nonneg (fun x : ℝ => |x| ^ p) (fun x => Real.rpow_nonneg (abs_nonneg x) p) (vsub vpost upost)
  have h3 : 0 < |t - a| ^ p := Real.rpow_pos_of_pos (abs_pos.2 (sub_ne_zero.2 hta)) p
  linarith

/-- Lpq kernel, one coordinate (via `D^q = (Σ|Δ|^p)^{q/p}`). -/
theorem lpq_coord (P : Params ℝ) (vpre vpost upre upost : List ℝ) (a t : ℝ) (h : vpre.length = upre.length)
    (hp : 0 < P.p) (hta : t ≠ a)
    (hne : ¬ (pNorm P.p (vsub (vpre ++ t :: vpost) (upre ++ a :: upost)) < P.eps)) :
    ∃ g, (gradLpq P (upre ++ a :: upost) (vpre ++ t :: vpost))[vpre.length]? = some g ∧
      HasDerivAt (fun s => kLpq P (upre ++ a :: upost) (vpre ++ s :: vpost)) g t := by
  have hδ : t - a ≠ 0 := sub_ne_zero.2 hta
  set Δt := vsub (vpre ++ t :: vpost) (upre ++ a :: upost) with hΔt
  have hS : 0 < pSum P.p Δt := pSum_pos_of_entry P.p vpre vpost upre upost a t h hta
  have hD : 0 < pNorm P.p Δt := by
    unfold pNorm; simp only [rpow_real]; exact Real.rpow_pos_of_pos hS _
  refine ⟨kLpq P (upre ++ a :: upost) (vpre ++ t :: vpost) * (-(P.q / P.L ^ P.q)) * (pNorm P.p Δt) ^ (P.q - P.p)
      * sgnPow (P.p - 1) (t - a), ?_, ?_⟩
  · unfold gradLpq
    simp only [rpow_real, ← hΔt, if_neg hne]
    have := map_vsub_entry (fun x => kLpq P (upre ++ a :: upost) (vpre ++ t :: vpost) * (-(P.q / P.L ^ P.q))
      * (pNorm P.p Δt) ^ (P.q - P.p) * sgnPow (P.p - 1) x) vpre vpost upre upost a t h
    rw [← hΔt] at this
    exact this
  · have h1 := coordSum_hasDerivAt (fun x : ℝ => |x| ^ P.p) _ vpre vpost upre upost a t h (absPow_hasDerivAt P.p _ hδ)
    have h1' : HasDerivAt (fun s => pSum P.p (vsub (vpre ++ s :: vpost) (upre ++ a :: upost)))
        (P.p * sgnPow (P.p - 1) (t - a)) t := h1
    have h2 := h1'.rpow_const (p := 1 / P.p) (Or.inl (by rw [← hΔt]; exact hS.ne'))
    have h2' : HasDerivAt (fun s => pNorm P.p (vsub (vpre ++ s :: vpost) (upre ++ a :: upost))) _ t := h2
    have h3 := h2'.rpow_const (p := P.q) (Or.inl (by rw [← hΔt]; exact hD.ne'))
    have h4 := (h3.neg.div_const (P.L ^ P.q)).exp
    simp only [Pi.neg_apply] at h4
    have h4' : HasDerivAt (fun s => kLpq P (upre ++ a :: upost) (vpre ++ s :: vpost)) _ t := h4
    refine h4'.congr_deriv ?_
    simp only [← hΔt]
    have e1 : (pSum P.p Δt) ^ (1 / P.p - 1) = (pNorm P.p Δt) ^ (1 - P.p) := by
      unfold pNorm; simp only [rpow_real]
      rw [← Real.rpow_mul hS.le]
      congr 1
      field_simp
    have e2 : (pNorm P.p Δt) ^ (P.q - P.p) = (pNorm P.p Δt) ^ (1 - P.p) * (pNorm P.p Δt) ^ (P.q - 1) := by
      rw [← Real.rpow_add hD]; congr 1; ring
    rw [e1, e2]
    unfold kLpq
    simp only [rpow_real, exp_real, ← hΔt]
    field_simp


/-! ### (4) linearity in the coefficients, output by output -/

/-- Derivative of `s ↦ Σ_i c_i · k(u_i, V s)` is `Σ_i c_i · (∂ k(u_i, ·))`: the `c`-weighted sum. -/
theorem fval_hasDerivAt (kf : List ℝ → List ℝ → ℝ) (V : ℝ → List ℝ) (g : List ℝ → ℝ) (t : ℝ) :
    ∀ (c : List ℝ) (us : List (List ℝ)), (∀ u ∈ us, HasDerivAt (fun s => kf u (V s)) (g u) t) →
      HasDerivAt (fun s => fval kf c us (V s)) (vsum (List.zipWith (fun ci u => ci * g u) c us)) t
  | [], _, _ => by
    simp only [fval, List.zipWith_nil_left, vsum_nil]; exact hasDerivAt_const t 0
  | _ :: _, [], _ => by
    simp only [fval, List.zipWith_nil_right, vsum_nil]; exact hasDerivAt_const t 0
  | ci :: c, u :: us, h => by
    have h1 := (h u (List.mem_cons_self)).const_mul ci
    have h2 := fval_hasDerivAt kf V g t c us (fun u' hu' => h u' (List.mem_cons_of_mem _ hu'))
    simp only [fval, List.zipWith_cons_cons, vsum_cons] at h2 ⊢
    exact h1.add h2

theorem vadd_getD (a b : List ℝ) (h : a.length = b.length) (n : ℕ) :
    (vadd a b).getD n 0 = a.getD n 0 + b.getD n 0 := by
  induction a generalizing b n with
  | nil =>
    cases b with
    | nil => simp [vadd]
    | cons y b => simp at h
  | cons x a ih =>
    cases b with
    | nil => simp at h
    | cons y b =>
      cases n with
      | zero => simp [vadd]
      | succ n =>
        have := ih b (by simpa using h) n
        simpa [vadd] using this

theorem vadd_length (a b : List ℝ) (h : a.length = b.length) : (vadd a b).length = a.length := by
  simp [vadd, h]

theorem vzero_getD (m n : ℕ) : (vzero m : List ℝ).getD n 0 = 0 := by
  unfold vzero
  rw [List.getD_eq_getElem?_getD]
  rcases Nat.lt_or_ge n m with h | h
  · rw [List.getElem?_replicate_of_lt h]; rfl
  · rw [List.getElem?_eq_none (by simpa using h)]; rfl

theorem vscale_getD (c : ℝ) (v : List ℝ) (n : ℕ) : (vscale c v).getD n 0 = c * v.getD n 0 := by
  unfold vscale
  rw [List.getD_eq_getElem?_getD, List.getD_eq_getElem?_getD, List.getElem?_map]
  cases v[n]? <;> simp

theorem vscale_length (c : ℝ) (v : List ℝ) : (vscale c v).length = v.length := by simp [vscale]

/-- Entry `n` of the model's row gradient is the `c`-weighted sum of the entries `n` of the per-center gradients
(and the row has the length of `v`). -/
theorem rowGrad_aux (pg : List ℝ → List ℝ → List ℝ) (v : List ℝ) (n : ℕ) : ∀ (c : List ℝ) (us : List (List ℝ)),
    (∀ u ∈ us, (pg u v).length = v.length) →
    (rowGrad pg c us v).length = v.length ∧
    (rowGrad pg c us v).getD n 0 = vsum (List.zipWith (fun ci u => ci * (pg u v).getD n 0) c us)
  | [], _, _ => by
    simp only [rowGrad, List.zipWith_nil_left, vsum_nil]
    exact ⟨by simp [sumRows, vzero], vzero_getD _ _⟩
  | _ :: _, [], _ => by
    simp only [rowGrad, List.zipWith_nil_right, vsum_nil]
    exact ⟨by simp [sumRows, vzero], vzero_getD _ _⟩
  | ci :: c, u :: us, hpg => by
    obtain ⟨hl, hg⟩ := rowGrad_aux pg v n c us (fun u' hu' => hpg u' (List.mem_cons_of_mem _ hu'))
    have hu := hpg u List.mem_cons_self
    have e : rowGrad pg (ci :: c) (u :: us) v = vadd (vscale ci (pg u v)) (rowGrad pg c us v) := rfl
    have hlen : (vscale ci (pg u v)).length = (rowGrad pg c us v).length := by
      rw [vscale_length, hu, hl]
    rw [e]
    refine ⟨by rw [vadd_length _ _ hlen, vscale_length, hu], ?_⟩
    rw [vadd_getD _ _ hlen, vscale_getD, hg]
    simp only [List.zipWith_cons_cons, vsum_cons]

theorem rowGrad_getD (pg : List ℝ → List ℝ → List ℝ) (v : List ℝ) (n : ℕ) (c : List ℝ) (us : List (List ℝ))
    (hpg : ∀ u ∈ us, (pg u v).length = v.length) :
    (rowGrad pg c us v).getD n 0 = vsum (List.zipWith (fun ci u => ci * (pg u v).getD n 0) c us) :=
  (rowGrad_aux pg v n c us hpg).2

/-- Output `l` of the gradient tensor only reads row `l` of the coefficient matrix (no mixing between outputs). -/
theorem fgrad_row (k : Kind) (P : Params ℝ) (T : Transform ℝ) (xs zs : List (List ℝ)) (coefs : List (List ℝ)) (l : ℕ) :
    (fgrad k P T xs zs coefs)[l]? = (coefs[l]?).map fun c => (fgrad k P T xs zs [c]).headD [] := by
  cases k <;> simp [fgrad, List.getElem?_map]


/-! ### (5) chain rule through a diagonal transform -/

theorem applyT_diag_split (zpre zpost τpre τpost : List ℝ) (s τd : ℝ) (h : zpre.length = τpre.length) :
    applyT (.diag (τpre ++ τd :: τpost)) (zpre ++ s :: zpost)
      = applyT (.diag τpre) zpre ++ (s * τd) :: applyT (.diag τpost) zpost := by
  simp only [applyT]
  rw [List.zipWith_append h]
  rfl

theorem applyT_diag_length (z τ : List ℝ) (h : z.length = τ.length) : (applyT (.diag τ) z).length = z.length := by
  simp [applyT, h]

/-- `∂/∂z_d [G(z ⊙ τ)] = τ_d · (∂_d G)(z ⊙ τ)`: only transformed coordinate `d` moves, with slope `τ_d`. -/
theorem chain_diag (G : List ℝ → ℝ) (g : ℝ) (zpre zpost τpre τpost : List ℝ) (t τd : ℝ)
    (h : zpre.length = τpre.length)
    (hG : HasDerivAt (fun w => G (applyT (.diag τpre) zpre ++ w :: applyT (.diag τpost) zpost)) g (t * τd)) :
    HasDerivAt (fun s => G (applyT (.diag (τpre ++ τd :: τpost)) (zpre ++ s :: zpost))) (g * τd) t := by
  have h1 : HasDerivAt (fun s : ℝ => s * τd) τd t := by
    simpa using (hasDerivAt_id' t).mul_const τd
  have h2 := hG.comp t h1
  refine h2.congr_of_eventuallyEq (Filter.Eventually.of_forall fun s => ?_)
  show G _ = G _
  rw [applyT_diag_split _ _ _ _ _ _ h]

/-- The model multiplies entry `d` of the transformed-coordinate gradient by `τ_d` again. -/
theorem applyT_diag_entry (gpre gpost τpre τpost : List ℝ) (g τd : ℝ) (h : gpre.length = τpre.length) :
    (applyT (.diag (τpre ++ τd :: τpost)) (gpre ++ g :: gpost))[gpre.length]? = some (g * τd) := by
  rw [applyT_diag_split _ _ _ _ _ _ h]
  have : (applyT (.diag τpre) gpre).length = gpre.length := applyT_diag_length _ _ h
  rw [← this]
  simp

/-! ### (6) the coinciding center -/

theorem vsub_self : ∀ u : List ℝ, vsub u u = List.replicate u.length 0
  | [] => rfl
  | a :: u => by
    have := vsub_self u
    simp only [vsub, List.zipWith_cons_cons, sub_self, List.length_cons, List.replicate_succ] at this ⊢
    rw [this]

theorem sgnPow_zero (a : ℝ) : sgnPow a 0 = 0 := by simp [sgnPow]

/-- With the masks (and `sgn 0 = 0`) a center coinciding with the evaluation point contributes exactly 0, for every
kernel and every exponent. -/
theorem pairGrad_self (k : Kind) (P : Params ℝ) (u : List ℝ) : ∀ g ∈ pairGrad k P u u, g = 0 := by
  intro g hg
  have hz : ∀ x ∈ vsub u u, x = 0 := by
    intro x hx; rw [vsub_self] at hx; exact List.eq_of_mem_replicate hx
  have key : ∀ (f : ℝ → ℝ), f 0 = 0 → g ∈ List.map f (vsub u u) → g = 0 := by
    intro f hf hg
    obtain ⟨x, hx, rfl⟩ := List.mem_map.1 hg
    rw [hz x hx, hf]
  cases k <;> simp only [pairGrad, gradL2, gradProd, gradLpq, gradSumPower] at hg
  case sumPower => exact key _ (by simp [sgnPow_zero]) hg
  all_goals
    split_ifs at hg
    · exact key _ rfl hg
    · exact key _ (by simp [sgnPow_zero]) hg

theorem vsum_replicate_zero : ∀ n : ℕ, vsum (List.replicate n (0 : ℝ)) = 0
  | 0 => rfl
  | n + 1 => by rw [List.replicate_succ, vsum_cons, vsum_replicate_zero n, add_zero]

theorem sqDist_self (u : List ℝ) : sqDist u u = 0 := by
  unfold sqDist; rw [vsub_self, List.map_replicate, mul_zero, vsum_replicate_zero]

theorem pSum_self (a : ℝ) (ha : a ≠ 0) (u : List ℝ) : pSum a (vsub u u) = 0 := by
  unfold pSum; rw [vsub_self, List.map_replicate]
  simp only [rpow_real, abs_real, abs_zero, Real.zero_rpow ha, vsum_replicate_zero]

/-- The masks do fire at a coincidence (`eps > 0`): distance, `‖Δ‖_q` and `‖Δ‖_p` are 0 there. -/
theorem masks_fire (P : Params ℝ) (heps : 0 < P.eps) (hq : 0 < P.q) (hp : 0 < P.p) (u : List ℝ) :
    Real.sqrt (sqDist u u) < P.eps ∧ pNorm P.q (vsub u u) < P.eps ∧ pNorm P.p (vsub u u) < P.eps := by
  have hn : ∀ p : ℝ, 0 < p → pNorm p (vsub u u) < P.eps := by
    intro p hp
    unfold pNorm
    rw [pSum_self _ hp.ne']
    simp only [rpow_real]
    rw [Real.zero_rpow (one_div_ne_zero hp.ne')]
    exact heps
  exact ⟨by rw [sqDist_self, Real.sqrt_zero]; exact heps, hn _ hq, hn _ hp⟩

/-- For `q ≥ 1` the (unmasked) L2 term stays bounded as the point approaches the center:
`|M_ij · δ| ≤ (q/L^q) · dist^{q−1}` for `|δ| ≤ dist`. -/
theorem l2_term_bounded (P : Params ℝ) (hL : 0 < P.L) (hq : 1 ≤ P.q) (dist δ : ℝ) (hd : 0 < dist) (hδ : |δ| ≤ dist) :
    |l2Factor P dist * δ| ≤ P.q / P.L ^ P.q * dist ^ (P.q - 1) := by
  unfold l2Factor
  simp only [rpow_real, exp_real]
  have hLq : 0 < P.L ^ P.q := Real.rpow_pos_of_pos hL _
  have hc : 0 ≤ P.q / P.L ^ P.q := div_nonneg (by linarith) hLq.le
  have he : Real.exp (-dist ^ P.q / P.L ^ P.q) ≤ 1 := by
    rw [Real.exp_le_one_iff]
    have : 0 ≤ dist ^ P.q / P.L ^ P.q := div_nonneg (Real.rpow_nonneg hd.le _) hLq.le
    rw [neg_div]; linarith
  have hp : 0 ≤ dist ^ (P.q - 2) := Real.rpow_nonneg hd.le _
  have e : dist ^ (P.q - 1) = dist ^ (P.q - 2) * dist := by
    rw [show P.q - 1 = (P.q - 2) + 1 by ring, Real.rpow_add_one hd.ne']
  rw [abs_mul, abs_mul, abs_mul, abs_neg, abs_of_nonneg hc, abs_of_nonneg (Real.exp_pos _).le, abs_of_nonneg hp, e]
  calc P.q / P.L ^ P.q * Real.exp (-dist ^ P.q / P.L ^ P.q) * dist ^ (P.q - 2) * |δ|
      ≤ P.q / P.L ^ P.q * 1 * dist ^ (P.q - 2) * dist := by gcongr
    _ = P.q / P.L ^ P.q * (dist ^ (P.q - 2) * dist) := by ring


/-! ### memory-light kernel (works with `M` itself): `M = None` and diagonal `M` -/

theorem dot_append (a₁ a₂ b₁ b₂ : List ℝ) (h : a₁.length = b₁.length) :
    dot (a₁ ++ a₂) (b₁ ++ b₂) = dot a₁ b₁ + dot a₂ b₂ := by
  unfold dot; rw [List.zipWith_append h, vsum_append]

theorem dot_cons (a b : ℝ) (l₁ l₂ : List ℝ) : dot (a :: l₁) (b :: l₂) = a * b + dot l₁ l₂ := rfl

/-- The quadratic form of the light kernel with diagonal `M = m`, one coordinate varying. -/
theorem lightQuad_diag_eq (zpre zpost xpre xpost mpre mpost : List ℝ) (a s md : ℝ)
    (h : zpre.length = xpre.length) (hm : zpre.length = mpre.length) :
    dot (vsub (zpre ++ s :: zpost) (xpre ++ a :: xpost))
        (applyT (.diag (mpre ++ md :: mpost)) (vsub (zpre ++ s :: zpost) (xpre ++ a :: xpost)))
      = dot (vsub zpre xpre) (applyT (.diag mpre) (vsub zpre xpre))
        + ((s - a) * ((s - a) * md) + dot (vsub zpost xpost) (applyT (.diag mpost) (vsub zpost xpost))) := by
  have hl : (vsub zpre xpre).length = mpre.length := by rw [vsub_length_pre _ _ h, hm]
  rw [vsub_split _ _ _ _ _ _ h, applyT_diag_split _ _ _ _ _ _ hl,
    dot_append _ _ _ _ (by rw [applyT_diag_length _ _ hl]), dot_cons]

theorem lightQuad_diag_hasDerivAt (zpre zpost xpre xpost mpre mpost : List ℝ) (a t md : ℝ)
    (h : zpre.length = xpre.length) (hm : zpre.length = mpre.length) :
    HasDerivAt (fun s => dot (vsub (zpre ++ s :: zpost) (xpre ++ a :: xpost))
        (applyT (.diag (mpre ++ md :: mpost)) (vsub (zpre ++ s :: zpost) (xpre ++ a :: xpost))))
      (2 * ((t - a) * md)) t := by
  have h1 : HasDerivAt (fun s : ℝ => s - a) 1 t := (hasDerivAt_id' t).sub_const a
  have h2 : HasDerivAt (fun s : ℝ => (s - a) * ((s - a) * md)) (2 * ((t - a) * md)) t :=
    (h1.mul (h1.mul_const md)).congr_deriv (by ring)
  have h3 := (h2.add_const (dot (vsub zpost xpost) (applyT (.diag mpost) (vsub zpost xpost)))).const_add
    (dot (vsub zpre xpre) (applyT (.diag mpre) (vsub zpre xpre)))
  refine h3.congr_of_eventuallyEq (Filter.Eventually.of_forall fun s => ?_)
  exact lightQuad_diag_eq zpre zpost xpre xpost mpre mpost a s md h hm

/-- Memory-light kernel with diagonal `M`, one coordinate: the model entry (which already contains the factor `m_d`
of the chain rule) is the partial derivative of the kernel value w.r.t. the *raw* coordinate. -/
theorem light_diag_coord (P : Params ℝ) (zpre zpost xpre xpost mpre mpost : List ℝ) (a t md : ℝ)
    (h : zpre.length = xpre.length) (hm : zpre.length = mpre.length) (heps : 0 < P.eps)
    (hne : ¬ (Real.sqrt (lightSq (.diag (mpre ++ md :: mpost)) (xpre ++ a :: xpost) (zpre ++ t :: zpost)) < P.eps)) :
    ∃ g, (gradLight P (.diag (mpre ++ md :: mpost)) (xpre ++ a :: xpost) (zpre ++ t :: zpost))[zpre.length]? = some g ∧
      HasDerivAt (fun s => kLight P (.diag (mpre ++ md :: mpost)) (xpre ++ a :: xpost) (zpre ++ s :: zpost)) g t := by
  set M : Transform ℝ := .diag (mpre ++ md :: mpost) with hM
  set X := xpre ++ a :: xpost with hX
  set r := lightSq M X (zpre ++ t :: zpost) with hr
  have hd : 0 < Real.sqrt r := lt_of_lt_of_le heps (not_lt.1 hne)
  have hrpos : 0 < r := Real.sqrt_pos.1 hd
  -- the clamp is inactive at `t`, hence near `t`
  have hq := lightQuad_diag_hasDerivAt zpre zpost xpre xpost mpre mpost a t md h hm
  have hraw : 0 < dot (vsub (zpre ++ t :: zpost) X) (applyT M (vsub (zpre ++ t :: zpost) X)) := by
    by_contra hcon
    have : r = 0 := by
      rw [hr]; unfold lightSq; simp only []
      split_ifs with h0
      · rfl
      · exact le_antisymm (not_lt.1 hcon) (not_lt.1 h0)
    linarith
  have hev : ∀ᶠ s in nhds t, lightSq M X (zpre ++ s :: zpost)
      = dot (vsub (zpre ++ s :: zpost) X) (applyT M (vsub (zpre ++ s :: zpost) X)) := by
    filter_upwards [hq.continuousAt.eventually (lt_mem_nhds hraw)] with s hs
    unfold lightSq; simp only []
    rw [if_neg (not_lt.2 hs.le)]
  have hsq : HasDerivAt (fun s => lightSq M X (zpre ++ s :: zpost)) (2 * ((t - a) * md)) t :=
    hq.congr_of_eventuallyEq hev
  refine ⟨l2Factor P (Real.sqrt r) * ((t - a) * md), ?_, ?_⟩
  · unfold gradLight
    simp only [sqrt_real, ← hr, if_neg hne]
    have hl : (vsub zpre xpre).length = mpre.length := by rw [vsub_length_pre _ _ h, hm]
    rw [hX, hM, vsub_split _ _ _ _ _ _ h, applyT_diag_split _ _ _ _ _ _ hl]
    have := map_entry (fun x => l2Factor P (Real.sqrt r) * x) (applyT (.diag mpre) (vsub zpre xpre))
      (applyT (.diag mpost) (vsub zpost xpost)) ((t - a) * md)
    rwa [applyT_diag_length _ _ hl, vsub_length_pre _ _ h] at this
  · have h1 := (radial_hasDerivAt P.L P.q r hrpos).comp t hsq
    unfold kLight
    refine h1.congr_deriv ?_
    unfold l2Factor radial
    simp only [rpow_real, exp_real, sqrt_real]
    ring


theorem dot_self_eq (Δ : List ℝ) : dot Δ Δ = vsum (Δ.map fun t => t * t) := by
  unfold dot; rw [List.zipWith_self]

theorem lightSq_none (x z : List ℝ) : lightSq (.none : Transform ℝ) x z = sqDist x z := by
  unfold lightSq sqDist
  simp only [applyT, dot_self_eq]
  rw [if_neg (not_lt.2 (vsum_map_nonneg (fun t => t * t) (fun t => mul_self_nonneg t) _))]

theorem kLight_none (P : Params ℝ) (x z : List ℝ) : kLight P .none x z = kL2 P x z := by
  unfold kLight kL2; rw [lightSq_none]

theorem gradLight_none (P : Params ℝ) (x z : List ℝ) : gradLight P .none x z = gradL2 P x z := by
  unfold gradLight gradL2; rw [lightSq_none]; rfl


/-! ### all kernels at once, and the whole predictor in transformed coordinates -/

/-- "General position" of the point w.r.t. one center, for the coordinate that varies (`δ = t − a`): the mask of the
kernel does not fire and (coordinate-wise kernels) the coordinate is off the kink. -/
def CoordOK (k : Kind) (P : Params ℝ) (u v : List ℝ) (δ : ℝ) : Prop :=
  match k with
  | .l2 => ¬ (Real.sqrt (sqDist u v) < P.eps)
  | .light => ¬ (Real.sqrt (sqDist u v) < P.eps)
  | .prod => δ ≠ 0 ∧ ¬ (pNorm P.q (vsub v u) < P.eps)
  | .lpq => δ ≠ 0 ∧ ¬ (pNorm P.p (vsub v u) < P.eps)
  | .sumPower => ¬ (|δ| < P.eps)

theorem pairGrad_length (k : Kind) (P : Params ℝ) (u v : List ℝ) (h : v.length = u.length) :
    (pairGrad k P u v).length = v.length := by
  have hv : (vsub v u).length = v.length := by simp [vsub, h]
  cases k <;> simp only [pairGrad, gradL2, gradProd, gradLpq, gradSumPower]
  case sumPower => rw [List.length_map, hv]
  all_goals split_ifs <;> rw [List.length_map, hv]

/-- Every kernel, one coordinate: the entry of `pairGrad` is the partial derivative of `kval`. -/
theorem pair_coord (k : Kind) (P : Params ℝ) (heps : 0 < P.eps) (hp : 0 < P.p) (hc0 : 0 ≤ P.cmix) (hc1 : P.cmix < 1)
    (vpre vpost upre upost : List ℝ) (a t : ℝ) (h : vpre.length = upre.length)
    (hok : CoordOK k P (upre ++ a :: upost) (vpre ++ t :: vpost) (t - a)) :
    ∃ g, (pairGrad k P (upre ++ a :: upost) (vpre ++ t :: vpost))[vpre.length]? = some g ∧
      HasDerivAt (fun s => kval k P (upre ++ a :: upost) (vpre ++ s :: vpost)) g t := by
  cases k
  case l2 => exact l2_coord P vpre vpost upre upost a t h heps hok
  case light => exact l2_coord P vpre vpost upre upost a t h heps hok
  case prod => exact prod_coord P vpre vpost upre upost a t h (sub_ne_zero.1 hok.1) hok.2
  case lpq => exact lpq_coord P vpre vpost upre upost a t h hp (sub_ne_zero.1 hok.1) hok.2
  case sumPower =>
    have hδ : t - a ≠ 0 := fun h0 => hok (by rw [h0, abs_zero]; exact heps)
    refine sumPower_coord P vpre vpost upre upost a t h (sub_ne_zero.1 hδ) hok (Or.inl ?_)
    refine (sBracket_pos P hc0 hc1 _ ?_).ne'
    rw [vsub_split _ _ _ _ _ _ h]; simp

/-- The whole predictor of one output row in transformed coordinates: entry `d` of the model's `c`-weighted sum of
per-center gradients is `∂/∂v_d Σ_i c_i k(u_i, v)`. -/
theorem predictor_coord (k : Kind) (P : Params ℝ) (heps : 0 < P.eps) (hp : 0 < P.p) (hc0 : 0 ≤ P.cmix) (hc1 : P.cmix < 1)
    (vpre vpost : List ℝ) (t : ℝ) (c : List ℝ) (us : List (List ℝ))
    (hus : ∀ u ∈ us, ∃ upre a upost, u = upre ++ a :: upost ∧ vpre.length = upre.length ∧ vpost.length = upost.length ∧
      CoordOK k P u (vpre ++ t :: vpost) (t - a)) :
    HasDerivAt (fun s => fval (kval k P) c us (vpre ++ s :: vpost))
      ((rowGrad (pairGrad k P) c us (vpre ++ t :: vpost)).getD vpre.length 0) t := by
  have hlen : ∀ u ∈ us, (pairGrad k P u (vpre ++ t :: vpost)).length = (vpre ++ t :: vpost).length := by
    intro u hu
    obtain ⟨upre, a, upost, rfl, h1, h2, _⟩ := hus u hu
    exact pairGrad_length k P _ _ (by simp [h1, h2])
  rw [rowGrad_getD _ _ _ _ _ hlen]
  refine fval_hasDerivAt (kval k P) (fun s => vpre ++ s :: vpost)
    (fun u => (pairGrad k P u (vpre ++ t :: vpost)).getD vpre.length 0) t c us ?_
  intro u hu
  obtain ⟨upre, a, upost, rfl, h1, _, hok⟩ := hus u hu
  obtain ⟨g, hg, hd⟩ := pair_coord k P heps hp hc0 hc1 vpre vpost upre upost a t h1 hok
  rw [List.getD_eq_getElem?_getD, hg]
  exact hd

/-! ### end to end through a diagonal transform -/

theorem applyT_diag_getD (g τpre τpost : List ℝ) (τd : ℝ) (hlen : τpre.length < g.length) :
    (applyT (.diag (τpre ++ τd :: τpost)) g).getD τpre.length 0 = g.getD τpre.length 0 * τd := by
  simp only [applyT]
  rw [List.getD_eq_getElem?_getD, List.getD_eq_getElem?_getD, List.getElem?_zipWith]
  have h1 : (τpre ++ τd :: τpost)[τpre.length]? = some τd := by simp
  rw [h1, List.getElem?_eq_getElem hlen]
  rfl

/-- End-to-end for a diagonal transform (`diag=True` fits), per coordinate: entry `d` of the tensor row returned by the
model's `get_function_grads` is `∂/∂z_d` of the predictor `z ↦ Σ_i c_i k(x_i ⊙ τ, z ⊙ τ)`. -/
theorem predictor_diag_coord (k : Kind) (hk : k ≠ .light) (P : Params ℝ) (heps : 0 < P.eps) (hp : 0 < P.p)
    (hc0 : 0 ≤ P.cmix) (hc1 : P.cmix < 1)
    (zpre zpost τpre τpost : List ℝ) (t τd : ℝ) (c : List ℝ) (xs : List (List ℝ))
    (hτ : zpre.length = τpre.length) (hτ' : zpost.length = τpost.length)
    (hus : ∀ u ∈ xs.map (applyT (.diag (τpre ++ τd :: τpost))), ∃ upre a upost, u = upre ++ a :: upost ∧
      zpre.length = upre.length ∧ zpost.length = upost.length ∧
      CoordOK k P u (applyT (.diag (τpre ++ τd :: τpost)) (zpre ++ t :: zpost)) (t * τd - a)) :
    HasDerivAt (fun s => predictRow k P (.diag (τpre ++ τd :: τpost)) xs c (zpre ++ s :: zpost))
      ((((fgrad k P (.diag (τpre ++ τd :: τpost)) xs [zpre ++ t :: zpost] [c]).headD []).headD []).getD zpre.length 0) t := by
  set T : Transform ℝ := .diag (τpre ++ τd :: τpost) with hT
  set us := xs.map (applyT T) with hus'
  have hpr : ∀ s, predictRow k P T xs c (zpre ++ s :: zpost) = fval (kval k P) c us (applyT T (zpre ++ s :: zpost)) := by
    intro s; cases k <;> first | exact absurd rfl hk | rfl
  have hfg : ((fgrad k P T xs [zpre ++ t :: zpost] [c]).headD []).headD []
      = applyT T (rowGrad (pairGrad k P) c us (applyT T (zpre ++ t :: zpost))) := by
    cases k <;> first | exact absurd rfl hk | rfl
  rw [hfg]
  have hsplit : applyT T (zpre ++ t :: zpost) = applyT (.diag τpre) zpre ++ (t * τd) :: applyT (.diag τpost) zpost :=
    applyT_diag_split _ _ _ _ _ _ hτ
  have hl1 : (applyT (.diag τpre) zpre).length = zpre.length := applyT_diag_length _ _ hτ
  have hl2 : (applyT (.diag τpost) zpost).length = zpost.length := applyT_diag_length _ _ hτ'
  have hus2 : ∀ u ∈ us, ∃ upre a upost, u = upre ++ a :: upost ∧
      (applyT (.diag τpre) zpre).length = upre.length ∧ (applyT (.diag τpost) zpost).length = upost.length ∧
      CoordOK k P u (applyT (.diag τpre) zpre ++ (t * τd) :: applyT (.diag τpost) zpost) (t * τd - a) := by
    intro u hu
    obtain ⟨upre, a, upost, h1, h2, h3, h4⟩ := hus u hu
    exact ⟨upre, a, upost, h1, by rw [hl1, h2], by rw [hl2, h3], by rw [← hsplit]; exact h4⟩
  have hinner := predictor_coord k P heps hp hc0 hc1 (applyT (.diag τpre) zpre) (applyT (.diag τpost) zpost) (t * τd) c us hus2
  have hchain := chain_diag (fun v => fval (kval k P) c us v) _ zpre zpost τpre τpost t τd hτ hinner
  have hrl : (rowGrad (pairGrad k P) c us (applyT T (zpre ++ t :: zpost))).length = (applyT T (zpre ++ t :: zpost)).length := by
    refine (rowGrad_aux _ _ 0 c us ?_).1
    intro u hu
    obtain ⟨upre, a, upost, rfl, h2, h3, _⟩ := hus u hu
    refine pairGrad_length k P _ _ ?_
    rw [hsplit]; simp [hl1, hl2, h2, h3]
  have hentry := applyT_diag_getD (rowGrad (pairGrad k P) c us (applyT T (zpre ++ t :: zpost))) τpre τpost τd
    (by rw [hrl, hsplit]; simp [hl1, ← hτ])
  rw [← hτ] at hentry
  rw [hentry, hsplit]
  rw [hl1] at hchain
  exact hchain.congr_of_eventuallyEq (Filter.Eventually.of_forall fun s => hpr s)


/-! ### (5) chain rule through a full symmetric transform -/

open Matrix

theorem vecMul_update {n : ℕ} (T : Matrix (Fin n) (Fin n) ℝ) (z : Fin n → ℝ) (d : Fin n) (s : ℝ) :
    Matrix.vecMul (Function.update z d s) T = Matrix.vecMul z T + (s - z d) • T d := by
  have : Function.update z d s = z + (s - z d) • Pi.single d 1 := by
    ext i
    by_cases h : i = d
    · subst h; simp
    · simp [Function.update_of_ne h, Pi.single_eq_of_ne h]
  rw [this, Matrix.add_vecMul, Matrix.smul_vecMul, Matrix.single_one_vecMul]
  rfl

/-- (5) chain rule through a full symmetric transform: `∂/∂z_d [G(zT)] = Σ_e (∂_e G)(zT) · T_{e,d}`, i.e. entry `d`
of `(∇G)(zT) · T` – what `_transform_m(grads, mat)` computes. -/
theorem chain_full {n : ℕ} (T : Matrix (Fin n) (Fin n) ℝ) (hT : T.IsSymm) (G : (Fin n → ℝ) → ℝ)
    (G' : (Fin n → ℝ) →L[ℝ] ℝ) (z : Fin n → ℝ) (d : Fin n)
    (hG : HasFDerivAt G G' (Matrix.vecMul z T)) :
    HasDerivAt (fun s => G (Matrix.vecMul (Function.update z d s) T))
      (Matrix.vecMul (fun e => G' (Pi.single e 1)) T d) (z d) := by
  have hφ : HasDerivAt (fun s : ℝ => Matrix.vecMul (Function.update z d s) T) (T d) (z d) := by
    have h1 : HasDerivAt (fun s : ℝ => (s - z d) • T d) ((1 : ℝ) • T d) (z d) :=
      ((hasDerivAt_id' (z d)).sub_const (z d)).smul_const (T d)
    have h2 := h1.const_add (Matrix.vecMul z T)
    rw [one_smul] at h2
    refine h2.congr_of_eventuallyEq (Filter.Eventually.of_forall fun s => ?_)
    exact vecMul_update T z d s
  have hG' : HasFDerivAt G G' (Matrix.vecMul (Function.update z d (z d)) T) := by
    rwa [Function.update_eq_self]
  have h := hG'.comp_hasDerivAt (z d) hφ
  refine h.congr_deriv ?_
  have e : T d = ∑ e, T d e • (Pi.single e 1 : Fin n → ℝ) := by
    ext i; simp [Finset.sum_apply, Pi.single_apply]
  rw [e, map_sum]
  simp only [map_smul, smul_eq_mul, Matrix.vecMul, dotProduct]
  refine Finset.sum_congr rfl fun e _ => ?_
  rw [hT.apply, mul_comm]



theorem vsum_zipWith_ofFn {β γ : Type} (f : β → γ → ℝ) : ∀ {n : ℕ} (a : Fin n → β) (b : Fin n → γ),
    vsum (List.zipWith f (List.ofFn a) (List.ofFn b)) = ∑ i, f (a i) (b i)
  | 0, _, _ => by simp [vsum_nil]
  | n + 1, a, b => by
    rw [List.ofFn_succ, List.ofFn_succ, List.zipWith_cons_cons, vsum_cons, Fin.sum_univ_succ,
      vsum_zipWith_ofFn f (fun i => a i.succ) (fun i => b i.succ)]

/-- The model's `x @ T` on lists is `Matrix.vecMul`. -/
theorem applyT_full_entry {n : ℕ} (T : Matrix (Fin n) (Fin n) ℝ) (x : Fin n → ℝ) (e : Fin n) :
    (applyT (.full (List.ofFn fun i => List.ofFn (T i))) (List.ofFn x))[(e : ℕ)]? = some (Matrix.vecMul x T e) := by
  simp only [applyT, List.length_ofFn]
  rw [List.getElem?_map, List.getElem?_range e.isLt]
  simp only [Option.map_some]
  congr 1
  rw [vsum_zipWith_ofFn]
  simp only [Matrix.vecMul, dotProduct]
  refine Finset.sum_congr rfl fun i _ => ?_
  congr 1
  rw [List.getD_eq_getElem?_getD, List.getElem?_ofFn]
  simp [e.isLt]


end Xrfmv.Grad
