import Xrfmv.Props.C06
#print axioms Xrfmv.Props.C06.split_sizes
#print axioms Xrfmv.Props.C06.terminates_leaves_bounded
#print axioms Xrfmv.Props.C06.depth_bound
#print axioms Xrfmv.Props.C06.min_splits_honoured
#print axioms Xrfmv.Props.C06.overlap_hypothesis
