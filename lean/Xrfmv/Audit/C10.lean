import Xrfmv.Props.C10
#print axioms Xrfmv.Props.C10.tuned_optimal
#print axioms Xrfmv.Props.C10.best_score_is_returned_score
#print axioms Xrfmv.Props.C10.results_faithful
#print axioms Xrfmv.Props.C10.no_regress_vs_hard
