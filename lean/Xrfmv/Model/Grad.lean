/-
Closed-form gradients of the CPU kernels of `xrfm/rfm_src/kernels.py` (C04).

`f_l(z) = Σ_i c_{l,i} · k(x_i, z)`; `get_function_grads(x, z, coefs, mat)` returns `∇_z f_l(z_j)` as a tensor
`(f, n_z, d)`.  Kernels are evaluated on transformed points `u = x·T`, `v = z·T` (`T` = `mat`: none / vector
(diagonal) / matrix); the implementation takes the gradient w.r.t. the transformed point and multiplies by `T`
again (`_transform_m(grads, mat)`), which is the chain rule for symmetric `T`.

Everything is scalar-generic (classes of `Xrfmv/Scalar.lean`, no laws): the same definitions are executed on
`Float` by the driver (`Drv/C04.lean`) and are the subject of the theorems at `ℝ` (`Props/C04.lean`).
Vectors are `List α`; matrices are lists of rows.

Kernel values are the *unmasked* closed forms (what `get_kernel_matrix` / `predict` evaluate); gradients carry
the coincidence mask of each implementation:
  * L2, memory-light: distance `< eps`  ⇒ that center's term is 0        (`mask = dists >= eps`)
  * product:          `(Σ_d |Δ_d|^q)^{1/q} < eps` ⇒ term 0               (`base_dists >= eps`, the q-norm itself)
  * Lpq:              `‖Δ‖_p < eps`      ⇒ term 0                       (`base_dists >= eps`)
  * sum-power:        `|Δ_d| < eps`      ⇒ coordinate `d` contributes 0  (`abs_diffs >= eps`)
-/
import Xrfmv.Scalar

namespace Xrfmv.Grad

/-- Which `Kernel` subclass. -/
inductive Kind where
  | l2        -- LaplaceKernel
  | light     -- LightLaplaceKernel (works with `M`, not `sqrtM`; overrides `get_function_grads`)
  | prod      -- ProductLaplaceKernel
  | lpq       -- LpqLaplaceKernel
  | sumPower  -- SumPowerLaplaceKernel
  deriving DecidableEq, Repr

/-- Kernel parameters: bandwidth `L`, exponent `q`, norm exponent `p` (Lpq only), mask threshold `eps`,
`const_mix` and `power` (sum-power only). -/
structure Params (α : Type) where
  L : α
  q : α
  p : α
  eps : α
  cmix : α
  power : α

/-- `mat`: `None`, a vector (diagonal) or a matrix (list of rows). -/
inductive Transform (α : Type) where
  | none
  | diag (t : List α)
  | full (T : List (List α))

section
variable {α : Type} [Add α] [Sub α] [Mul α] [Div α] [Neg α] [OfNat α 0] [OfNat α 1] [OfNat α 2]
  [LT α] [DecidableLT α] [HasExp α] [HasRpow α] [HasAbs α] [HasSqrt α]

/-! ### vectors -/

def vsum (l : List α) : α := l.foldr (· + ·) 0
def vsub (v u : List α) : List α := List.zipWith (· - ·) v u
def vadd (a b : List α) : List α := List.zipWith (· + ·) a b
def vscale (c : α) (v : List α) : List α := v.map (c * ·)
def vzero (n : Nat) : List α := List.replicate n 0
def dot (a b : List α) : α := vsum (List.zipWith (· * ·) a b)
/-- Length of a list as a scalar (`x.shape[1]`). -/
def lenS {β : Type} (l : List β) : α := l.foldr (fun _ a => a + 1) 0
/-- Sum of a list of vectors of length `n`. -/
def sumRows (n : Nat) (rows : List (List α)) : List α := rows.foldr vadd (vzero n)

/-- `|t|^a · sgn t` (with value 0 at `t = 0`, as autograd's `sign(0) = 0`). -/
def sgnPow (a t : α) : α :=
  if 0 < t then rpow (HasAbs.abs t) a else if t < 0 then -(rpow (HasAbs.abs t) a) else 0

/-- `_transform_m(x, mat)` for one row: `x`, `x * mat[None, :]`, `x @ mat`. -/
def applyT : Transform α → List α → List α
  | .none, x => x
  | .diag t, x => List.zipWith (· * ·) x t
  | .full T, x =>
      (List.range x.length).map fun e => vsum (List.zipWith (fun xd (row : List α) => xd * row.getD e 0) x T)

/-! ### kernel values (unmasked closed forms), in transformed coordinates -/

/-- The one-dimensional Laplace profile `exp(-|s|^q / L^q)`. -/
def profile (L q s : α) : α := exp (-(rpow (HasAbs.abs s) q) / rpow L q)

/-- `‖v - u‖₂²`. -/
def sqDist (u v : List α) : α := vsum ((vsub v u).map fun t => t * t)

/-- `Σ_d |Δ_d|^a`. -/
def pSum (a : α) (Δ : List α) : α := vsum (Δ.map fun t => rpow (HasAbs.abs t) a)

/-- Radial profile of the *squared* distance: `exp(-(√r)^q / L^q)`. -/
def radial (L q r : α) : α := exp (-(rpow (sqrt r) q) / rpow L q)

def kL2 (P : Params α) (u v : List α) : α := radial P.L P.q (sqDist u v)

def kProd (P : Params α) (u v : List α) : α := exp (-(pSum P.q (vsub v u)) / rpow P.L P.q)

/-- `‖Δ‖_p = (Σ|Δ_d|^p)^{1/p}`. -/
def pNorm (p : α) (Δ : List α) : α := rpow (pSum p Δ) (1 / p)

def kLpq (P : Params α) (u v : List α) : α := exp (-(rpow (pNorm P.p (vsub v u)) P.q) / rpow P.L P.q)

/-- The bracket `s = (1-c)·mean_d e_d + c` of the sum-power kernel. -/
def sBracket (P : Params α) (Δ : List α) : α :=
  (1 - P.cmix) * (vsum (Δ.map (profile P.L P.q)) / lenS Δ) + P.cmix

def kSumPower (P : Params α) (u v : List α) : α := rpow (sBracket P (vsub v u)) P.power

/-- Quadratic form `Δ·(ΔM)` of the memory-light kernel, clamped at 0 (`clamp_(min=0)`); the code expands it as
`xMx − 2·xMz + zMz`, which is the same real number for symmetric `M`. -/
def lightSq (M : Transform α) (x z : List α) : α :=
  let Δ := vsub z x
  let r := dot Δ (applyT M Δ)
  if r < 0 then 0 else r

def kLight (P : Params α) (M : Transform α) (x z : List α) : α := radial P.L P.q (lightSq M x z)

/-- Kernel value in transformed coordinates (all kinds except `light`, which takes raw points and `M`). -/
def kval (k : Kind) (P : Params α) (u v : List α) : α :=
  match k with
  | .l2 => kL2 P u v
  | .light => kL2 P u v
  | .prod => kProd P u v
  | .lpq => kLpq P u v
  | .sumPower => kSumPower P u v

/-! ### gradients w.r.t. the (transformed) second argument, with each implementation's mask -/

/-- The factor `M_ij = −(q/L^q)·k·dist^{q−2}` the code states for the L2 kernels. -/
def l2Factor (P : Params α) (dist : α) : α :=
  -(P.q / rpow P.L P.q) * exp (-(rpow dist P.q) / rpow P.L P.q) * rpow dist (P.q - 2)

/-- `∇_v k(u, v)` for the L2 kernel: `M_ij · (v − u)`, 0 when `dist < eps`. -/
def gradL2 (P : Params α) (u v : List α) : List α :=
  let Δ := vsub v u
  let dist := sqrt (sqDist u v)
  if dist < P.eps then Δ.map (fun _ => 0) else Δ.map (fun t => l2Factor P dist * t)

/-- `∇_z k(x, z)` for the memory-light kernel with matrix `M` (already including the chain rule):
`M_ij · ((z − x)M)`, 0 when `dist < eps`. -/
def gradLight (P : Params α) (M : Transform α) (x z : List α) : List α :=
  let mΔ := applyT M (vsub z x)
  let dist := sqrt (lightSq M x z)
  if dist < P.eps then mΔ.map (fun _ => 0) else mΔ.map (fun t => l2Factor P dist * t)

/-- Product kernel: `k · (−q/L^q) · |Δ_d|^{q−1} sgn Δ_d`, 0 when `‖Δ‖_q < eps` (the mask is on the q-norm, as in the
Lpq kernel — not on its q-th power). -/
def gradProd (P : Params α) (u v : List α) : List α :=
  let Δ := vsub v u
  if pNorm P.q Δ < P.eps then Δ.map (fun _ => 0)
  else Δ.map (fun t => kProd P u v * (-(P.q / rpow P.L P.q)) * sgnPow (P.q - 1) t)

/-- Lpq kernel: `k · (−q/L^q) · D^{q−p} · |Δ_d|^{p−1} sgn Δ_d` with `D = ‖Δ‖_p`, 0 when `D < eps`. -/
def gradLpq (P : Params α) (u v : List α) : List α :=
  let Δ := vsub v u
  let D := pNorm P.p Δ
  if D < P.eps then Δ.map (fun _ => 0)
  else Δ.map (fun t => kLpq P u v * (-(P.q / rpow P.L P.q)) * rpow D (P.q - P.p) * sgnPow (P.p - 1) t)

/-- Sum-power kernel: `P·s^{P−1}·((1−c)/dim)·e_d·(−q/L^q)·|Δ_d|^{q−1} sgn Δ_d`; coordinate `d` contributes 0
when `|Δ_d| < eps`. -/
def gradSumPower (P : Params α) (u v : List α) : List α :=
  let Δ := vsub v u
  let s := sBracket P Δ
  Δ.map fun t =>
    if HasAbs.abs t < P.eps then 0
    else P.power * rpow s (P.power - 1) * ((1 - P.cmix) / lenS Δ) * profile P.L P.q t
           * (-(P.q / rpow P.L P.q)) * sgnPow (P.q - 1) t

/-- Gradient of one kernel term in transformed coordinates. -/
def pairGrad (k : Kind) (P : Params α) (u v : List α) : List α :=
  match k with
  | .l2 => gradL2 P u v
  | .light => gradL2 P u v
  | .prod => gradProd P u v
  | .lpq => gradLpq P u v
  | .sumPower => gradSumPower P u v

/-! ### the predictor `f_l = Σ_i c_{l,i} k(x_i, ·)` and its gradient -/

/-- `f(v) = Σ_i c_i · k(u_i, v)` for one output row `c`. -/
def fval (kf : List α → List α → α) (c : List α) (us : List (List α)) (v : List α) : α :=
  vsum (List.zipWith (fun ci u => ci * kf u v) c us)

/-- `Σ_i c_i · ∇_v k(u_i, v)` for one output row `c`: the `c`-weighted sum of the per-center gradients. -/
def rowGrad (pg : List α → List α → List α) (c : List α) (us : List (List α)) (v : List α) : List α :=
  sumRows v.length (List.zipWith (fun ci u => vscale ci (pg u v)) c us)

/-- The predictor of output row `c` at the *raw* point `z` (what `predict` evaluates). -/
def predictRow (k : Kind) (P : Params α) (T : Transform α) (xs : List (List α)) (c : List α) (z : List α) : α :=
  match k with
  | .light => fval (kLight P T) c xs z
  | _ => fval (kval k P) c (xs.map (applyT T)) (applyT T z)

/-- `get_function_grads(x, z, coefs, mat)`: tensor `(f, n_z, d)`.  Output `l` only reads row `l` of `coefs`. -/
def fgrad (k : Kind) (P : Params α) (T : Transform α) (xs zs : List (List α)) (coefs : List (List α)) :
    List (List (List α)) :=
  match k with
  | .light => coefs.map fun c => zs.map fun z => rowGrad (gradLight P T) c xs z
  | _ =>
    let us := xs.map (applyT T)
    coefs.map fun c => zs.map fun z => applyT T (rowGrad (pairGrad k P) c us (applyT T z))

end

end Xrfmv.Grad
