"""
C09 — soft routing computes the documented leaf mixture.

Proof: lean/Xrfmv/Props/C09.lean over the regenerated Gen.Soft (cache = recursion, simplex, kept set, convex hull,
dominant leaf, T -> 0+).
Correspondence: the real `_build_tree_cache` / `_predict_tree_soft` / `_predict_tree` / `predict` / `predict_proba`
on synthetic param-trees with RECORDING leaf stubs (which leaf was asked about which rows, and what it answered)
and on fitted models whose leaf models are wrapped by recording proxies, versus the Lean model run in float64 by
`driver_c09` on the same tree, rows, temperature, keep fraction, cap and the same per-leaf predictions.
Property oracle: evaluated directly on what the implementation did (independent float64 reference written from
the property statement, never from the Lean model).
"""
import math

from harness import core

MOD = 'harness.props.c09'
EPS = {'f32': 2.0 ** -23, 'f64': 2.0 ** -52}
CLAMP = -50.0


# ------------------------------------------------------------------------------------------------
# shapes:  0 = leaf, [left, right] = split
# ------------------------------------------------------------------------------------------------
def shapes_upto(h):
    """ALL binary tree shapes of height <= h (1, 2, 5, 26, 677, ...)."""
    if h == 0:
        return [0]
    sub = shapes_upto(h - 1)
    return [0] + [[l, r] for l in sub for r in sub]


def n_leaves(s):
    return 1 if s == 0 else n_leaves(s[0]) + n_leaves(s[1])


def height(s):
    return 0 if s == 0 else 1 + max(height(s[0]), height(s[1]))


def random_shape(r, depth, style):
    if depth == 0:
        return 0
    if style == 'balanced':
        return [random_shape(r, depth - 1, style), random_shape(r, depth - 1, style)]
    if style == 'left-chain':
        return [random_shape(r, depth - 1, style), 0]
    if style == 'right-chain':
        return [0, random_shape(r, depth - 1, style)]
    if style == 'zigzag':
        return [0, random_shape(r, depth - 1, 'zagzig')]
    if style == 'zagzig':
        return [random_shape(r, depth - 1, 'zigzag'), 0]
    # ragged: one spine reaches the full depth, the rest stops at random
    deep = r.random() < 0.5
    other = random_shape(r, r.randint(0, depth - 1), 'ragged')
    spine = random_shape(r, depth - 1, 'ragged')
    return [spine, other] if deep else [other, spine]


# ------------------------------------------------------------------------------------------------
# recording leaf stubs
# ------------------------------------------------------------------------------------------------
class RecLeaf:
    """Leaf model stub: a fixed affine function of x (another one for `predict_proba`); logs every call."""

    def __init__(self, ident, a, B, a2, B2, one_dim):
        self.ident, self.a, self.B, self.a2, self.B2, self.one_dim = ident, a, B, a2, B2, one_dim
        self.calls = []

    def _f(self, X, proba):
        a, B = (self.a2, self.B2) if proba else (self.a, self.B)
        out = (X.unsqueeze(1) * B.unsqueeze(0)).sum(-1) + a
        return out[:, 0] if self.one_dim else out

    def pure(self, X, proba):
        return self._f(X, proba)

    def predict(self, X):
        out = self._f(X, False)
        self.calls.append((X.clone(), out.clone(), False))
        return out

    def predict_proba(self, X):
        out = self._f(X, True)
        self.calls.append((X.clone(), out.clone(), True))
        return out


class RecProxy:
    """Recording wrapper around a fitted leaf model (RFM)."""

    def __init__(self, ident, inner):
        self.ident, self.inner = ident, inner
        self.calls = []

    def __getattr__(self, name):
        return getattr(self.inner, name)

    def pure(self, X, proba):
        import torch
        out = self.inner.predict_proba(X) if proba else self.inner.predict(X)
        return torch.as_tensor(out)

    def predict(self, X):
        out = self.inner.predict(X)
        self.calls.append((X.clone(), out.clone(), False))
        return out

    def predict_proba(self, X):
        out = self.inner.predict_proba(X)
        self.calls.append((X.clone(), out.clone(), True))
        return out


# ------------------------------------------------------------------------------------------------
# tree helpers (python dict trees of the implementation)
# ------------------------------------------------------------------------------------------------
def leaves_of(node):
    if node['type'] == 'leaf':
        return [node]
    return leaves_of(node['left']) + leaves_of(node['right'])


def tree_json(node):
    """the tree as sent to the Lean driver: exact float64 images of the stored numbers"""
    if node['type'] == 'leaf':
        return {'leaf': node['model'].ident}
    return {'dir': core.fl(node['split_direction'].double()),
            'thr': core.f2b(float(node['split_point'])),
            'scale': core.f2b(float(node.get('adaptive_temp_scaling', 1.0))),
            'left': tree_json(node['left']), 'right': tree_json(node['right'])}


def logsig(t):
    return -math.log1p(math.exp(-t)) if t >= 0 else t - math.log1p(math.exp(t))


def plain(node):
    """python-float image of an implementation tree: ('leaf', node) | ('split', v, b, scale, left, right)"""
    if node['type'] == 'leaf':
        return ('leaf', node)
    return ('split', node['split_direction'].double().tolist(), float(node['split_point']),
            float(node.get('adaptive_temp_scaling', 1.0)), plain(node['left']), plain(node['right']))


def ref_logps(pt, x, T, eps, lp=0.0, err=0.0, depth=0):
    """Independent float64 reference: [(leaf node, summed log-sigmoid gate terms, rounding allowance)] left to right.

    The allowance bounds the float rounding of the implementation's (x.v - b) / (T * scale) (matmul forward error,
    scalar casts) mapped through the 1-Lipschitz log-sigmoid, plus a few ulps per accumulated term."""
    if pt[0] == 'leaf':
        return [(pt[1], lp, err + eps * (depth + 2) * (abs(lp) + 1.0))]
    _, v, b, s, left, right = pt
    prods = [xi * vi for xi, vi in zip(x, v)]
    z = (math.fsum(prods) - b) / (T * s)
    ez = eps * ((len(v) + 2) * (sum(abs(q) for q in prods) + abs(b)) / abs(T * s) + 4.0 * abs(z))
    ll, lr = logsig(-z), logsig(z)
    return (ref_logps(left, x, T, eps, lp + ll, err + ez + 4 * eps * abs(ll), depth + 1)
            + ref_logps(right, x, T, eps, lp + lr, err + ez + 4 * eps * abs(lr), depth + 1))


def softmax_clamped(lps):
    cl = [max(v, CLAMP) for v in lps]
    m = max(cl)
    e = [math.exp(v - m) for v in cl]
    s = math.fsum(e)
    return [v / s for v in e]


def weight_allow(w, A, eps, N):
    """|dw_l| for log-probabilities perturbed by at most A each: w(1-w) * 2 sinh(A) e^A, plus float roundoff."""
    A = min(A, 30.0)
    sh = 2.0 * math.sinh(A) * math.exp(A)
    return [wl * (1.0 - wl) * sh + wl * (N + 8) * eps + 1e-300 for wl in w]


# ------------------------------------------------------------------------------------------------
# property oracle for one row, on what the implementation did
# ------------------------------------------------------------------------------------------------
def oracle_row(w, aw, S, keep, cap, f_used, out, eps, A):
    """w: reference weights (all leaves), aw their allowances, S: leaf positions the implementation evaluated for
    this row, f_used[l]: the prediction vector leaf l returned for this row, out: implementation output (vector)."""
    fails = []
    N = len(w)
    m = len(S)
    cap_eff = min(cap, N)
    if not (1 <= m <= cap_eff):
        fails.append(('C09:active-count', f'{m} leaves evaluated, cap {cap}, {N} leaves'))
        if m == 0:
            return fails, None
    Ssorted = sorted(S, key=lambda l: -w[l])
    rest = [l for l in range(N) if l not in S]
    if rest:
        lo = min(S, key=lambda l: w[l])
        hi = max(rest, key=lambda l: w[l])
        if w[hi] - aw[hi] > w[lo] + aw[lo]:
            fails.append(('C09:not-top-set', f'evaluated leaf {lo} has weight {w[lo]:.6g} but skipped leaf {hi} has {w[hi]:.6g}'))
    mass = math.fsum(w[l] for l in S)
    amass = math.fsum(aw[l] for l in S) + 4 * eps * abs(keep)
    if m < cap_eff and mass < keep - amass:
        fails.append(('C09:mass-below-keep', f'{m} leaves carry {mass:.9g} < keep {keep} although cap {cap_eff} not reached'))
    if m >= 2:
        small = mass - w[Ssorted[-1]]
        if small > keep + amass:
            fails.append(('C09:not-smallest-set', f'top {m - 1} leaves already carry {small:.9g} > keep {keep}'))
    # value
    k = len(out)
    wf = [w[l] / mass for l in S]
    sh = 2.0 * math.sinh(min(A, 30.0)) * math.exp(min(A, 30.0))
    awf = [v * (1.0 - v) * sh + v * (N + 8) * eps for v in wf]
    dev_ratio = 0.0
    for q in range(k):
        fs = [f_used[l][q] for l in S]
        ref = math.fsum(a * b for a, b in zip(wf, fs))
        mag = math.fsum(a * abs(b) for a, b in zip(wf, fs))
        allow = math.fsum(a * abs(b) for a, b in zip(awf, fs)) + (m + 4) * eps * mag + 1e-300
        dev = abs(out[q] - ref)
        dev_ratio = max(dev_ratio, dev / allow)
        if dev > allow:
            fails.append(('C09:mixture-value', f'coord {q}: output {out[q]!r}, sum_l w_l f_l over the evaluated leaves {ref!r} (allowance {allow:.3g})'))
        tol = (m + 4) * eps * max(abs(v) for v in fs) + 1e-300
        if not (min(fs) - tol <= out[q] <= max(fs) + tol):
            fails.append(('C09:outside-hull', f'coord {q}: output {out[q]!r} outside [{min(fs)!r}, {max(fs)!r}] of the evaluated leaves'))
    return fails, dev_ratio


def cache_oracle(tree):
    """`tree['_cache']` pairs every leaf id with its model and its true root-to-leaf gate list."""
    c = tree['_cache']
    fails = []
    lv = leaves_of(tree)
    if sorted(c['leaf_order']) != list(range(len(lv))) or set(c['leaf_models']) != set(c['leaf_order']):
        return [('C09:cache-path', f'leaf ids {c["leaf_order"]} for {len(lv)} leaves')]
    seen = []
    for lid in c['leaf_order']:
        node = tree
        for nid, took_left in c['leaf_paths'][lid]:
            if node['type'] == 'leaf':
                fails.append(('C09:cache-path', f'path of leaf {lid} continues below a leaf'))
                break
            if c['split_directions'][nid] is not node['split_direction'] or \
                    c['split_thresholds'][nid] is not node['split_point'] or \
                    c['split_temp_scalings'][nid] != node.get('adaptive_temp_scaling', 1.0):
                fails.append(('C09:cache-path', f'leaf {lid}: node id {nid} does not hold the gate met on the way down'))
                break
            node = node['left'] if took_left else node['right']
        else:
            if node['type'] != 'leaf' or node['model'] is not c['leaf_models'][lid]:
                fails.append(('C09:cache-path', f'path of leaf {lid} does not end at the leaf holding its model'))
            seen.append(id(node))
    if len(set(seen)) != len(lv) and not fails:
        fails.append(('C09:cache-path', 'a leaf is missing from the cache'))
    return fails


# ------------------------------------------------------------------------------------------------
# comparing one call of the implementation with the Lean model
# ------------------------------------------------------------------------------------------------
def rows_key(X):
    import numpy as np
    a = np.ascontiguousarray(X.detach().cpu().numpy())
    return [a[i].tobytes() for i in range(a.shape[0])]


def collect_calls(tree, X, proba):
    """(invoked[row] = {leaf position: output vector}, failures) from the recording leaves, in cache leaf order."""
    c = tree.get('_cache')   # absent when only the hard path ran: leaves left to right (= cache order, checked)
    models = [c['leaf_models'][lid] for lid in c['leaf_order']] if c else [lf['model'] for lf in leaves_of(tree)]
    keys = {}
    for i, kb in enumerate(rows_key(X)):
        keys.setdefault(kb, []).append(i)
    invoked = [dict() for _ in range(X.shape[0])]
    fails = []
    for pos, leaf in enumerate(models):
        ncalls = 0
        for Xs, out, was_proba in leaf.calls:
            if was_proba != proba:
                fails.append(('C09:wrong-leaf-method', f'leaf {leaf.ident}: {"predict_proba" if was_proba else "predict"} called'))
                continue
            ncalls += 1
            o = out.detach().double()
            if o.dim() == 1:
                o = o.unsqueeze(-1)
            for j, kb in enumerate(rows_key(Xs)):
                for i in keys.get(kb, []):
                    if pos in invoked[i] and len(keys[kb]) == 1:
                        fails.append(('C09:leaf-invoked-twice', f'leaf {leaf.ident} evaluated row {i} twice'))
                    invoked[i][pos] = o[j].tolist()
        if ncalls > 1:
            fails.append(('C09:leaf-invoked-twice', f'leaf {leaf.ident} called {ncalls} times in one prediction'))
    return invoked, fails


def to_ref(tree, invoked):
    """re-index `collect_calls` results from cache positions to left-to-right leaf positions"""
    c = tree.get('_cache')
    if not c:
        return invoked
    obj2ref = {id(lf['model']): r for r, lf in enumerate(leaves_of(tree))}
    pos2ref = [obj2ref[id(c['leaf_models'][lid])] for lid in c['leaf_order']]
    return [{pos2ref[pos]: v for pos, v in row.items()} for row in invoked]


def reset_calls(tree):
    for lf in leaves_of(tree):
        lf['model'].calls = []


def compare_call(drv, tree, X, T, keep, cap, proba, out, eps, res, stats, check_cache=True):
    """Compare one soft prediction of one tree (`out`: (n, k) tensor) with the Lean model and run the oracle."""
    import torch
    c = tree['_cache']
    order = c['leaf_order']
    leaf_models = [c['leaf_models'][lid] for lid in order]
    N = len(order)
    n = X.shape[0]
    invoked, fails = collect_calls(tree, X, proba)
    for sig, detail in fails:
        res['failures'].append({'signature': sig, 'detail': detail})
    out = torch.as_tensor(out).detach().double()
    if out.dim() == 1:
        out = out.unsqueeze(-1)
    k = out.shape[1]
    # per-leaf predictions for the driver: what the leaf answered when it was asked, its own answer otherwise
    n_ids = max(lm.ident for lm in leaf_models) + 1
    preds = [[[0.0] * k for _ in range(n)] for _ in range(n_ids)]
    for pos, lm in enumerate(leaf_models):
        full = lm.pure(X, proba).detach().double()
        if full.dim() == 1:
            full = full.unsqueeze(-1)
        full = full.tolist()
        for i in range(n):
            preds[lm.ident][i] = invoked[i].get(pos, full[i])
    Xd = X.detach().double()
    q = {'op': 'soft', 'tree': tree_json(tree), 'rows': core.fl(Xd), 'T': core.f2b(T), 'keep': core.f2b(keep),
         'cap': int(cap), 'preds': core.fl(preds)}
    m = drv.ask(q)
    no_model = 'error' in m
    if no_model:
        # the Lean model is unavailable (e.g. it no longer builds against the regenerated Gen): the comparison with it is
        # recorded as broken, the property oracle below still runs on the implementation
        res['disagreements'].append({'detail': f'model rejects the case: {m["error"]}'})
    # ---- cache (exact) ----
    if check_cache and no_model:
        for sig, detail in cache_oracle(tree):
            res['failures'].append({'signature': sig, 'detail': detail})
    if check_cache and not no_model:
        want_models = [lm.ident for lm in leaf_models]
        paths = [[[a, bool(b)] for a, b in c['leaf_paths'][lid]] for lid in order]
        nids = list(c['split_directions'].keys())
        gates = [{'dir': core.fl(c['split_directions'][j].double()), 'thr': core.f2b(float(c['split_thresholds'][j])),
                  'scale': core.f2b(float(c['split_temp_scalings'][j]))} for j in nids]
        if list(order) != m['leaf_order'] or want_models != m['leaf_models'] or paths != m['leaf_paths'] \
                or nids != m['node_ids'] or gates != m['gates']:
            res['disagreements'].append({'detail': f'cache differs: impl order {list(order)} models {want_models} paths '
                                                   f'{paths} node ids {nids}; model {m["leaf_order"]} {m["leaf_models"]} '
                                                   f'{m["leaf_paths"]} {m["node_ids"]}'})
        for sig, detail in cache_oracle(tree):
            res['failures'].append({'signature': sig, 'detail': detail})
    # ---- rows ----  (leaves indexed left to right = reference order, whatever order the caches use)
    cap_eff = min(cap, N)
    pt = plain(tree)
    lv = leaves_of(tree)
    obj2ref = {id(lf['model']): r for r, lf in enumerate(lv)}
    pos2ref = [obj2ref[id(lm)] for lm in leaf_models]                     # implementation cache position -> ref
    ident2ref = {lf['model'].ident: r for r, lf in enumerate(lv)}
    mod2ref = list(range(N)) if no_model else [ident2ref.get(pid, -1) for pid in m['leaf_models']]   # model cache position -> ref
    if sorted(mod2ref) != list(range(N)):
        res['disagreements'].append({'detail': f'model leaf payloads {m["leaf_models"]} are not the tree\'s leaves'})
        return m
    for i in range(n):
        x = Xd[i].tolist()
        ref = ref_logps(pt, x, T, eps)
        lps = [r[1] for r in ref]
        A = max(r[2] for r in ref)
        w = softmax_clamped(lps)
        aw = weight_allow(w, A, eps, N)
        used = {pos2ref[pos]: v for pos, v in invoked[i].items()}
        S = sorted(used)
        stats['rows'] += 1
        stats['active_hist'][len(S)] = stats['active_hist'].get(len(S), 0) + 1
        if A > 0.25:
            stats['loose_rows'] += 1
        fails, ratio = oracle_row(w, aw, S, keep, cap, used, out[i].tolist(), eps, A)
        for sig, detail in fails:
            res['failures'].append({'signature': sig, 'detail': f'row {i}: {detail}'})
        if ratio is not None:
            stats['max_dev_over_allow'] = max(stats['max_dev_over_allow'], ratio)
        if no_model:
            continue
        # Lean model, re-indexed to reference order
        mr = m['rows'][i]

        def reidx(vals):
            o = [None] * N
            for l, v in enumerate(vals):
                o[mod2ref[l]] = v
            return o
        mw = reidx(core.unfl(mr['weights']))
        mlp = reidx(core.unfl(mr['logp']))
        final = reidx(core.unfl(mr['final']))
        if any(abs(a - b) > 1e-9 * (1 + abs(b)) for a, b in zip(mlp, lps) if not (a < -700 and b < -700)):
            res['disagreements'].append({'detail': f'row {i}: model log-probabilities {mlp} vs reference {lps}'})
        Sm = sorted(mod2ref[l] for l, a in enumerate(mr['active']) if a)
        cum = core.unfl(mr['cum'])
        perm = [mod2ref[l] for l in mr['perm']]
        kc = mr['keep_count']
        if len(S) < N or len(Sm) < N:
            stats['truncated_rows'] += 1
        if S != Sm:
            acum = 0.0
            cutoff_tie = False
            for p in range(max(cap_eff - 1, 0)):
                acum += aw[perm[p]]
                if abs(cum[p] - keep) <= acum + (p + 4) * eps * (cum[p] + abs(keep)):
                    cutoff_tie = True
            wb = mw[perm[kc]]
            diff = set(S) ^ set(Sm)
            boundary_tie = len(S) == len(Sm) and all(abs(mw[l] - wb) <= aw[l] + aw[perm[kc]] + 8 * eps * wb for l in diff)
            if cutoff_tie:
                stats['tie_rows_cutoff'] += 1
                key = ('f32' if eps > 1e-10 else 'f64') + (':keep=1' if keep == 1.0 else ':keep<1')
                stats['tie_cutoff_by'][key] = stats['tie_cutoff_by'].get(key, 0) + 1
            elif boundary_tie:
                stats['tie_rows_boundary'] += 1
            else:
                res['disagreements'].append({'detail': f'row {i}: active leaves impl {S} vs model {Sm} (weights {mw}, '
                                                       f'keep {keep}, cap {cap}, cum {cum})'})
            continue
        mo = core.unfl(mr['out'])
        sh = 2.0 * math.sinh(min(A, 30.0)) * math.exp(min(A, 30.0))
        for qq in range(k):
            fs = [used[l][qq] for l in S]
            allow = math.fsum((final[l] * (1 - final[l]) * sh + final[l] * (N + 8) * eps) * abs(f) for l, f in zip(S, fs)) \
                + (len(S) + 4) * eps * math.fsum(final[l] * abs(f) for l, f in zip(S, fs)) + 1e-300
            dev = abs(mo[qq] - float(out[i][qq]))
            stats['max_model_dev_over_allow'] = max(stats['max_model_dev_over_allow'], dev / allow)
            if dev > allow:
                res['disagreements'].append({'detail': f'row {i} coord {qq}: impl {float(out[i][qq])!r} vs model {mo[qq]!r} '
                                                       f'(allowance {allow:.3g})'})
    return m


def new_stats():
    return {'rows': 0, 'loose_rows': 0, 'tie_rows_cutoff': 0, 'tie_rows_boundary': 0, 'truncated_rows': 0,
            'max_dev_over_allow': 0.0, 'max_model_dev_over_allow': 0.0, 'active_hist': {}, 'tie_cutoff_by': {}, 'smallT_rows': 0,
            'smallT_max_diff': 0.0}


# ------------------------------------------------------------------------------------------------
# synthetic trees
# ------------------------------------------------------------------------------------------------
def build_synth(p):
    import torch
    dt = torch.float32 if p['dtype'] == 'f32' else torch.float64
    g = torch.Generator().manual_seed(p['seed'])
    d, k_out = p['d'], p['k_out']
    k = max(k_out, 1)
    N = n_leaves(p['shape'])
    ids = torch.randperm(N, generator=g).tolist()
    ints = p.get('grid', False)
    counter = [0]

    def rnd(*shape):
        if ints:
            return torch.randint(-2, 3, shape, generator=g).to(dt)
        return torch.randn(*shape, generator=g, dtype=torch.float64).to(dt)

    shared_v = [None]      # fixed_vector models store ONE direction tensor object in every split node

    def build(s, root):
        if s == 0:
            ident = ids[counter[0]]
            counter[0] += 1
            leaf = RecLeaf(ident, rnd(k) * 2, rnd(k, d), rnd(k) * 2, rnd(k, d), k_out == 0)
            return {'type': 'leaf', 'model': leaf, 'train_indices': torch.zeros(0, dtype=torch.long), 'is_root': root}
        if ints:
            v = torch.zeros(d, dtype=dt)
            v[int(torch.randint(0, d, (1,), generator=g))] = 1.0
            b = float(torch.randint(-1, 2, (1,), generator=g))
            scale = float(2.0 ** int(torch.randint(-1, 2, (1,), generator=g)))
        else:
            if p.get('shared_dir'):
                if shared_v[0] is None:
                    shared_v[0] = rnd(d) * p.get('vnorm', 1.0)
                v = shared_v[0]
            else:
                v = rnd(d) * p.get('vnorm', 1.0)
            x0 = rnd(d) * p.get('spread', 1.0) * 0.7
            b = float((v * x0).sum())
            scale = float(math.exp(float(torch.rand(1, generator=g)) * math.log(25.0) + math.log(0.2))) * p.get('scale_mult', 1.0)
        bt = torch.tensor(b, dtype=dt)
        node = {'type': 'split' if torch.rand(1, generator=g) < 0.5 else 'node', 'split_direction': v,
                'split_point': bt if p.get('thr_kind', 'tensor') == 'tensor' else float(bt),
                'is_root': root, 'left': build(s[0], False), 'right': build(s[1], False)}
        if not (p.get('default_scale') and scale > 1.0):
            node['adaptive_temp_scaling'] = scale   # else: key absent -> the documented default 1.0
        return node

    tree = build(p['shape'], True)
    X = rnd(p['n_rows'], d) * (1.0 if ints else p.get('spread', 1.0))
    if p.get('near_root') and tree['type'] != 'leaf':
        # half of the rows are moved to within 1e-6 .. 1e-2 (relative to |v|) of the root threshold, on either side: the
        # region where a gate with a tiny temperature x scale is neither 0 nor 1
        v = tree['split_direction'].double()
        b = float(tree['split_point'])
        for i in range(0, X.shape[0], 2):
            delta = float(10.0 ** (-6 + 4 * float(torch.rand(1, generator=g)))) * float(v.norm()) * (1 if i % 4 == 0 else -1)
            xi = X[i].double()
            X[i] = (xi + (b + delta - float(xi @ v)) / float(v @ v) * v).to(dt)
    return tree, X, g


def make_model(keep, cap, T):
    from xrfm import xRFM
    model = xRFM(device='cpu', verbose=False, n_trees=1, keep_weight_frac_in_predict=keep,
                 max_leaf_count_in_ensemble=cap)
    model.n_classes_ = 0
    model.split_temperature = T
    return model


def call_api(model, tree, X, api, dtype):
    import torch
    proba = api.endswith('proba')
    if api.startswith('tree'):
        return model._predict_tree_soft(X, tree, proba=proba), proba
    arg = X.numpy() if dtype == 'f32' else X
    out = model.predict_proba(arg) if proba else model.predict(arg)
    return torch.as_tensor(out), proba


def run_synth(p, drv, stats):
    import torch
    res = {'family': p['family'], 'params': p, 'disagreements': [], 'failures': []}
    tree, X, g = build_synth(p)
    N = n_leaves(p['shape'])
    # a tree without any split never meets a float64 tensor: `log_prob = torch.zeros(n)` stays float32 and the leaf
    # predictions are cast to it (`preds.to(dtype=weights.dtype)`), so the working precision is float32 there
    eps = EPS['f32'] if N == 1 else EPS[p['dtype']]
    kind = p.get('kind', 'soft')
    model = make_model(p['keep'], p['cap'], p['T'])
    model.trees = [tree]
    try:
        if kind == 'soft':
            out, proba = call_api(model, tree, X, p['api'], p['dtype'])
            compare_call(drv, tree, X, p['T'], p['keep'], p['cap'], proba, out, eps, res, stats)
        elif kind == 'smallT':
            # rows whose logit clears 0.05 * scale at every node of their hard path: soft == hard
            m = drv.ask({'op': 'soft', 'tree': tree_json_plain(tree), 'rows': core.fl(X.double()), 'T': core.f2b(p['T']),
                         'keep': core.f2b(p['keep']), 'cap': int(p['cap']), 'preds': [[[0] for _ in range(X.shape[0])]] * N})
            keep_rows = [i for i in range(X.shape[0]) if clear_margin(tree, X[i].double().tolist(), 0.05)]
            if keep_rows:
                Xs = X[keep_rows]
                soft = model._predict_tree_soft(Xs, tree)
                inv, fails = collect_calls(tree, Xs, False)
                inv = to_ref(tree, inv)
                reset_calls(tree)
                hard = model._predict_tree_hard(Xs, tree)
                inv_h, _ = collect_calls(tree, Xs, False)
                inv_h = to_ref(tree, inv_h)
                reset_calls(tree)
                s2 = soft.double().reshape(len(keep_rows), -1)
                h2 = hard.double().reshape(len(keep_rows), -1)
                for j, i in enumerate(keep_rows):
                    dmax = float((s2[j] - h2[j]).abs().max())
                    stats['smallT_rows'] += 1
                    stats['smallT_max_diff'] = max(stats['smallT_max_diff'], dmax)
                    if dmax > 1e-5 * (1.0 + float(h2[j].abs().max())):
                        res['failures'].append({'signature': 'C09:smallT-differs-from-hard',
                                                'detail': f'row {i}: T={p["T"]} soft {s2[j].tolist()} hard {h2[j].tolist()}'})
                    if sorted(inv[j]) != sorted(inv_h[j]) and p['keep'] <= 1 - 1e-4:   # at keep = 1 the top mass ties with keep
                        res['failures'].append({'signature': 'C09:smallT-differs-from-hard',
                                                'detail': f'row {i}: soft evaluated leaves {sorted(inv[j])}, hard {sorted(inv_h[j])}'})
                    if 'error' not in m and sorted(inv_h[j]) != [m['rows'][i]['hard_index']]:
                        res['disagreements'].append({'detail': f'row {i}: hard route impl {sorted(inv_h[j])} model {m["rows"][i]["hard_index"]}'})
                    if 'error' not in m and p['keep'] <= 1 - 1e-4 and \
                            sorted(m['leaf_models'][l] for l, a in enumerate(m['rows'][i]['active']) if a) != sorted(inv[j]):
                        res['disagreements'].append({'detail': f'row {i}: small-T active set impl {sorted(inv[j])} model {m["rows"][i]["active"]}'})
        elif kind == 'dispatch':
            # split_temperature None / 0 / 0.0 -> hard path; > 0 -> soft path; < 0 -> ValueError
            Tset = p['Tset']
            model.split_temperature = Tset
            md = drv.ask({'op': 'dispatch', 'none': Tset is None, 'T': core.f2b(Tset or 0.0)})
            if Tset is not None and Tset < 0:
                raised = None
                try:
                    model._predict_tree(X, tree)
                except ValueError as e:
                    raised = str(e)
                ms = drv.ask({'op': 'soft', 'tree': tree_json_plain(tree), 'rows': core.fl(X.double()), 'T': core.f2b(Tset),
                              'keep': core.f2b(p['keep']), 'cap': int(p['cap']), 'preds': [[[0] for _ in range(X.shape[0])]] * N})
                if (raised is None) != ('error' not in ms):
                    res['disagreements'].append({'detail': f'T={Tset}: impl raised {raised!r}, model {ms.get("error")!r}'})
            else:
                got = model._predict_tree(X, tree)
                inv, _ = collect_calls(tree, X, False)
                reset_calls(tree)
                hard = model._predict_tree_hard(X, tree)
                inv_h, _ = collect_calls(tree, X, False)
                reset_calls(tree)
                soft = model._predict_tree_soft(X, tree) if Tset else None
                reset_calls(tree)
                want_hard = not Tset
                is_hard = torch.equal(got, hard) and all(sorted(a) == sorted(b) for a, b in zip(inv, inv_h))
                if want_hard and not is_hard:
                    res['failures'].append({'signature': 'C09:dispatch', 'detail': f'split_temperature={Tset!r} did not take the hard path'})
                if not want_hard and not torch.equal(got.reshape(-1), soft.reshape(-1)):
                    res['failures'].append({'signature': 'C09:dispatch', 'detail': f'split_temperature={Tset!r} did not take the soft path'})
                if md.get('hard') != want_hard:
                    res['disagreements'].append({'detail': f'dispatch: model says hard={md.get("hard")} for T={Tset!r}'})
                if any(len(a) != 1 for a in inv_h):
                    res['failures'].append({'signature': 'C09:dispatch', 'detail': 'hard path evaluated several leaves for a row'})
    except Exception as e:  # the implementation raising on an input the property quantifies over
        import traceback
        res['failures'].append({'signature': f'C09:raises:{type(e).__name__}', 'detail': traceback.format_exc()[-600:]})
    res['nontrivial'] = [p['shape'], p['seed'], p['T'], p['keep'], p['cap'], p.get('api'), kind, p.get('Tset')] if N >= 2 else None
    res['dist'] = {'depth': height(p['shape']), 'n_leaves': N, 'dtype': p['dtype'], 'api': p.get('api', kind),
                   'k_out': p['k_out'], 'T_decade': int(math.floor(math.log10(p['T']))) if p['T'] > 0 else 'none',
                   'keep': 'one' if p['keep'] == 1.0 else ('>=0.9' if p['keep'] >= 0.9 else ('>=0.5' if p['keep'] >= 0.5 else '<0.5')),
                   'cap_vs_leaves': 'below' if p['cap'] < N else ('equal' if p['cap'] == N else 'above'), 'kind': kind}
    res['sample'] = {'shape': p['shape'], 'T': p['T'], 'keep': p['keep'], 'cap': p['cap'], 'api': p.get('api'),
                     'dtype': p['dtype'], 'n_leaves': N}
    return res


def tree_json_plain(node, counter=None):
    """tree for driver ops that do not need the leaf identities (payload = left-to-right position)"""
    counter = counter if counter is not None else [0]
    if node['type'] == 'leaf':
        counter[0] += 1
        return {'leaf': counter[0] - 1}
    return {'dir': core.fl(node['split_direction'].double()), 'thr': core.f2b(float(node['split_point'])),
            'scale': core.f2b(float(node.get('adaptive_temp_scaling', 1.0))),
            'left': tree_json_plain(node['left'], counter), 'right': tree_json_plain(node['right'], counter)}


def clear_margin(node, x, frac):
    """|x.v - b| > frac * scale at every node of the row's hard path"""
    while node['type'] != 'leaf':
        v = node['split_direction'].double().tolist()
        lg = math.fsum(a * b for a, b in zip(x, v)) - float(node['split_point'])
        if abs(lg) <= frac * float(node.get('adaptive_temp_scaling', 1.0)):
            return False
        node = node['left'] if lg <= 0 else node['right']
    return True


# ------------------------------------------------------------------------------------------------
# fitted models
# ------------------------------------------------------------------------------------------------
def run_fitted(p, drv, stats):
    import torch
    from xrfm import xRFM
    res = {'family': p['family'], 'params': p, 'disagreements': [], 'failures': []}
    g = torch.Generator().manual_seed(p['seed'])
    n, d = p['n'], p['d']
    X = torch.randn(n, d, generator=g)
    Xv = torch.randn(max(n // 3, 40), d, generator=g)
    Xq = torch.randn(p['n_rows'], d, generator=g) * 1.3

    def target(Z):
        if p['task'] == 'reg':
            cols = [torch.sin(2 * Z[:, 0]) + Z[:, 1] ** 2, Z[:, 2] - Z[:, 0] * Z[:, 1]]
            return torch.stack(cols[:p['k_out']], 1) if p['k_out'] > 1 else cols[0]
        s = (Z[:, 0] + 0.5 * Z[:, 1] > 0).long()
        if p['n_classes'] == 3:
            s = s + (Z[:, 2] > 0.7).long()
        return s
    rfm_params = {'model': {'kernel': p['kernel'], 'exponent': 1.0, 'bandwidth': 5.0, 'diag': False,
                            'bandwidth_mode': 'constant'},
                  'fit': {'reg': 1e-3, 'iters': p['iters'], 'return_best_params': True, 'early_stop_rfm': False,
                          'verbose': False}}
    model = xRFM(rfm_params=rfm_params, max_leaf_size=p['leaf'], device='cpu', n_trees=p['n_trees'], verbose=False,
                 use_temperature_tuning=False, random_state=p['seed'] % 1000, split_method=p['split_method'],
                 classification_mode=p.get('mode', 'zero_one'))
    try:
        import contextlib
        import io
        with contextlib.redirect_stdout(io.StringIO()):   # the library prints "Using SVD" while fitting
            model.fit(X, target(X), Xv, target(Xv))
    except Exception as e:
        res['failures'].append({'signature': f'C09:fit-raises:{type(e).__name__}', 'detail': str(e)[:300]})
        return res
    if p['seed'] % 2 == 1:
        # object history: other public calls on other rows (builds and uses the routing cache) before the judged ones
        from harness.props import _xcommon as xc_
        xc_.perturb_history(model, p['seed'], X.shape[1])
    # wrap the leaf models by recording proxies; the cache holds references to the models, so drop it
    ident = 0
    for tree in model.trees:
        for lf in leaves_of(tree):
            lf['model'] = RecProxy(ident, lf['model'])
            ident += 1
        tree.pop('_cache', None)
    eps = EPS['f32']
    leaves_total = 0
    try:
        for (T, keep, cap_off) in p['configs']:
            for proba in ([False, True] if p['task'] == 'cls' else [False]):
                model.split_temperature = T
                model.keep_weight_frac_in_predict = keep
                per_tree = []
                for tree in model.trees:
                    N = len(leaves_of(tree))
                    leaves_total = max(leaves_total, N)
                    cap = max(1, N + cap_off) if cap_off <= 0 else N + cap_off
                    model.max_leaf_count_in_ensemble = cap
                    # renumber proxies per tree for the driver (payload ids 0..N-1 within the tree)
                    for j, lf in enumerate(leaves_of(tree)):
                        lf['model'].ident = j
                    reset_calls(tree)
                    out = model._predict_tree_soft(Xq, tree, proba=proba)
                    compare_call(drv, tree, Xq, T, keep, cap, proba, out, eps, res, stats)
                    reset_calls(tree)
                    per_tree.append(out)
                # the public entry points: mean over trees of the soft per-tree predictions (same cap for all trees)
                capP = max(1, leaves_total + cap_off) if cap_off <= 0 else leaves_total + cap_off
                model.max_leaf_count_in_ensemble = capP
                want = []
                for tree in model.trees:
                    want.append(model._predict_tree_soft(Xq, tree, proba=proba))
                    reset_calls(tree)
                mean = torch.mean(torch.stack(want), dim=0)
                if proba:
                    got = torch.as_tensor(model.predict_proba(Xq.numpy()))
                    ok = torch.allclose(got, mean, rtol=0, atol=1e-6)
                    if float((got.sum(-1) - 1).abs().max()) > 1e-4 or float(got.min()) < -1e-6:
                        res['failures'].append({'signature': 'C09:outside-hull', 'detail': 'predict_proba rows are not distributions'})
                elif p['task'] == 'cls':
                    got = torch.as_tensor(model.predict(Xq.numpy()))
                    ok = torch.equal(got, model.class_converter_.numerical_to_labels(mean))
                else:
                    got = torch.as_tensor(model.predict(Xq.numpy()))
                    ok = torch.allclose(got.reshape(mean.shape), mean, rtol=0, atol=1e-6)
                for tree in model.trees:
                    inv, _ = collect_calls(tree, Xq, proba)
                    if any(len(a) > min(capP, len(leaves_of(tree))) or len(a) < 1 for a in inv):
                        res['failures'].append({'signature': 'C09:active-count', 'detail': 'public predict: active leaves per row outside 1..min(cap, n_leaves)'})
                    reset_calls(tree)
                if not ok:
                    res['failures'].append({'signature': 'C09:dispatch',
                                            'detail': f'public {"predict_proba" if proba else "predict"} with T={T} is not the mean of the soft tree predictions'})
    except Exception as e:
        import traceback
        res['failures'].append({'signature': f'C09:raises:{type(e).__name__}', 'detail': traceback.format_exc()[-600:]})
    res['nontrivial'] = [p['seed'], p['task'], p['configs']] if leaves_total >= 2 else None
    res['dist'] = {'fitted_task': p['task'], 'fitted_leaves': leaves_total, 'fitted_trees': p['n_trees'], 'kind': 'fitted'}
    res['sample'] = {'task': p['task'], 'n': n, 'leaf': p['leaf'], 'leaves': leaves_total, 'configs': p['configs']}
    return res


def execute(chunk):
    drv = core.Driver('C09')
    out = []
    stats = new_stats()
    try:
        for p in chunk['cases']:
            r = run_fitted(p, drv, stats) if p.get('kind') == 'fitted' else run_synth(p, drv, stats)
            out.append(r)
    finally:
        drv.close()
    if out:
        out[0]['stats'] = stats
    return out


# ------------------------------------------------------------------------------------------------
# case generation
# ------------------------------------------------------------------------------------------------
def rand_T(r):
    u = r.random()
    if u < 0.15:
        return r.choice([1e-3, 1e-2, 0.1, 1.0, 10.0])
    return round(10 ** (r.uniform(-3, -1.5) if u < 0.4 else r.uniform(-1.5, 1)), 6)


def rand_keep(r):
    u = r.random()
    if u < 0.15:
        return 1.0
    if u < 0.3:
        return 0.99
    if u < 0.5:
        return round(r.uniform(0.9, 0.999), 4)
    return round(r.uniform(0.02, 0.9), 4)


def synth_case(r, family, shape, **kw):
    N = n_leaves(shape)
    p = dict(family=family, shape=shape, seed=r.randint(0, 10 ** 9), d=r.randint(2, 8), n_rows=40, T=rand_T(r),
             keep=rand_keep(r), cap=r.randint(1, N + 1), k_out=r.choice([0, 1, 1, 2, 3]),
             dtype=r.choice(['f32', 'f32', 'f64']), api=r.choice(['tree', 'tree', 'tree_proba', 'predict', 'predict_proba']),
             thr_kind=r.choice(['tensor', 'tensor', 'float']), spread=r.choice([0.5, 1.0, 1.0, 3.0]),
             vnorm=r.choice([0.1, 0.3, 1.0, 1.0]),
             default_scale=r.random() < 0.1)
    p.update(kw)
    return p


def gen_cases(run):
    r = run.rng
    quick = run.tier == 'quick'
    cases = []
    # (1) exhaustive: ALL tree shapes of depth <= 3 x ALL caps 1..n_leaves+1
    for shape in shapes_upto(3):
        for cap in range(1, n_leaves(shape) + 2):
            cases.append(synth_case(r, 'exhaustive-shapes-depth<=3', shape, cap=cap, n_rows=40))
    # (2) random balanced / ragged trees, depth 0..5
    n_rand = 240 if quick else 2000
    styles = ['balanced', 'ragged', 'ragged', 'ragged', 'left-chain', 'right-chain', 'zigzag']
    for i in range(n_rand):
        depth = r.choice([0, 1, 2, 2, 3, 3, 4, 4, 5, 5])
        shape = random_shape(r, depth, r.choice(styles))
        cases.append(synth_case(r, 'random-trees', shape))
    # (3) exact ties: grid data, one-hot directions, power-of-two scales and temperatures
    for i in range(20 if quick else 200):
        shape = random_shape(r, r.randint(1, 3), r.choice(['balanced', 'ragged']))
        N = n_leaves(shape)
        cases.append(synth_case(r, 'exact-ties', shape, grid=True, T=r.choice([0.5, 1.0, 2.0]),
                                keep=r.choice([0.5, 0.25, 0.75, 1.0, 0.99]), cap=r.randint(1, N + 1), d=r.randint(2, 4),
                                api='tree', default_scale=False))
    # (4) small temperature: soft == hard on rows clear of every threshold on their path
    for i in range(24 if quick else 240):
        shape = random_shape(r, r.randint(1, 5), r.choice(styles))
        cases.append(synth_case(r, 'small-T-equals-hard', shape, kind='smallT', T=1e-3, api='tree', n_rows=60))
    # (4b) tiny gate temperature x node scale (1e-6 .. 1e-3) with rows a hair away from the root threshold
    for i in range(24 if quick else 240):
        shape = random_shape(r, r.randint(1, 3), r.choice(styles))
        cases.append(synth_case(r, 'tiny-gate-temperature', shape, T=r.choice([1e-4, 3e-4, 1e-3, 3e-3]), scale_mult=r.choice([0.01, 0.05, 0.3]),
                                near_root=True, default_scale=False, dtype='f64', keep=r.choice([0.5, 0.9, 0.99, 1.0]), n_rows=40,
                                api=r.choice(['tree', 'predict'])))
    # (4c) every split node holds the same direction tensor object (what split_method='fixed_vector' produces), thresholds differ
    for i in range(16 if quick else 160):
        shape = random_shape(r, r.randint(2, 4), r.choice(styles))
        cases.append(synth_case(r, 'shared-direction', shape, shared_dir=True))
    # (5) dispatch
    for i in range(16 if quick else 120):
        shape = random_shape(r, r.randint(0, 4), r.choice(styles))
        cases.append(synth_case(r, 'dispatch', shape, kind='dispatch', Tset=r.choice([None, 0, 0.0, 0.3, 2.0, -1.0]),
                                api='tree', n_rows=30))
    # (6) fitted models
    for i in range(6 if quick else 40):
        task = 'reg' if i % 2 == 0 else 'cls'
        n = r.choice([200, 300, 400])
        leaf = r.choice([30, 40, 60])
        cfgs = []
        for _ in range(3 if quick else 4):
            cfgs.append([rand_T(r), rand_keep(r), r.choice([-100, -3, -1, 0, 1])])
        cases.append(dict(family='fitted-models', kind='fitted', seed=r.randint(0, 10 ** 6), n=n, d=r.randint(3, 6), leaf=leaf,
                          task=task, k_out=r.choice([1, 2]), n_classes=r.choice([2, 3]), n_trees=r.choice([1, 2]),
                          iters=r.choice([0, 1]), kernel=r.choice(['l2', 'l2_high_dim']),
                          split_method=r.choice(['top_vector_agop_on_subset', 'random_agop_on_subset']),
                          mode=r.choice(['zero_one', 'prevalence']), configs=cfgs, n_rows=40))
    return cases


def merge_stats(run, results):
    tot = new_stats()
    for r in results:
        s = r.pop('stats', None)
        if not s:
            continue
        for k, v in s.items():
            if isinstance(v, dict):
                for a, b in v.items():
                    tot[k][str(a)] = tot[k].get(str(a), 0) + b
            elif k.startswith('max') or k.endswith('max_diff'):
                tot[k] = max(tot[k], v)
            else:
                tot[k] += v
    run.extra['row_stats'] = tot


def check(run):
    run.rule = ('real _build_tree_cache/_predict_tree_soft/_predict_tree/predict/predict_proba on synthetic param-trees '
                '(every shape of depth <= 3 x every cap; random balanced/ragged/chain trees of depth 0..5; exact-tie grids; '
                'T=1e-3 versus the hard path; dispatch on the temperature) with recording leaf stubs, and on fitted '
                'regression/classification models with recording proxies, float32 and float64, versus the Lean model in '
                'float64 (cache exact; active sets exact except at cut-off / equal-weight ties; values under a computed '
                'allowance) and versus the property evaluated directly on the implementation; a case is non-trivial when '
                'the tree has at least two leaves')
    run.assumptions = ['split_temperature > 0 finite, keep in [0, 1], cap >= 1 (what the constructor accepts)',
                       'node scales (adaptive_temp_scaling) positive; finite inputs (no NaN/inf rows)',
                       'torch.sort modelled as an oracle: any permutation that sorts (ties in any order)',
                       'float rounding outside the theorems: absorbed by the computed allowance (log-probability error '
                       'eps*(d+2)*(sum|x_i v_i|+|b|)/(T*scale) per gate mapped through the soft-max: w(1-w)*2sinh(A)e^A)']
    run.lean()
    cases = gen_cases(run)
    run.extra['exhaustive'] = True
    run.extra['exhaustive_part'] = 'family exhaustive-shapes-depth<=3: all 26 tree shapes of depth <= 3 x all caps 1..n_leaves+1'
    if run.driver_ok:
        r = run.rng
        r.shuffle(cases)
        results = core.pmap(MOD, [{'cases': c} for c in core.chunks(cases, 48)])
        merge_stats(run, results)
        run.absorb('c09', results)


def replay(run, payload):
    run.lean()
    results = core.pmap(MOD, [{'cases': [payload['params']]}], workers=1)
    merge_stats(run, results)
    run.absorb('replay', results)
