"""
C02 — leaf coefficients solve the ridge system of the state that is stored.

Proof: lean/Xrfmv/Props/C02.lean (coherence of the final state over regenerated Gen.Select; ridge
algebra and uniqueness).  Correspondence (float64, RFM level): real fits over kernels x solvers x flags
with scripted or real validation scores; (1) which iterate each stored piece comes from vs the Lean
machine; (2) property oracle: residual of (K + lam I) alpha = Y with K recomputed from the *stored*
centers / M / sqrtM / bandwidth by an independent numpy reference, and predict(centers) = Y - lam alpha.
"""
import numpy as np

from harness import core

MOD = 'harness.props.c02'

KERNELS = [
    ('l2', {}), ('l2_high_dim', {}), ('l1', {}), ('lpq', {'norm_p': 1.5}), ('lpq', {'norm_p': 2.0}),
    ('sum_power_laplace', {}), ('sum_power_laplace', {'const_mix': 0.3, 'power': 3}),
]


def scripted(iters, pos, tail_stop, rnd):
    """Scores (minimised) whose optimum is at `pos`; strictly decreasing before, plateau or spike after."""
    s = []
    for k in range(iters + 1):
        if k < pos:
            s.append(5.0 - 0.3 * k)
        elif k == pos:
            s.append(1.0)
        else:
            s.append(3.0 if tail_stop else 1.0 + 0.01 * rnd.random())
    return s


def run_one(p):
    import torch
    from xrfm.rfm_src import RFM
    from harness.rfmrec import ScriptedFit
    from harness import refkernels
    g = torch.Generator().manual_seed(p['dseed'])
    n, d, c = p['n'], p['d'], p['outputs']
    X = torch.randn(n, d, generator=g, dtype=torch.float64) * p['xscale']
    W = torch.randn(d, c, generator=g, dtype=torch.float64)
    y = torch.tanh(X @ W / p['xscale']) + 0.1 * torch.randn(n, c, generator=g, dtype=torch.float64)
    Xv = torch.randn(max(4, n // 3), d, generator=g, dtype=torch.float64) * p['xscale']
    yv = torch.tanh(Xv @ W / p['xscale'])
    kname, kw = p['kernel']
    adaptive = p['adaptive'] and kname != 'sum_power_laplace'
    model = RFM(kernel=kname, bandwidth=p['bandwidth'], exponent=p['q'], iters=p['iters'], device='cpu', verbose=False,
                bandwidth_mode='adaptive' if adaptive else 'constant',
                tuning_metric='accuracy' if p.get('maximize') else 'mse', diag=p['diag'],
                # an exhausted time budget ends the loop after its first round; the final solve still has to match the stored state
                time_limit_s=p.get('tlimit'), **kw)
    if p.get('refit'):
        # object history: the same estimator was fitted before on another training set (same or other size)
        n0 = n if p['refit'] == 'same-size' else max(4, n - 3)
        X0 = torch.randn(n0, d, generator=g, dtype=torch.float64) * p['xscale']
        y0 = torch.tanh(X0 @ W / p['xscale'])
        model._compute_validation_metrics = lambda *a, **k: {model.tuning_metric: 1.0}     # scripted (no label decoder is configured)
        model.fit((X0, y0), (Xv, yv), iters=min(p['iters'], 1), reg=p['lam'], verbose=False, solver=p['solver'], early_stop_rfm=False)
        del model._compute_validation_metrics
    rec = ScriptedFit(model, scores=p['scores'])
    model.fit((X, y), (Xv, yv), iters=p['iters'], reg=p['lam'], return_best_params=p['return_best'],
              early_stop_rfm=p['early'], early_stop_multiplier=p['mult'], verbose=False, solver=p['solver'],
              M_batch_size=p.get('mbs'), get_agop_best_model=bool(p.get('agop_best')))
    tags = rec.tags()
    # --- property oracle on the stored state ---------------------------------------------------
    alpha = model.weights.detach().double().numpy()
    Y = y.numpy()
    K, E = refkernels.kernel_of_rfm(model, model.centers, model.centers, eps=2.0 ** -52)
    resid = (K + p['lam'] * np.eye(n)) @ alpha - Y
    sabs = np.abs(alpha).sum(0).max()
    # |K_impl - K| <= E entrywise (interval image of the distance round-off), plus the solver's backward error
    allow = float((E @ np.abs(alpha)).max() + 64 * n * 2.0 ** -52 * (1.0 + p['lam']) * max(sabs, 1.0) + 1e-12)
    pred = model.predict(model.centers)
    pred = pred.detach().double().numpy() if hasattr(pred, 'detach') else np.asarray(pred)
    pres = pred - (Y - p['lam'] * alpha)
    scores_used = p['scores'] if p['scores'] is not None else rec.real_scores
    return dict(tags=tags, n_evals=rec.n_evals, best_iter=model.best_iter, resid=float(np.abs(resid).max()),
                pres=float(np.abs(pres).max()), allow=float(allow), sabs=float(sabs), scores=list(scores_used),
                adaptive=adaptive, bw=float(model.kernel_obj.bandwidth))


def execute(chunk):
    drv = core.Driver('C02')
    out = []
    try:
        for p in chunk['cases']:
            res = {'family': p['family'], 'params': p, 'disagreements': [], 'failures': []}
            try:
                r = run_one(p)
            except Exception as e:
                res['failures'].append({'signature': f'C02:fit-raises:{type(e).__name__}', 'detail': str(e)[:300]})
                out.append(res)
                continue
            if not (r['resid'] <= r['allow']):
                res['failures'].append({'signature': 'C02:ridge-residual',
                                        'detail': f'max|(K+lam I)alpha - Y| = {r["resid"]:.3e} > allowance {r["allow"]:.3e} '
                                                  f'(K from stored centers/M/sqrtM/bandwidth; tags {r["tags"]})'})
            if not (r['pres'] <= r['allow'] * 4 + 1e-9):
                res['failures'].append({'signature': 'C02:prediction-identity',
                                        'detail': f'max|predict(centers) - (Y - lam alpha)| = {r["pres"]:.3e} > {4 * r["allow"]:.3e}'})
            if p.get('tlimit') is not None:
                # the time budget is not part of the Lean selection machine: these cases are judged by the property oracle alone
                res['nontrivial'] = ['time-limited', p['kernel'], p['diag'], p['solver'], p['iters'], p['return_best'], p['n'], p['dseed']]
                res['dist'] = {'kernel': p['kernel'][0], 'solver': p['solver'], 'iters': p['iters'], 'selected': 'time-limited (oracle only)',
                               'flags': f'best={p["return_best"]},early={p["early"]},adaptive={r["adaptive"]}', 'n_gt_25': p['n'] > 25}
                res['sample'] = {'kernel': p['kernel'], 'solver': p['solver'], 'iters': p['iters'], 'residual': r['resid'], 'allowance': r['allow'],
                                 'evaluations': r['n_evals']}
                out.append(res)
                continue
            sc = r['scores']
            full = sc + [sc[-1]] * (p['iters'] + 1 - len(sc))  # real-score runs that stopped early: pad (never read)
            q = {'op': 'fitloop', 'maximize': bool(p.get('maximize')), 'returnBest': p['return_best'], 'earlyStop': p['early'],
                 'adaptive': r['adaptive'], 'mult': core.f2b(p['mult']), 'iters': p['iters'],
                 'scores': [core.f2b(x) for x in full]}
            m = drv.ask(q)
            diffs = []
            if 'error' in m:
                diffs.append(f'model rejects: {m["error"]}')
            else:
                t = r['tags']
                if len(m['evals']) != r['n_evals']:
                    diffs.append(f'evaluations impl {r["n_evals"]} model {len(m["evals"])}')
                if m['w'] not in t['w']:
                    diffs.append(f'weights tag impl {t["w"]} model {m["w"]}')
                if m['m'] not in t['m']:
                    diffs.append(f'M tag impl {t["m"]} model {m["m"]}')
                if p['kernel'][0] != 'l2_high_dim' and m['sq'] not in t['sq']:
                    diffs.append(f'sqrtM tag impl {t["sq"]} model {m["sq"]}')
                if r['adaptive'] and m['bw'] not in t['bw']:
                    diffs.append(f'bandwidth tag impl {t["bw"]} model {m["bw"]}')
            if diffs:
                res['disagreements'].append({'detail': '; '.join(diffs)})
            res['nontrivial'] = [p['kernel'], p['diag'], p['solver'], p['lam'], p['iters'], p['return_best'], p['early'],
                                 p['adaptive'], p['pos'], p['n'], p['dseed']]
            sel = m.get('w') if isinstance(m, dict) else None
            res['dist'] = {'kernel': p['kernel'][0], 'solver': p['solver'], 'iters': p['iters'],
                           'selected': 'first' if sel == 0 else 'final' if sel == p['iters'] else 'middle',
                           'flags': f'best={p["return_best"]},early={p["early"]},adaptive={r["adaptive"]}',
                           'n_gt_25': p['n'] > 25}
            res['sample'] = {'kernel': p['kernel'], 'solver': p['solver'], 'lam': p['lam'], 'iters': p['iters'],
                             'residual': r['resid'], 'allowance': r['allow'], 'tags': r['tags'], 'model': m}
            out.append(res)
    finally:
        drv.close()
    return out


def gen_cases(run):
    r = run.rng
    n_cases = 400 if run.tier == 'quick' else 4000
    cases = []
    for k in range(n_cases):
        iters = r.choice([0, 1, 2, 3, 4, 5])
        pos = r.choice(['first', 'middle', 'last', 'final'])
        posi = {'first': 0, 'middle': iters // 2, 'last': max(iters - 1, 0), 'final': iters}[pos]
        use_real = r.random() < 0.25
        early = r.random() < 0.5
        tail_stop = early and r.random() < 0.5
        n = r.choice([8, 12, 20, 24, 30, 45, 60]) if run.tier == 'thorough' else r.choice([8, 12, 20, 24, 30, 40])
        cases.append(dict(
            family='ridge-of-stored-state', kernel=list(r.choice(KERNELS)), q=r.choice([0.7, 1.0, 1.3, 2.0]),
            diag=r.random() < 0.4, solver=r.choice(['solve', 'cholesky', 'lu']), lam=r.choice([1e-3, 1e-1, 1.0]),
            iters=iters, return_best=r.random() < 0.8, early=early, mult=r.choice([1.0, 1.1, 1.5]),
            adaptive=r.random() < 0.5, n=n, d=r.randint(2, 6), outputs=r.randint(1, 3), pos=pos,
            scores=None if use_real else scripted(iters, posi, tail_stop, r), bandwidth=r.choice([1.0, 3.0, 10.0]),
            xscale=r.choice([1.0, 1.0, 10.0]), dseed=r.randint(0, 10 ** 6), mbs=r.choice([None, None, 3, 7])))
    # the maximising branch of the snapshot code: scripted scores negated (an accuracy-like metric), same landing positions
    for c in cases:
        if c['scores'] is not None and r.random() < 0.35:
            c['maximize'] = True
            c['scores'] = [6.0 - s for s in c['scores']]
    # the AGOP of the selected model, computed after the restore and "not in place" (what every xRFM leaf fit asks for)
    for c in cases:
        c['agop_best'] = r.random() < 0.5
    for c in cases:
        c['refit'] = r.choice([None, None, None, 'same-size', 'other-size'])
    # a time budget that is exhausted after the first round (time_limit_s far below one round): with and without restoration
    extra = []
    for k, c in enumerate(cases[: max(24, len(cases) // 10)]):
        if c['iters'] >= 1:
            extra.append(dict(c, family='time-limited', tlimit=1e-9, scores=None, refit=None, maximize=False, return_best=bool(k % 2), early=bool((k // 2) % 2)))
    cases += extra
    # training sets beyond 2,048 rows (internal blocking of Gram-matrix code), one per kernel family; no feature learning (iters = 0)
    for k, kern in enumerate(KERNELS if run.tier == 'thorough' else KERNELS[:4]):
        cases.append(dict(family='large-leaf', kernel=list(kern), q=[1.0, 1.3, 0.7, 2.0][k % 4], diag=bool(k % 2),
                          solver=['solve', 'cholesky', 'lu'][k % 3], lam=1e-2, iters=0, return_best=bool(k % 2), early=False, mult=1.1,
                          adaptive=(k % 2 == 0), n=[2100, 2600][k % 2], d=3, outputs=1, pos='final', scores=None, bandwidth=3.0, xscale=1.0,
                          dseed=r.randint(0, 10 ** 6), mbs=None, agop_best=False, refit=None, maximize=False))
    # beyond the 5,000-row sub-sample of the median heuristic: the bandwidth the coefficients were solved with is the stored one
    cases.append(dict(family='large-leaf', kernel=list(KERNELS[0]), q=1.0, diag=False, solver='solve', lam=1e-2, iters=0, return_best=True,
                      early=False, mult=1.1, adaptive=True, n=5300, d=3, outputs=1, pos='final', scores=None, bandwidth=3.0, xscale=1.0,
                      dseed=r.randint(0, 10 ** 6), mbs=None, agop_best=False, refit=None, maximize=False))
    for c in cases:  # lpq needs q <= p; fix up
        if c['kernel'][0] == 'lpq':
            c['q'] = min(c['q'], c['kernel'][1]['norm_p'])
        c['kernel'] = (c['kernel'][0], c['kernel'][1])
    return cases


def check(run):
    run.rule = ('real RFM.fit in float64 on distinct random rows (n 8..60), every CPU kernel x diag/full x solver x lambda x '
                'iters 0..5 x return_best/early-stop/adaptive flags, validation scores scripted so that selection lands on the '
                'first / a middle / the last loop iterate / the final refit (25% real scores); every case is distinct by construction')
    run.assumptions = ['rows pairwise distinct, lambda > 0 (property quantifier)', 'positive semi-definiteness of K: proved for the Laplace / product / Lpq kernels with 0<q<=p<=2 (ridge_exists_unique_*), and for the sum-power kernel with a natural power; an hypothesis of ridge_unique for a non-integer power',
                       'torch.linalg.solve/cholesky/lu are modelled (exact solve), checked through the residual']
    run.lean()
    cases = gen_cases(run)
    if run.driver_ok:
        results = core.pmap(MOD, [{'cases': c} for c in core.chunks(cases, 48)])
        run.absorb('c02', results)


def replay(run, payload):
    run.lean()
    p = payload['params']
    p['kernel'] = tuple(p['kernel'])
    run.absorb('replay', core.pmap(MOD, [{'cases': [p]}], workers=1))
