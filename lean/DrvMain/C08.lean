import Xrfmv.Drv.C08

def main : IO Unit := Xrfmv.Drv.runDriver Xrfmv.Drv.C08.ops
