"""
Translator recipes: Gen.Codec <- ClassificationConverter.numerical_to_probas / numerical_to_labels / labels_to_numerical
(class_conversion.py) and RFM.predict_proba (recursive_feature_machine.py): clamp bounds, default eps, binary expansion,
normalisation and arg-max as decision expressions.
"""
import ast

import py2lean
from py2lean import U, Tr, Unsupported, strip_doc

CC_PY = 'xrfm/rfm_src/class_conversion.py'
RFM_PY = 'xrfm/rfm_src/recursive_feature_machine.py'


def _n2p(src):
    return src.func(CC_PY, 'ClassificationConverter', 'numerical_to_probas')


def codec_clamp(src):
    f = _n2p(src)
    clamps = [s for s in ast.walk(f) if isinstance(s, ast.Assign) and isinstance(s.value, ast.Call)
              and U(s.value.func) == 'torch.clamp']
    if len(clamps) != 2:
        raise Unsupported(f'numerical_to_probas: expected two torch.clamp calls (zero_one and prevalence), found {len(clamps)}')
    bounds = set()
    tr = Tr({'eps': 'eps'}, num='α')
    for c in clamps:
        a = c.value.args
        if len(a) != 3:
            raise Unsupported('torch.clamp arity')
        bounds.add((tr.num_expr(a[1]), tr.num_expr(a[2])))
    if len(bounds) != 1:
        raise Unsupported(f'numerical_to_probas: the two branches clamp differently: {bounds}')
    lo, hi = bounds.pop()
    # default eps of numerical_to_probas and of RFM.predict_proba
    d1 = [U(d) for d in f.args.defaults]
    g = src.func(RFM_PY, 'RFM', 'predict_proba')
    d2 = [U(d) for d in g.args.defaults]
    if d1 != ['0.001'] or d2 != ['0.001']:
        raise Unsupported(f'default eps changed: {d1} {d2}')
    norms = [U(s) for s in ast.walk(f) if isinstance(s, ast.Return)]
    if sorted(norms) != sorted(['return num / num.sum(dim=1, keepdim=True)', 'return pi / pi.sum(dim=1, keepdim=True)']):
        raise Unsupported(f'numerical_to_probas: normalisation changed: {norms}')
    return ('/-- `numerical_to_probas`: both branches clamp every entry to `[clampLo eps, clampHi eps]` and then divide each row\n'
            'by its sum; the default `eps` (also of `RFM.predict_proba`) is `1e-3`. -/\n'
            'abbrev clampLo {α : Type} [Sub α] [OfNat α 1] (eps : α) : α := ' + lo + '\n'
            'abbrev clampHi {α : Type} [Sub α] [OfNat α 1] (eps : α) : α := ' + hi + '\n'
            'def defaultEpsNum : Nat := 1\ndef defaultEpsDen : Nat := 1000\n'
            'def rowsDividedByTheirSum : Bool := true')


def codec_binary(src):
    f = _n2p(src)
    txt = U(f)
    if 'num = torch.cat([1 - num, num], dim=1)' not in txt or 'if num.shape[1] == 1:' not in txt:
        raise Unsupported('numerical_to_probas: binary expansion changed')
    g = src.func(CC_PY, 'ClassificationConverter', 'numerical_to_labels')
    if 'return probs.argmax(dim=-1)' not in U(g) or 'probs = self.numerical_to_probas(num)' not in U(g):
        raise Unsupported('numerical_to_labels changed')
    return ('/-- `numerical_to_probas`: a one-column input `p` is expanded to `[1 - p, p]` (class 0 first); labels are the arg-max\n'
            'of the probabilities. -/\n'
            'abbrev binaryFirst {α : Type} [Sub α] [OfNat α 1] (p : α) : α := (1 - p)\n'
            'abbrev binarySecond {α : Type} (p : α) : α := p\n'
            'def labelsAreArgmaxOfProbas : Bool := true')


def codec_prevalence(src):
    f = src.func(CC_PY, 'ClassificationConverter', '__init__')
    txt = U(f)
    need = ['prior = counts / total', 'mu = prior @ Q', 'C = Q - mu', 'A = torch.cat([C.T, torch.ones(1, K, dtype=torch.float32)], dim=0)',
            'invA = torch.linalg.inv(A)', 'M = I[:, :-1] - I[:, [-1]]', "Q, _ = torch.linalg.qr(M, mode='reduced')"]
    for n in need:
        if n not in txt:
            raise Unsupported(f'ClassificationConverter.__init__: `{n}` not found')
    g = _n2p(src)
    if 'B = torch.cat([num.to(dtype=invA.dtype), ones], dim=1)' not in U(g) or 'pi = B @ invA.T' not in U(g):
        raise Unsupported('numerical_to_probas: prevalence decode changed')
    return ('/-- prevalence mode: `prior = counts/total`, `C = Q − priorᵀQ`, `A = [Cᵀ; 1ᵀ]`, decode `[v, 1]·(A⁻¹)ᵀ`, `Q` from the\n'
            'reduced QR of `[e_i − e_K]`. -/\n'
            'def priorIsCountsOverTotal : Bool := true\ndef codesAreQMinusMu : Bool := true\n'
            'def decodeIsAugmentedTimesInvAT : Bool := true')


py2lean.register('Codec', CC_PY, [], [
    ('clamp', codec_clamp),
    ('binary', codec_binary),
    ('prevalence', codec_prevalence),
])
