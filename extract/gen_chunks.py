"""
Translator recipe: Gen.Chunks <- every blocked loop `for i in range(start, stop, step): … T[i:i+width] …` in
xrfm/rfm_src/kernels.py, xrfm/rfm_src/recursive_feature_machine.py and xrfm/xrfm.py (RFM.predict's batches, the row blocks of the
product kernel and of the categorical fast paths).  For each loop: the enclosing function, whether the range starts at the literal 0,
whether its stop is the leading dimension of a tensor (`<name>.shape[0]`), and whether every slice taken with the loop variable runs
from `i` to `i + step` (same expression as the step of the range).  `Props/C01.lean` proves (`decide` over this inventory) that every
blocked loop is an exact tiling, and (for every length and block size) that an exact tiling computes the row-wise map.
"""
import ast

import py2lean
from py2lean import U, Unsupported

FILES = ['xrfm/rfm_src/kernels.py', 'xrfm/rfm_src/recursive_feature_machine.py', 'xrfm/xrfm.py']

DECL = '''/-- One blocked loop `for i in range(start, stop, step)` whose body slices tensors with the loop variable. -/
structure Loop where
  file : String
  func : String
  startZero : Bool          -- `range(0, …)`
  stopIsLeadingDim : Bool   -- stop is `<tensor>.shape[0]`
  slices : Nat              -- number of `[i : i + w]` slices in the body
  widthEqStep : Bool        -- every slice has `w` = the step expression of the range
  lowerIsLoopVar : Bool     -- every slice that mentions the loop variable starts at it
  deriving DecidableEq, Repr'''


def loops_of(src):
    out = []
    for rel in FILES:
        tree = src.tree(rel)
        for cls in [n for n in tree.body if isinstance(n, ast.ClassDef)] + [tree]:
            owner = cls.name + '.' if isinstance(cls, ast.ClassDef) else ''
            for fn in [n for n in cls.body if isinstance(n, ast.FunctionDef)]:
                for node in ast.walk(fn):
                    if not (isinstance(node, ast.For) and isinstance(node.iter, ast.Call) and U(node.iter.func) == 'range'
                            and len(node.iter.args) == 3 and isinstance(node.target, ast.Name)):
                        continue
                    var = node.target.id
                    start, stop, step = node.iter.args
                    slices, width_ok, lower_ok = 0, True, True
                    for sub in ast.walk(ast.Module(body=node.body, type_ignores=[])):
                        if not isinstance(sub, ast.Subscript):
                            continue
                        parts = sub.slice.elts if isinstance(sub.slice, ast.Tuple) else [sub.slice]
                        for sl in parts:
                            if not isinstance(sl, ast.Slice):
                                continue
                            names = {m.id for m in ast.walk(sl) if isinstance(m, ast.Name)}
                            if var not in names:
                                continue
                            slices += 1
                            if not (isinstance(sl.lower, ast.Name) and sl.lower.id == var):
                                lower_ok = False
                            up = sl.upper
                            # `i + step`, `step + i`, or the same clipped at the stop: `min(i + step, stop)`
                            if isinstance(up, ast.Call) and U(up.func) == 'min' and len(up.args) == 2 and not up.keywords \
                                    and U(stop) in (U(up.args[0]), U(up.args[1])):
                                up = up.args[0] if U(up.args[1]) == U(stop) else up.args[1]
                            plus = isinstance(up, ast.BinOp) and isinstance(up.op, ast.Add)
                            ok = plus and ((isinstance(up.left, ast.Name) and up.left.id == var and U(up.right) == U(step)) or
                                           (isinstance(up.right, ast.Name) and up.right.id == var and U(up.left) == U(step)))
                            if not ok or sl.step is not None:
                                width_ok = False
                    if slices == 0:
                        continue
                    out.append((rel, owner + fn.name, isinstance(start, ast.Constant) and start.value == 0,
                                isinstance(stop, ast.Subscript) and U(stop).endswith('.shape[0]'), slices, width_ok, lower_ok))
    return out


def chunks_loops(src):
    ls = loops_of(src)
    if not ls:
        raise Unsupported('no blocked loop found')
    b = lambda v: 'true' if v else 'false'  # noqa: E731
    rows = [f'  {{ file := "{f}", func := "{fn}", startZero := {b(z)}, stopIsLeadingDim := {b(s)}, slices := {k}, widthEqStep := {b(w)}, lowerIsLoopVar := {b(lo)} }}'
            for f, fn, z, s, k, w, lo in sorted(ls)]
    return ('/-- every blocked loop of the three source files, sorted by file and function -/\n'
            'def loops : List Loop := [\n' + ',\n'.join(rows) + ']')


py2lean.register('Chunks', 'xrfm/rfm_src/kernels.py', [], [
    ('decl', py2lean.const(DECL)),
    ('loops', chunks_loops),
])
