import Xrfmv.Props.C12
#print axioms Xrfmv.Props.C12.clamp_norm_simplex
#print axioms Xrfmv.Props.C12.leaf_proba_valid
#print axioms Xrfmv.Props.C12.mean_simplex
#print axioms Xrfmv.Props.C12.mixture_simplex
#print axioms Xrfmv.Props.C12.predict_proba_valid
#print axioms Xrfmv.Props.C12.predict_proba_le_one
#print axioms Xrfmv.Props.C12.labels_in_range
#print axioms Xrfmv.Props.C12.argmax_consistent
#print axioms Xrfmv.Props.C12.predict_is_most_probable
#print axioms Xrfmv.Props.C12.far_is_prior
#print axioms Xrfmv.Props.C12.soft_tree_valid
#print axioms Xrfmv.Props.C12.predict_proba_valid_built
#print axioms Xrfmv.Props.C12.clampNorm_continuous
#print axioms Xrfmv.Props.C12.probasPrevInv_continuous
#print axioms Xrfmv.Props.C12.leafOut_continuous
#print axioms Xrfmv.Props.C12.far_limit_prior
