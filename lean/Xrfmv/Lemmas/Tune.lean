/- Lemmas for C10: the temperature-tuning fold over `EReal` scores (real scores, `±∞` initial best). -/
import Xrfmv.Model.Tune
import Xrfmv.Lemmas.RealInst

namespace Xrfmv.Tune
open Xrfmv.Gen.Temp

/-- `a` strictly better than `b` in the metric direction. -/
def better (maximizing : Bool) (a b : ℝ) : Prop := if maximizing then b < a else a < b

variable (maximizing : Bool) (btv : ℝ) (s : Option ℝ → ℝ)

/-- The fold is run on real scores embedded in `EReal`. -/
noncomputable abbrev escore (s : Option ℝ → ℝ) : Option ℝ → EReal := fun a => ((s a : ℝ) : EReal)

/-- State after a non-empty prefix `p` of the candidates. -/
structure Inv (p : List ℝ) (st : TState EReal ℝ) : Prop where
  score : st.bestScore = ((s st.bestAttr : ℝ) : EReal)
  fromCand : ∃ c ∈ p, st.bestAttr = attrOf c
  optimal : ∀ c ∈ p, ¬ better maximizing (s (attrOf c)) (s st.bestAttr)
  results : st.results = p.map fun c => (c, ((s (attrOf c) : ℝ) : EReal))

theorem isBetter_coe (a b : ℝ) :
    isBetter maximizing ((a : ℝ) : EReal) ((b : ℝ) : EReal) = true ↔ better maximizing a b := by
  cases maximizing <;> simp [isBetter, better, EReal.coe_lt_coe_iff]

theorem isBetter_init (a : ℝ) :
    isBetter maximizing ((a : ℝ) : EReal) (initBestScore maximizing) = true := by
  cases maximizing <;> simp [isBetter, initBestScore, HasInf.posInf, HasInf.negInf, EReal.coe_lt_top, EReal.bot_lt_coe]

theorem tie_coe (c : ℝ) (a b : ℝ) (h : tieClause c btv ((a : ℝ) : EReal) ((b : ℝ) : EReal) = true) : a = b := by
  simp only [tieClause, Bool.and_eq_true, beq_iff_eq] at h
  exact_mod_cast h.2

theorem step_first (st0 : TState EReal ℝ) (c : ℝ)
    (h0 : st0.bestScore = initBestScore maximizing) (hr : st0.results = []) :
    Inv maximizing s [c] (step maximizing btv (escore s) st0 c) := by
  have hb := isBetter_init maximizing (s (attrOf c))
  simp only [step, h0, hb, Bool.true_or, if_true, hr, List.nil_append]
  refine ⟨rfl, ⟨c, by simp, rfl⟩, ?_, by simp⟩
  intro c' hc'
  simp only [List.mem_singleton] at hc'
  subst hc'
  cases maximizing <;> simp [better]

theorem step_inv (p : List ℝ) (st : TState EReal ℝ) (c : ℝ) (h : Inv maximizing s p st) :
    Inv maximizing s (p ++ [c]) (step maximizing btv (escore s) st c) := by
  obtain ⟨hs, ⟨c0, hc0, hattr⟩, hopt, hres⟩ := h
  simp only [step]
  split
  · rename_i hacc
    -- accepted: strictly better, or an equal score
    have hnb : ∀ c' ∈ p, ¬ better maximizing (s (attrOf c')) (s (attrOf c)) := by
      intro c' hc'
      have h1 := hopt c' hc'
      rw [hs] at hacc
      rcases Bool.or_eq_true_iff.mp hacc with hb | ht
      · have hb' := (isBetter_coe maximizing _ _).mp hb
        cases maximizing <;> simp only [better, Bool.false_eq_true, if_false, if_true, not_lt] at h1 hb' ⊢ <;> linarith
      · have heq := tie_coe btv c _ _ ht
        rw [heq]; exact h1
    refine ⟨rfl, ⟨c, by simp, rfl⟩, ?_, by simp [hres]⟩
    intro c' hc'
    rcases List.mem_append.mp hc' with h1 | h1
    · exact hnb c' h1
    · simp only [List.mem_singleton] at h1; subst h1
      cases maximizing <;> simp [better]
  · rename_i hrej
    refine ⟨hs, ⟨c0, by simp [hc0], hattr⟩, ?_, by simp [hres]⟩
    intro c' hc'
    rcases List.mem_append.mp hc' with h1 | h1
    · exact hopt c' h1
    · simp only [List.mem_singleton] at h1; subst h1
      rw [hs] at hrej
      have : ¬ isBetter maximizing ((s (attrOf c') : ℝ) : EReal) ((s st.bestAttr : ℝ) : EReal) = true := by
        intro hb; exact hrej (by simp [hb])
      exact fun hb => this ((isBetter_coe maximizing _ _).mpr hb)

theorem fold_inv (p q : List ℝ) (st : TState EReal ℝ) (h : Inv maximizing s p st) :
    Inv maximizing s (p ++ q) (q.foldl (step maximizing btv (escore s)) st) := by
  induction q generalizing p st with
  | nil => simpa using h
  | cons c q ih =>
    simp only [List.foldl_cons]
    have := ih (p ++ [c]) _ (step_inv maximizing btv s p st c h)
    simpa using this

/-- Master specification of `tune` for a non-empty candidate list. -/
theorem tune_spec (current : Option ℝ) (cands : List ℝ) (hne : cands ≠ []) :
    Inv maximizing s cands (tune maximizing current cands (escore s)) := by
  cases cands with
  | nil => exact absurd rfl hne
  | cons c q =>
    simp only [tune, List.foldl_cons]
    have h1 := step_first maximizing (initBestTempValue (initBestAttr current)) s
      { bestScore := initBestScore maximizing, bestAttr := initBestAttr current, results := [] } c rfl rfl
    have := fold_inv maximizing (initBestTempValue (initBestAttr current)) s [c] q _ h1
    simpa using this

end Xrfmv.Tune
