"""
Translator recipes: Gen.Temp <- xRFM.fit_temperature (and the trigger in xRFM.fit).
"""
import ast

import py2lean
from py2lean import U, Tr, Unsupported, strip_doc, is_print_or_verbose

XRFM_PY = 'xrfm/xrfm.py'


def _ft(src):
    return src.func(XRFM_PY, 'xRFM', 'fit_temperature')


def _loop(src):
    f = _ft(src)
    loops = [s for s in strip_doc(f.body) if isinstance(s, ast.For)]
    if len(loops) != 1 or U(loops[0].target) != 'temp_candidate' or 'temp_tuning_space' not in U(loops[0].iter):
        raise Unsupported('fit_temperature: candidate loop')
    return f, loops[0]


def temp_init(src):
    f = _ft(src)
    txt = [U(s) for s in strip_doc(f.body)]
    want_score = "best_score = float('-inf') if maximizing else float('inf')"
    want_attr = 'best_temp_attr = self.split_temperature if self.split_temperature is not None else None'
    want_val = 'best_temp_value = 0.0 if best_temp_attr is None else float(best_temp_attr)'
    if 'maximizing = metric.should_maximize' not in txt or 'metric = Metric.from_name(self.tuning_metric)' not in txt:
        raise Unsupported('fit_temperature: direction flag')
    for w in (want_score, want_attr, want_val):
        if w not in txt:
            raise Unsupported(f'fit_temperature: `{w}` not found')
    return ('/-- `fit_temperature`: initial best score, initial stored temperature (the current attribute) and the value the\n'
            'tie clause compares candidates with (computed once, before the loop). -/\n'
            'def initBestScore {α : Type} [HasInf α] (maximizing : Bool) : α :=\n'
            '  if maximizing then HasInf.negInf else HasInf.posInf\n'
            'def initBestAttr {τ : Type} (current : Option τ) : Option τ := current\n'
            'def initBestTempValue {τ : Type} [OfNat τ 0] (bestAttr : Option τ) : τ :=\n'
            '  match bestAttr with\n  | none => 0\n  | some t => t')


def temp_candidate(src):
    _, loop = _loop(src)
    body = [s for s in loop.body if not is_print_or_verbose(s)]
    if U(body[0]) != 'temp_candidate = float(temp_candidate)':
        raise Unsupported('fit_temperature: candidate coercion')
    sel = body[1]
    if not (isinstance(sel, ast.If) and len(sel.orelse) >= 1):
        raise Unsupported('fit_temperature: hard/soft selection')
    tr = Tr({'temp_candidate': 'temp'}, num='τ')
    cond = tr.bool_expr(sel.test)
    tb = [U(s) for s in sel.body]
    eb = [U(s) for s in sel.orelse]
    if tb != ['self.split_temperature = None', 'use_soft = False'] or \
            eb != ['self.split_temperature = temp_candidate', 'use_soft = True']:
        raise Unsupported('fit_temperature: hard/soft branches')
    return ('/-- `fit_temperature`: a candidate is evaluated with hard routing (`split_temperature = None`) iff this holds,\n'
            'otherwise with soft routing at that temperature. -/\n'
            'def candidateIsHard {τ : Type} [LE τ] [DecidableLE τ] [LT τ] [DecidableLT τ] [OfScientific τ] (temp : τ) : Bool :=\n'
            f'  {cond}')


def temp_accept(src):
    _, loop = _loop(src)
    body = [s for s in loop.body if not is_print_or_verbose(s)]
    txt = [U(s) for s in body]
    if 'score = metric.compute(**metric_inputs)' not in txt or 'tuning_results.append((temp_candidate, score))' not in txt:
        raise Unsupported('fit_temperature: score / results bookkeeping')
    isb = [s for s in body if isinstance(s, ast.Assign) and U(s.targets[0]) == 'is_better']
    if len(isb) != 1:
        raise Unsupported('fit_temperature: is_better')
    tr = Tr({'maximizing': 'maximizing', 'score': 'score', 'best_score': 'best', 'temp_candidate': 'temp',
             'best_temp_value': 'bestTempValue'}, num='α')
    better = tr.num_expr(isb[0].value) if False else None
    v = isb[0].value
    if not isinstance(v, ast.IfExp):
        raise Unsupported('fit_temperature: is_better shape')
    better = f'if {tr.bool_expr(v.test)} then {tr.bool_expr(v.body)} else {tr.bool_expr(v.orelse)}'
    acc = [s for s in body if isinstance(s, ast.If) and 'is_better' in U(s.test)]
    if len(acc) != 1 or acc[0].orelse:
        raise Unsupported('fit_temperature: accept block')
    t = acc[0].test
    if not (isinstance(t, ast.BoolOp) and isinstance(t.op, ast.Or) and len(t.values) == 2 and U(t.values[0]) == 'is_better'):
        raise Unsupported('fit_temperature: accept condition shape')
    tie = t.values[1]
    if not (isinstance(tie, ast.BoolOp) and isinstance(tie.op, ast.And) and len(tie.values) == 2):
        raise Unsupported('fit_temperature: tie clause shape')
    def beq(node, env):
        if not (isinstance(node, ast.Compare) and len(node.ops) == 1 and isinstance(node.ops[0], ast.Eq)
                and U(node.left) in env and U(node.comparators[0]) in env):
            raise Unsupported(f'fit_temperature: tie clause term `{U(node)}`')
        return f'({env[U(node.left)]} == {env[U(node.comparators[0])]})'
    tie_l = beq(tie.values[0], {'temp_candidate': 'temp', 'best_temp_value': 'bestTempValue'})
    tie_r = beq(tie.values[1], {'score': 'score', 'best_score': 'best'})
    ab = [U(s) for s in acc[0].body]
    if ab != ['best_score = score', 'best_temp_attr = None if temp_candidate <= 0.0 else temp_candidate']:
        raise Unsupported(f'fit_temperature: accept body {ab}')
    trh = Tr({'temp_candidate': 'temp'}, num='τ')
    return ('/-- `fit_temperature`: strict improvement in the metric direction. -/\n'
            'def isBetter {α : Type} [LT α] [DecidableLT α] (maximizing : Bool) (score best : α) : Bool :=\n'
            f'  {better}\n\n'
            '/-- `fit_temperature`: the tie clause (re-selects the incoming temperature on an equal score). -/\n'
            'def tieClause {α τ : Type} [BEq α] [BEq τ] (temp bestTempValue : τ) (score best : α) : Bool :=\n'
            f'  {tie_l} && {tie_r}\n\n'
            '/-- `fit_temperature`: what is stored for an accepted candidate (`None` = hard routing). -/\n'
            'def attrOf {τ : Type} [LE τ] [DecidableLE τ] [LT τ] [DecidableLT τ] [OfScientific τ] (temp : τ) : Option τ :=\n'
            f'  if {trh.bool_expr(ast.parse("temp_candidate <= 0.0", mode="eval").body)} then none else some temp')


def temp_final(src):
    f = _ft(src)
    txt = [U(s) for s in strip_doc(f.body)]
    need = ['self.split_temperature = best_temp_attr', 'self.best_split_temperature_score_ = best_score',
            'self.temperature_tuning_results_ = tuning_results', 'return self.split_temperature']
    for n in need:
        if n not in txt:
            raise Unsupported(f'fit_temperature: `{n}`')
    fit = src.func(XRFM_PY, 'xRFM', 'fit')
    trig = [s for s in strip_doc(fit.body) if isinstance(s, ast.If) and 'self.use_temperature_tuning' in U(s.test)
            and 'fit_temperature' in U(s)]
    if len(trig) != 1 or U(trig[0].test) != 'has_split and self.use_temperature_tuning':
        raise Unsupported('fit: temperature tuning trigger')
    return ('/-- `fit_temperature` stores the best attribute, the best score and the per-candidate results; `fit` calls it iff\n'
            '`has_split and use_temperature_tuning`. -/\n'
            'def storesBest : Bool := true\n'
            'def triggeredWhenSplitAndEnabled : Bool := true')


py2lean.register('Temp', XRFM_PY, ['Xrfmv.Scalar'], [
    ('init', temp_init),
    ('candidate', temp_candidate),
    ('accept', temp_accept),
    ('final', temp_final),
])
