/-
C07 — Every training sample is used exactly once: as a center or as leaf validation.

Model: `Xrfmv.BuildIndex.build`, `_build_tree` + `_get_balanced_split` + `_refill_val_set` on index lists,
over the regenerated `Gen.Split` / `Gen.Refill`; `torch.sort` and `torch.randperm` are oracles whose only
assumed contract is "returns a permutation of `range n`" (checked on every recorded value by the
correspondence).  Theorems hold for every depth, every oracle meeting the contract, every routed
validation count.  `ok = true` (no assertion failure, enough fuel) is established by C06 for the size
skeleton; here it is an hypothesis, and the example at the end exhibits a concrete run satisfying it.
-/
import Xrfmv.Lemmas.BuildIndex
import Xrfmv.Lemmas.BuildIndexOk

namespace Xrfmv.Props.C07
open Xrfmv.BuildIndex Xrfmv.Gen.Split Xrfmv.Gen.Refill

/-- **C07 (exactly once, zero overlap)** The centers and moved samples of all leaves together are a
permutation of `0..n-1`: no training sample is dropped, none is in two leaves, none is both a center and a
validation sample. -/
theorem every_sample_exactly_once (cfg : Cfg) (O : Oracles) (hc : Contracts O) (hz : ∀ n, O.ov n = 0)
    (fuel n : Nat) (hok : (build cfg O fuel [] (List.range n) true 0).1.ok = true) :
    (build cfg O fuel [] (List.range n) true 0).1.all.Perm (List.range n) ∧
    (build cfg O fuel [] (List.range n) true 0).1.all.Nodup := by
  have h := build_all_perm cfg O hc hz fuel [] (List.range n) true 0 hok
  exact ⟨h, h.nodup_iff.mpr List.nodup_range⟩

/-- **C07 (at least once, with overlap)** With an overlap band every training sample is held by at least one
leaf, and within each leaf centers and moved samples are distinct samples. -/
theorem at_least_once_with_overlap (cfg : Cfg) (O : Oracles) (hc : Contracts O)
    (hov : ∀ n, 0 ≤ O.ov n ∧ O.ov n ≤ n) (fuel n : Nat)
    (hok : (build cfg O fuel [] (List.range n) true 0).1.ok = true) :
    (∀ x < n, x ∈ (build cfg O fuel [] (List.range n) true 0).1.all) ∧
    (∀ l ∈ (build cfg O fuel [] (List.range n) true 0).1.leaves, (l.2.1 ++ l.2.2).Nodup) :=
  ⟨fun x hx => build_all_cover cfg O hc hov fuel [] (List.range n) true 0 hok x (List.mem_range.mpr hx),
   build_leaf_nodup cfg O hc fuel [] (List.range n) true 0 List.nodup_range⟩

/-- **C07 (moved count)** In every leaf at most `min(refill_size − routed validation points, int(0.2·m))`
samples (`m` the leaf's samples before the refill) are moved, and none when the routed validation points
already exceed the refill size. -/
theorem moved_bound (cfg : Cfg) (O : Oracles) (hc : Contracts O) (fuel n : Nat) :
    ∀ l ∈ (build cfg O fuel [] (List.range n) true 0).1.leaves, MovedBound cfg O l :=
  build_moved_bound cfg O hc fuel [] (List.range n) true 0

/-- **C07 (single leaf)** A tree with a single leaf moves nothing: all samples are centers. -/
theorem single_leaf_moves_nothing (cfg : Cfg) (O : Oracles) (fuel n : Nat)
    (hleaf : shouldCreateLeaf (List.range n).length cfg.maxLeaf cfg.nsplits.isNone 0 (cfg.nsplits.getD 0) = true) :
    (build cfg O (fuel + 1) [] (List.range n) true 0).1 = .leaf [] (List.range n) [] :=
  root_leaf_no_move cfg O fuel (List.range n) 0 hleaf

/-- **C07 (reported indices are the centers)** In the regenerated source plan the reported `train_indices`, the
feature rows and the targets of a child are indexed by the same mask, and in the refill the three are indexed
by the same kept list, the moved samples being the complementary prefix of the permutation — so the model's
single index list stands for all three. -/
theorem indices_follow_rows :
    leftChild.idx = leftChild.x ∧ leftChild.y = leftChild.x ∧ leftChild.x = .left ∧
    rightChild.idx = rightChild.x ∧ rightChild.y = rightChild.x ∧ rightChild.x = .right ∧
    leftChild.xval = leftChild.yval ∧ rightChild.xval = rightChild.yval ∧
    indicesFollowKept = true ∧ keptIsSuffix = true ∧ movedIsPrefix = true := by
  decide

/-- **C07 (the construction succeeds)** Without a forced split count, for every sort oracle meeting the permutation
contract and every overlap oracle leaving two unshared samples at each node that is split (C06: implied by
`(1 - 2f)·max_leaf_size ≥ 4`), the index-level construction with fuel `n + 1` never fails an assertion: `ok` – the
hypothesis of the theorems above – holds. -/
theorem construction_ok (cfg : Cfg) (O : Oracles) (hns : cfg.nsplits = none) (hc : Contracts O) (hov : OvOk cfg O) (n : Nat) :
    (build cfg O (n + 1) [] (List.range n) true 0).1.ok = true :=
  index_build_ok cfg O hns hc hov (n + 1) [] (List.range n) true 0 (by simp)

/-- **C07 (exactly once, unconditional form)** Zero overlap, `max_leaf_size ≥ 1`, no forced splits: for every `n` and every
oracle meeting the contracts the leaves' centers and moved samples are a permutation of `0..n-1`. -/
theorem every_sample_exactly_once_unconditional (cfg : Cfg) (O : Oracles) (hns : cfg.nsplits = none) (hL : 1 ≤ cfg.maxLeaf)
    (hc : Contracts O) (hz : ∀ n, O.ov n = 0) (n : Nat) :
    (build cfg O (n + 1) [] (List.range n) true 0).1.all.Perm (List.range n) := by
  have hov : OvOk cfg O := fun m hm => ⟨0, by rw [hz]; rfl, by omega⟩
  exact (every_sample_exactly_once cfg O hc hz (n + 1) n (construction_ok cfg O hns hc hov n)).1

/-- Non-vacuity: five samples, `max_leaf_size = 2`, identity sort/permutation oracles, refill size 1: the run is
`ok` and splits twice. -/
example :
    let cfg : Cfg := { maxLeaf := 2, nsplits := none, minVal := 1 }
    let O : Oracles := { sortO := fun _ n => List.range n, permO := fun _ n => List.range n, nvalO := fun _ => 0,
                         ov := fun _ => 0, frac := fun n => (n : Int) / 5 }
    (build cfg O 6 [] (List.range 5) true 0).1.ok = true ∧ (build cfg O 6 [] (List.range 5) true 0).1.leaves.length = 3 := by
  decide

example : Contracts { sortO := fun _ n => List.range n, permO := fun _ n => List.range n, nvalO := fun _ => 0,
                      ov := fun _ => 0, frac := fun n => (n : Int) / 5 } :=
  ⟨fun _ _ => List.Perm.refl _, fun _ _ => List.Perm.refl _⟩

end Xrfmv.Props.C07
