"""
C13 — label encoding round-trips and decodes to valid probabilities.

Proof: lean/Xrfmv/Props/C13.lean about the model lean/Xrfmv/Model/Codec.lean (exact reals, all K >= 2,
all priors, the QR factor Q an oracle with contract QtQ = I, QQt = I - J/K).
Correspondence: the real `ClassificationConverter` versus the same model on Float (driver_c13):
Q contract on the real QR output, codes, stored inverse, decoded probabilities, arg-max labels.
Property oracle: evaluated directly on the implementation's outputs (round trip, validity,
equidistance, zero -> prior, affinity before clamping).
"""
import itertools

from harness import core

MOD = 'harness.props.c13'
U32 = 2.0 ** -24
ENTRIES = [0, 1, 2, 5, 50]
SCALES = [1e-3, 1.0, 30.0, 1e3, 1e6]


def tol(K):
    """float32 allowance for O(1) quantities built from K-term sums (measured worst case on the pinned
    tree: 2.5*K*2^-24 for equidistance, <= 1.4*K*2^-24 for everything else)."""
    return 16 * K * U32


# ------------------------------------------------------------------------------------------------
def make_labels(p):
    import random
    labels = [i for i, c in enumerate(p['counts']) for _ in range(c)]
    random.Random(p['order_seed']).shuffle(labels)
    return labels


def decoder_inputs(p, width, C=None):
    """float32 rows of the given width: zero, unit-ish, random at every scale up to 1e6, one huge
    coordinate; prevalence: also the class codes and interior mixtures of them."""
    import torch
    g = torch.Generator().manual_seed(p['dseed'])
    rows = [torch.zeros(1, width)]
    for s in SCALES:
        rows.append(torch.randn(p['per_scale'], width, generator=g) * s)
    spike = torch.zeros(2, width)
    spike[0, 0] = 1e6
    spike[1, width - 1] = -1e6
    rows.append(spike)
    rows.append(torch.rand(3, width, generator=g))          # inside [0,1]: typical regression outputs
    if C is not None:
        rows.append(C.clone())
        K = C.shape[0]
        w = torch.rand(4, K, generator=g) + 0.05
        w = w / w.sum(1, keepdim=True)
        rows.append(w @ C)
    else:
        rows.append(torch.eye(width) if width > 1 else torch.tensor([[0.0], [1.0], [0.5]]))
    return torch.cat(rows, 0).float().contiguous()


def proba_allowance(np, raw, delta, eps, K):
    """|impl - model| bound for clamp-normalised rows, given the model's decoded rows `raw` (float64)
    and a bound `delta` on the error of the implementation's float32 decoded rows."""
    lo, hi = eps, 1 - eps
    safe = (raw < lo - delta) | (raw > hi + delta)            # clamped to the same bound on both sides
    d = np.where(safe, 0.0, delta)
    s = np.clip(raw, lo, hi).sum(1, keepdims=True)
    return (d + d.sum(1, keepdims=True)) / s + (K + 8) * U32


def compare_decode(np, res, what, m, impl_probs, impl_labels, delta, eps, K, stats):
    if 'error' in m:
        res['disagreements'].append({'detail': f'{what}: model rejects the batch: {m["error"]}'})
        return
    raw = np.array(core.unfl(m['raw']), dtype=np.float64).reshape(len(impl_probs), -1)
    probs = np.array(core.unfl(m['probs']), dtype=np.float64).reshape(len(impl_probs), -1)
    if probs.shape != impl_probs.shape:
        res['disagreements'].append({'detail': f'{what}: shape impl {impl_probs.shape} model {probs.shape}'})
        return
    allow = proba_allowance(np, raw, delta, eps, K)
    diff = np.abs(impl_probs - probs)
    bad = diff > allow
    stats['rows'] += len(probs)
    stats['vacuous_rows'] += int((allow.max(1) > 1e-2).sum())
    stats['max_ratio'] = max(stats['max_ratio'], float((diff / allow).max()))
    if bad.any():
        r, c = map(int, np.argwhere(bad)[0])
        res['disagreements'].append({'detail': f'{what}: probability row {r} col {c}: impl {impl_probs[r, c]!r} '
                                               f'model {probs[r, c]!r} allowance {allow[r, c]:.3g}'})
    if impl_labels is not None:
        ml = np.array(m['labels'])
        srt = np.sort(probs, 1)
        tie = (srt[:, -1] - srt[:, -2]) <= 2 * allow.max(1)
        stats['tie_rows'] += int(tie.sum())
        wrong = (ml != impl_labels) & ~tie
        if wrong.any():
            r = int(np.argwhere(wrong)[0][0])
            res['disagreements'].append({'detail': f'{what}: arg-max row {r}: impl {int(impl_labels[r])} model {int(ml[r])} '
                                                   f'probs {probs[r].tolist()}'})


# ------------------------------------------------------------------------------------------------
def run_case(p, drv):
    import numpy as np
    import torch
    from xrfm.rfm_src.class_conversion import ClassificationConverter

    res = {'family': p['family'], 'params': p, 'disagreements': [], 'failures': []}
    fails = res['failures']

    def fail(sig, detail):
        fails.append({'signature': sig, 'detail': detail[:400]})

    K, mode, counts = p['K'], p['mode'], p['counts']
    lab = make_labels(p)
    N = len(lab)
    flat = torch.tensor(lab, dtype=torch.long)
    labels = flat.reshape(-1, 1) if p['shape'] == 'col' else flat
    stats = {'rows': 0, 'vacuous_rows': 0, 'tie_rows': 0, 'max_ratio': 0.0}
    eps2 = p['eps2']

    # ---------------- implementation ----------------
    try:
        conv = ClassificationConverter(mode, n_classes=K, labels=labels)
        num = conv.labels_to_numerical(labels)
        back = conv.numerical_to_labels(num)
        allk = torch.arange(K)
        num_all = conv.labels_to_numerical(allk)
        back_all = conv.numerical_to_labels(num_all)
        width = num.shape[1] if num.ndim == 2 else -1
        X = decoder_inputs(p, max(width, 1), conv._C if mode == 'prevalence' else None)
        P1 = conv.numerical_to_probas(X)
        P2 = conv.numerical_to_probas(X, eps=eps2)
        L1 = conv.numerical_to_labels(X)
    except Exception as e:  # every input here is inside the property's quantifier
        fail(f'C13:raises:{type(e).__name__}', f'{type(e).__name__}: {e}')
        return res

    # ---------------- property oracle, directly on the implementation ----------------
    want_width = (K - 1) if mode == 'prevalence' else (1 if K == 2 else K)
    if tuple(num.shape) != (N, want_width):
        fail('C13:encode-shape', f'labels of shape {tuple(labels.shape)} encoded to {tuple(num.shape)}, expected {(N, want_width)}')
    if tuple(back.shape) != (N,) or not torch.equal(back.long(), flat):
        fail('C13:roundtrip', f'labels {lab[:12]} -> numerical -> labels gives {back.reshape(-1).tolist()[:12]}')
    if tuple(back_all.shape) != (K,) or not torch.equal(back_all.long(), allk):
        fail('C13:roundtrip', f'class ids 0..{K - 1} (counts {counts}) round-trip to {back_all.tolist()}')
    for name, P, e in (('eps=1e-3', P1, 1e-3), (f'eps={eps2}', P2, eps2)):
        Pd = P.double()
        if tuple(P.shape) != (X.shape[0], K):
            fail('C13:invalid-proba', f'{name}: shape {tuple(P.shape)} for {X.shape[0]} rows, K={K}')
        elif not torch.isfinite(P).all():
            r = int((~torch.isfinite(P)).any(1).nonzero()[0])
            fail('C13:invalid-proba', f'{name}: non-finite probability for input row {X[r].tolist()}')
        elif (P < 0).any():
            r = int((P < 0).any(1).nonzero()[0])
            fail('C13:invalid-proba', f'{name}: negative probability {P[r].tolist()} for input row {X[r].tolist()}')
        elif ((Pd.sum(1) - 1).abs() > 4 * K * U32).any():
            r = int(((Pd.sum(1) - 1).abs() > 4 * K * U32).nonzero()[0])
            fail('C13:invalid-proba', f'{name}: row sums to {Pd[r].sum().item()!r} for input row {X[r].tolist()}')
    if tuple(L1.shape) != (X.shape[0],) or L1.dtype != torch.long or (L1 < 0).any() or (L1 >= K).any():
        fail('C13:invalid-label', f'numerical_to_labels gives shape {tuple(L1.shape)} dtype {L1.dtype} range '
                                  f'[{int(L1.min())},{int(L1.max())}]')
    prior64 = np.array(counts, dtype=np.float64) / float(sum(counts))
    if mode == 'prevalence':
        C = conv._C.double()
        D = ((C[:, None, :] - C[None, :, :]) ** 2).sum(-1)
        off = D[~torch.eye(K, dtype=torch.bool)]
        if ((off - 2).abs() > tol(K)).any():
            fail('C13:not-equidistant', f'squared code distances {off.min().item()!r}..{off.max().item()!r}, expected 2 (counts {counts})')
        z = torch.zeros(1, K - 1)
        cl = np.clip(prior64, 1e-3, 1 - 1e-3)
        cl = cl / cl.sum()
        p0 = conv.numerical_to_probas(z)[0].double().numpy()
        if np.abs(p0 - cl).max() > tol(K):
            fail('C13:zero-not-prior', f'zero vector decodes to {p0.tolist()}, clamped frequencies {cl.tolist()}')
        p0 = conv.numerical_to_probas(z, eps=1e-12)[0].double().numpy()
        if np.abs(p0 - prior64).max() > tol(K):
            fail('C13:zero-not-prior', f'zero vector decodes (eps=1e-12) to {p0.tolist()}, frequencies {prior64.tolist()}')
        p1d = conv.numerical_to_probas(torch.zeros(K - 1))
        if tuple(p1d.shape) != (1, K):
            fail('C13:invalid-proba', f'1-D input decodes to shape {tuple(p1d.shape)}')
        # affinity before clamping: interior mixtures of codes decode to the same mixtures; affine
        # combinations of interior points decode to the same combinations
        g = torch.Generator().manual_seed(p['dseed'] + 1)
        w = torch.rand(6, K, generator=g) + 0.05
        w = w / w.sum(1, keepdim=True)
        pw = conv.numerical_to_probas(w @ conv._C, eps=1e-12).double()
        if ((pw - w.double()).abs() > tol(K)).any():
            r = int(((pw - w.double()).abs() > tol(K)).any(1).nonzero()[0])
            fail('C13:not-affine', f'mixture {w[r].tolist()} of codes decodes to {pw[r].tolist()} (counts {counts})')
        lam = torch.rand(3, 1, generator=g)
        a, b = w[:3] @ conv._C, w[3:] @ conv._C
        mix = conv.numerical_to_probas(lam * a + (1 - lam) * b, eps=1e-12).double()
        sep = lam.double() * conv.numerical_to_probas(a, eps=1e-12).double() + \
            (1 - lam.double()) * conv.numerical_to_probas(b, eps=1e-12).double()
        if ((mix - sep).abs() > tol(K)).any():
            fail('C13:not-affine', f'decode(l*a+(1-l)*b) differs from l*decode(a)+(1-l)*decode(b) by {(mix - sep).abs().max().item()!r}')

    # score tensors of other dtypes (integer zeros, half precisions, float64): the decoder works in the dtype of its own
    # matrices, so the result is the one obtained from the same values given as float32
    # (prevalence mode only: the zero_one decoder has no matrices and legitimately stays in the dtype of its input)
    for dt in ((torch.int64, torch.float16, torch.bfloat16, torch.float64) if mode == 'prevalence' else ()):
        try:
            Xs = torch.zeros(3, max(width, 1), dtype=dt) if dt == torch.int64 else X[:8].to(dt)
            Pa = conv.numerical_to_probas(Xs)
            Pb = conv.numerical_to_probas(Xs.to(torch.float32))
            if Pa.dtype != Pb.dtype or tuple(Pa.shape) != tuple(Pb.shape) or not torch.allclose(Pa.double(), Pb.double(), rtol=0, atol=1e-7):
                fail('C13:invalid-proba', f'scores of dtype {dt}: decoded {Pa[0].tolist()} ({Pa.dtype}), the same values as float32 decode to {Pb[0].tolist()} ({Pb.dtype})')
                break
        except Exception as e:  # noqa: BLE001
            fail(f'C13:raises:{type(e).__name__}', f'scores of dtype {dt}: {e}')
            break
    if mode == 'zero_one' and K == 2:
        # (a) binary scores in the two-column layout (what the leaves return when binary targets were given as float
        #     one-hot columns): decoded like any K-column zero_one score - clamp, normalise - to an (N, 2) row
        g2 = torch.Generator().manual_seed(p['dseed'] + 2)
        X2 = torch.cat([torch.rand(6, 2, generator=g2), torch.randn(6, 2, generator=g2) * 3.0, torch.tensor([[0.0, 1.0], [1.0, 0.0], [0.5, 0.5]])])
        try:
            P2c = conv.numerical_to_probas(X2).double()
            L2c = conv.numerical_to_labels(X2)
            ref2 = X2.double().clamp(1e-3, 1 - 1e-3)
            ref2 = ref2 / ref2.sum(1, keepdim=True)
            if tuple(P2c.shape) != (X2.shape[0], 2) or ((P2c - ref2).abs() > tol(K)).any():
                fail('C13:invalid-proba', f'two-column binary scores decode to shape {tuple(P2c.shape)}, expected clamp-normalised (N, 2) rows')
            elif tuple(L2c.shape) != (X2.shape[0],) or (L2c < 0).any() or (L2c > 1).any():
                fail('C13:invalid-label', f'two-column binary scores decode to labels {L2c.tolist()}')
        except Exception as e:  # noqa: BLE001
            fail(f'C13:raises:{type(e).__name__}', f'two-column binary scores: {e}')
        # (b) binary scores given as a plain vector of N values (one score per sample): the same rows as the (N, 1) column
        try:
            v = torch.cat([torch.rand(5, generator=g2), torch.randn(2, generator=g2) * 3.0])
            P1d = conv.numerical_to_probas(v).double()
            Pcol = conv.numerical_to_probas(v[:, None]).double()
            L1d = conv.numerical_to_labels(v)
            if tuple(P1d.shape) != (v.shape[0], 2) or not torch.equal(P1d, Pcol):
                fail('C13:invalid-proba', f'a vector of {v.shape[0]} binary scores decodes to shape {tuple(P1d.shape)}, expected the '
                                          f'({v.shape[0]}, 2) rows of the same scores given as a column')
            elif tuple(L1d.shape) != (v.shape[0],) or not torch.equal(L1d, conv.numerical_to_labels(v[:, None])):
                fail('C13:invalid-label', f'a vector of {v.shape[0]} binary scores decodes to labels {L1d.tolist()}')
        except Exception as e:  # noqa: BLE001
            fail(f'C13:raises:{type(e).__name__}', f'vector of binary scores: {e}')
        # (b) a converter whose leaves answer with logits (logistic solver): the same round trip, and labels = arg-max of
        #     the sigmoid probabilities (first maximum on a tie, i.e. logit 0 -> class 0)
        import copy
        convl = copy.copy(conv)
        convl._numerical_type = 'logit_diff'
        try:
            backl = convl.numerical_to_labels(convl.labels_to_numerical(labels))
            if tuple(backl.shape) != (N,) or not torch.equal(backl.long(), flat):
                fail('C13:roundtrip', f'logit-type converter: labels {lab[:12]} -> numerical -> labels gives {backl.reshape(-1).tolist()[:12]}')
            xl = torch.cat([torch.randn(8, 1, generator=g2) * 2.0, torch.zeros(1, 1)])
            ll = convl.numerical_to_labels(xl)
            want = (torch.sigmoid(xl[:, 0]) > 0.5).long()
            if not torch.equal(ll.long(), want):
                fail('C13:invalid-label', f'logit-type converter: logits {xl[:, 0].tolist()} decode to {ll.tolist()}, arg-max of the sigmoid row {want.tolist()}')
        except Exception as e:  # noqa: BLE001
            fail(f'C13:raises:{type(e).__name__}', f'logit-type converter: {e}')

    # ---------------- correspondence with the Lean model on Float ----------------
    dis = res['disagreements']
    Xd = X.double().numpy()
    P1n, P2n, L1n = P1.double().numpy(), P2.double().numpy(), L1.numpy()
    if mode == 'prevalence':
        I = torch.eye(K, dtype=torch.float32)
        Q, _ = torch.linalg.qr(I[:, :-1] - I[:, [-1]], mode='reduced')     # the oracle value the code saw
        if not torch.equal(conv._C, Q - conv._prior @ Q):
            dis.append({'detail': 'recomputed QR factor does not reproduce the stored codes bit-exactly'})
        qj = core.fl(Q.double())
        m = drv.ask({'op': 'qcontract', 'Q': qj})
        if 'error' in m:
            dis.append({'detail': f'qcontract: {m["error"]}'})
        else:
            devs = {k: core.b2f(m[k]) for k in ('orthDev', 'projDev', 'colsumDev')}
            if max(devs.values()) > tol(K):
                dis.append({'detail': f'QR output violates the oracle contract: {devs} (allowance {tol(K):.3g})',
                            'signature': 'C13:q-contract'})
        m = drv.ask({'op': 'codes', 'Q': qj, 'counts': counts})
        if 'error' in m:
            dis.append({'detail': f'codes: {m["error"]}'})
        else:
            mp = np.array(core.unfl(m['prior']))
            mC = np.array(core.unfl(m['C'])).reshape(K, K - 1)
            if np.abs(mp - conv._prior.double().numpy()).max() > 2 * U32:
                dis.append({'detail': f'prior: impl {conv._prior.tolist()} model {mp.tolist()}'})
            if np.abs(mC - conv._C.double().numpy()).max() > tol(K):
                dis.append({'detail': f'codes differ by {np.abs(mC - conv._C.double().numpy()).max()!r}'})
        invA = conv._invA.double().numpy()
        m = drv.ask({'op': 'invcheck', 'Q': qj, 'counts': counts, 'invA': core.fl(invA)})
        expl_dev = 0.0
        if 'error' in m:
            dis.append({'detail': f'invcheck: {m["error"]}'})
        else:
            devs = {k: core.b2f(m[k]) for k in ('rightDev', 'leftDev', 'explicitDev')}
            expl_dev = devs['explicitDev']
            if max(devs.values()) > tol(K):
                dis.append({'detail': f'stored _invA is not the inverse of the model A / not [Q|prior]: {devs} '
                                      f'(allowance {tol(K):.3g})'})
        m = drv.ask({'op': 'encode', 'mode': mode, 'K': K, 'labels': lab, 'Q': qj, 'counts': counts})
        if 'error' in m:
            dis.append({'detail': f'encode: {m["error"]}'})
        else:
            mrows = np.array(core.unfl(m['rows'])).reshape(N, K - 1)
            if tuple(num.shape) == mrows.shape and np.abs(mrows - num.double().numpy()).max() > tol(K):
                dis.append({'detail': f'encoded targets differ by {np.abs(mrows - num.double().numpy()).max()!r}'})
        # decode with the code's own stored inverse: float32 matmul error  <= ~K u sum_c |invA_kc B_c|
        B = np.concatenate([Xd, np.ones((len(Xd), 1))], 1)
        S = np.abs(B) @ np.abs(invA).T
        delta = 4 * K * U32 * S
        for e, Pn, Ln in ((1e-3, P1n, L1n), (eps2, P2n, None)):
            m = drv.ask({'op': 'decode', 'mode': mode, 'rows': core.fl(Xd), 'eps': core.f2b(e), 'invA': core.fl(invA)})
            compare_decode(np, res, f'decode(invA, eps={e})', m, Pn, Ln, delta, e, K, stats)
        # decode in the explicit form prior + Q v: adds the deviation of _invA from [Q | prior]
        delta2 = delta + (expl_dev + 2 * U32) * np.abs(B).sum(1, keepdims=True)
        m = drv.ask({'op': 'decode', 'mode': mode, 'rows': core.fl(Xd), 'eps': core.f2b(1e-3), 'Q': qj, 'counts': counts})
        compare_decode(np, res, 'decode(prior + Q v)', m, P1n, L1n, delta2, 1e-3, K, stats)
    else:
        m = drv.ask({'op': 'encode', 'mode': mode, 'K': K, 'labels': lab})
        if 'error' in m:
            dis.append({'detail': f'encode: {m["error"]}'})
        else:
            mrows = np.array(core.unfl(m['rows'])).reshape(N, -1)
            if mrows.shape != tuple(num.shape) or not np.array_equal(mrows, num.double().numpy()):
                dis.append({'detail': f'encoded targets differ: impl {num.tolist()[:4]} model {mrows.tolist()[:4]}'})
        if X.shape[1] == 1:   # `1 - num` is rounded in float32
            delta = np.concatenate([2 * U32 * np.abs(1 - Xd), np.zeros_like(Xd)], 1)
        else:
            delta = np.zeros_like(Xd)
        for e, Pn, Ln in ((1e-3, P1n, L1n), (eps2, P2n, None)):
            m = drv.ask({'op': 'decode', 'mode': mode, 'rows': core.fl(Xd), 'eps': core.f2b(e)})
            compare_decode(np, res, f'decode(eps={e})', m, Pn, Ln, delta, e, K, stats)

    res['nontrivial'] = [mode, K, counts, p['shape'], p['order_seed'], p['dseed']]
    res['dist'] = {'K': K, 'mode': mode, 'label_shape': p['shape'] if N > 1 else p['shape'] + ',N=1',
                   'zero_count_classes': sum(1 for c in counts if c == 0),
                   'imbalance': ('single-class' if sum(1 for c in counts if c) == 1 else
                                 'heavy' if max(counts) >= 25 * max(1, min(c for c in counts if c)) else 'mild'),
                   'decode_vacuous_rows': stats['vacuous_rows'], 'decode_rows': stats['rows'],
                   'argmax_tie_rows_skipped': stats['tie_rows']}
    res['sample'] = {'mode': mode, 'K': K, 'counts': counts, 'label_shape': list(labels.shape),
                     'decoder_rows': int(X.shape[0]), 'max_abs_input': float(X.abs().max()),
                     'max_diff_over_allowance': stats['max_ratio']}
    return res


def execute(chunk):
    drv = core.Driver('C13')
    out = []
    try:
        for p in chunk['cases']:
            out.append(run_case(p, drv))
    finally:
        drv.close()
    return out


# ------------------------------------------------------------------------------------------------
def gen_cases(run):
    r = run.rng
    quick = run.tier == 'quick'
    cases = []

    def add(family, mode, counts, shape=None, per_scale=None):
        cases.append(dict(family=family, mode=mode, K=len(counts), counts=list(counts),
                          shape=shape or r.choice(['flat', 'col']), order_seed=r.randint(0, 10 ** 6),
                          dseed=r.randint(0, 10 ** 6), per_scale=per_scale or (3 if quick else 8),
                          # eps = 0 (clamp to [0,1]) is inside the claim where the affine decode sums to one (prevalence mode, binary
                          # column): Props/C13 decode_valid_eps0; for zero_one K >= 3 an all-non-positive row divides by zero there
                          eps2=r.choice([1e-6, 1e-2, 0.2, 0.45] + ([0.0, 0.0] if (mode == 'prevalence' or len(counts) == 2) else []))))

    # exhaustive count vectors, entries in {0,1,2,5,50}, not all zero
    for K in range(2, (3 if quick else 4) + 1):
        for c in itertools.product(ENTRIES, repeat=K):
            if sum(c) == 0:
                continue
            if K <= 3:
                add('exhaustive-counts', 'prevalence', c, 'flat')
                add('exhaustive-counts', 'prevalence', c, 'col')
            else:
                add('exhaustive-counts', 'prevalence', c)
    # grid for K <= 12: balanced, single class, heavy imbalance, zeros in every position pattern
    for K in range(2, 13):
        pats = [[1] * K, [40] * K, [0] * (K - 1) + [1], [1] + [0] * (K - 1), [3000] + [1] * (K - 1),
                [1] * (K - 1) + [3000], [2000, 1] + [0] * (K - 2), [0] * (K - 2) + [1, 2000],
                [(i % 2) * 7 for i in range(K)], [((i + 1) % 2) * 7 for i in range(K)],
                [2 ** min(i, 11) for i in range(K)], [0 if i == K // 2 else 5 for i in range(K)]]
        for c in pats:
            add('grid-counts', 'prevalence', c)
        for _ in range(4 if quick else 30):
            c = [r.choice([0, 0, 1, 1, 2, 3, 10, 100, 1000]) for _ in range(K)]
            if sum(c) == 0:
                c[r.randrange(K)] = 1
            add('grid-counts', 'prevalence', c)
        # zero_one: binary column (K = 2), one-hot otherwise; counts only fix the label multiset
        for c in pats[:6] + [[r.choice([0, 1, 2, 9]) or (1 if i == 0 else 0) for i in range(K)] for _ in range(2 if quick else 10)]:
            add('zero-one', 'zero_one', c, 'flat')
            add('zero-one', 'zero_one', c, 'col')
    if not quick:
        for _ in range(200):
            K = r.randint(2, 12)
            c = [r.choice([0, 1, 2, 5, 50, 500]) for _ in range(K)]
            if sum(c) == 0:
                c[0] = 1
            add('grid-counts', 'prevalence', c, per_scale=40)
    return cases


def check(run):
    run.rule = ('real ClassificationConverter, both modes: every count vector with entries in {0,1,2,5,50} (not all zero) for '
                'K <= 3 (thorough: K <= 4) in both label-tensor shapes, a grid of balanced / single-class / 1:3000 / '
                'alternating-zero / geometric / random count vectors for K = 2..12, shuffled label orders, N = 1 included; '
                'decoder batches with the zero row, class codes, interior mixtures, [0,1] rows and Gaussian rows at scales '
                '1e-3..1e6; a case is non-trivial when distinct in (mode, K, counts, label shape, order seed, input seed)')
    run.assumptions = ['decoder inputs are finite (NaN/inf are outside the property quantifier)',
                       'labels lie in [0, K) and at least one label is given (the code rejects an empty label tensor)',
                       'theorems are in exact real arithmetic; float32 rounding is absorbed by computed allowances',
                       'torch.linalg.qr / torch.linalg.inv are oracles: contract QtQ = I, QQt = I - J/K and A*invA = I '
                       'are checked on every value the implementation produced']
    run.trusted = ['torch.linalg.qr, torch.linalg.inv, torch.bincount (modelled as oracles, contract checked per case)']
    run.lean()
    cases = gen_cases(run)
    run.extra['exhaustive'] = True
    run.extra['exhaustive_part'] = ('family exhaustive-counts: all count vectors over {0,1,2,5,50}, K <= '
                                    + ('3' if run.tier == 'quick' else '4'))
    run.extra['allowance'] = 'O(1) quantities: 16*K*2^-24; probabilities: (d_i + sum_j d_j)/s + (K+8)*2^-24 with ' \
                             'd = 4*K*2^-24*sum_c|invA_kc B_c| on entries not clearly outside the clamp window'
    if run.driver_ok:
        results = core.pmap(MOD, [{'cases': c} for c in core.chunks(cases, 16)])
        run.absorb('c13', results)


def replay(run, payload):
    run.lean()
    results = core.pmap(MOD, [{'cases': [payload['params']]}], workers=1)
    run.absorb('replay', results)
