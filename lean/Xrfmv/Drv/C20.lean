/- Driver ops for C20: canonical form of a representation descriptor (`Model/Coerce.lean`). -/
import Xrfmv.Drv.Common
import Xrfmv.Model.Coerce

open Lean Xrfmv.Drv

namespace Xrfmv.Drv.C20
open Xrfmv.Coerce

def getContainer (j : Json) : Except String Container := do
  match (← j.getObjValAs? String "container") with
  | "ndarray" => pure .ndarray
  | "tensor" => pure .tensor
  | o => throw s!"bad-op: container {o}"

def getDType (j : Json) : Except String DType := do
  match (← j.getObjValAs? String "dtype") with
  | "float16" => pure .f16 | "float32" => pure .f32 | "float64" => pure .f64
  | "int8" => pure .i8 | "int16" => pure .i16 | "int32" => pure .i32 | "int64" => pure .i64
  | "uint8" => pure .u8 | "bool" => pure .bool
  | "uint16" => pure .u16 | "uint32" => pure .u32 | "uint64" => pure .u64
  | o => throw s!"bad-op: dtype {o}"

def getShape (j : Json) : Except String Shape := do
  match (← j.getObjValAs? String "shape") with
  | "vec" => pure .vec | "col" => pure .col | "mat" => pure .mat
  | o => throw s!"bad-op: shape {o}"

def getLogical (j : Json) : Except String Logical := do
  match (← j.getObjValAs? String "logical") with
  | "reg1" => pure .reg1 | "regK" => pure .regK | "binary" => pure .binary | "multi" => pure .multi
  | o => throw s!"bad-op: logical {o}"

def getMode (j : Json) : Except String Mode := do
  match (← j.getObjValAs? String "mode") with
  | "zero_one" => pure .zeroOne | "prevalence" => pure .prevalence
  | o => throw s!"bad-op: mode {o}"

def dtypeStr : DType → String
  | .f16 => "float16" | .f32 => "float32" | .f64 => "float64" | .i8 => "int8" | .i16 => "int16" | .i32 => "int32"
  | .i64 => "int64" | .u8 => "uint8" | .bool => "bool" | .u16 => "uint16" | .u32 => "uint32" | .u64 => "uint64"

def colsStr : Cols → String
  | .one => "one" | .outs => "outs" | .classes => "classes" | .classesM1 => "classesM1" | .feats => "feats"

def canonJson (outs K d : Nat) (c : Canon) : Json :=
  match c.shape with
  | .vecN => Json.mkObj [("dtype", toJson (dtypeStr c.dtype)), ("ndim", toJson 1)]
  | .matN cs => Json.mkObj [("dtype", toJson (dtypeStr c.dtype)), ("ndim", toJson 2), ("colsTag", toJson (colsStr cs)),
                            ("cols", toJson (cs.eval outs K d))]

def optCanonJson (outs K d : Nat) : Option Canon → Json
  | some c => canonJson outs K d c
  | none => Json.null

/-- `{"op":"coerce","role":"X"|"y","container":..,"dtype":..,"shape":..,"logical":..,"mode":..,"outs":..,"K":..,"d":..}` -/
def opCoerce : Handler := fun j => do
  let r : Rep := { container := ← getContainer j, dtype := ← getDType j, shape := ← getShape j }
  let outs ← j.getObjValAs? Nat "outs"
  let K ← j.getObjValAs? Nat "K"
  let d ← j.getObjValAs? Nat "d"
  match (← j.getObjValAs? String "role") with
  | "X" =>
      pure <| Json.mkObj [("canon", canonJson outs K d (coerceX r)), ("documented", toJson (documentedX r)),
                          ("canonical", toJson (decide (coerceX r = canonX)))]
  | "y" =>
      let l ← getLogical j
      let m ← getMode j
      pure <| Json.mkObj [("canon", optCanonJson outs K d (coerceY l m r)), ("documented", toJson (documentedY l r)),
                          ("isClass", toJson (isClass r)),
                          ("canonical", toJson (decide (coerceY l m r = some (canonY l m))))]
  | "yfc" =>
      let l ← getLogical j
      pure <| Json.mkObj [("canon", optCanonJson outs K d (coerceYFloatClass r)), ("documented", toJson (documentedYFloatClass l r)),
                          ("canonical", toJson (decide (coerceYFloatClass r = canonYFloatClass l)))]
  | o => throw s!"bad-op: role {o}"

/-- `{"op":"output","logical":..,"mode":..,"api":"predict"|"predict_proba","outs":..,"K":..,"d":..}` -/
def opOutput : Handler := fun j => do
  let l ← getLogical j
  let m ← getMode j
  let outs ← j.getObjValAs? Nat "outs"
  let K ← j.getObjValAs? Nat "K"
  let d ← j.getObjValAs? Nat "d"
  let a ← match (← j.getObjValAs? String "api") with
    | "predict" => pure Api.predict
    | "predict_proba" => pure Api.predictProba
    | o => throw s!"bad-op: api {o}"
  pure <| Json.mkObj [("canon", optCanonJson outs K d (output l m a))]

def ops : List (String × Handler) := [("coerce", opCoerce), ("output", opOutput)]

end Xrfmv.Drv.C20
