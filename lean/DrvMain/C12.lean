import Xrfmv.Drv.C12

def main : IO Unit := Xrfmv.Drv.runDriver Xrfmv.Drv.C12.ops
