/- Driver ops for C08: one split node – masks of the rank split and the prediction routing rule. -/
import Xrfmv.Drv.C07
import Xrfmv.Model.RouteAgree

open Lean Xrfmv.Drv

namespace Xrfmv.Drv.C08
open Xrfmv.BuildIndex Xrfmv.Gen.Split Xrfmv.Gen.Route

/-- `{"op":"node","proj":[bits..],"sorted":[..],"thr":bits,"r":int,"val":[bits..]}` →
contract flags, the two masks the model derives from `sorted`, the prediction-rule decision per training
position and the validation-rule decision per validation projection. -/
def opNode : Handler := fun j => do
  let proj ← getFs j "proj"
  let sorted ← j.getObjValAs? (List Nat) "sorted"
  let thr ← getF j "thr"
  let r ← j.getObjValAs? Int "r"
  let vals ← getFs j "val"
  let n := proj.size
  if proj.any Float.isNaN ∨ thr.isNaN then throw "bad-op: NaN projection"
  let isPerm := decide (sorted.length = n) && (List.range n).all (fun i => sorted.contains i)
  let sp := sorted.map fun i => proj.getD i 0.0
  let asc := (List.range (n - 1)).all fun k => decide (sp.getD k 0.0 ≤ sp.getD (k + 1) 0.0)
  let med := sp.getD ((n - 1) / 2) 0.0
  let left := (List.range n).map (sideMask n sorted r .left)
  let right := (List.range n).map (sideMask n sorted r .right)
  let goes := (List.range n).map fun i => goesLeft (proj.getD i 0.0) thr
  let vgoes := vals.toList.map fun v => valGoesLeft v thr
  let pgoes := vals.toList.map fun v => goesLeft v thr
  pure <| Json.mkObj [("isPerm", toJson isPerm), ("ascending", toJson asc), ("medianIsLower", toJson (med == thr)),
    ("left", toJson left), ("right", toJson right), ("goesLeft", toJson goes),
    ("valGoesLeft", toJson vgoes), ("valPredGoesLeft", toJson pgoes)]

def ops : List (String × Handler) := Xrfmv.Drv.C07.ops ++ [("node", opNode)]

end Xrfmv.Drv.C08
