"""
C03 — leaf model selection returns a best-validation iterate for every score history.

Proof: lean/Xrfmv/Props/C03.lean over the regenerated Gen.Select.
Correspondence: the real `RFM.fit` on a tiny data set with *scripted* validation scores versus the
Lean machine (`fitloop` driver op, same Gen.Select), plus the property oracle evaluated directly on
what the implementation returned.
"""
import itertools

from harness import core

MOD = 'harness.props.c03'


# ------------------------------------------------------------------------------------------------
def better(maximize, a, b):
    return a > b if maximize else a < b


def oracle(p, n_evals, tags, best_iter):
    """The property, evaluated on the implementation's observable behaviour. Returns failures."""
    s, it, mx = p['scores'], p['iters'], p['maximize']
    fails = []
    # evaluated prefix / early stop
    expect = it
    if p['early'] and p['return_best']:
        best = None
        for k in range(it):
            best = s[k] if best is None or better(mx, s[k], best) else best
            stop = (s[k] < best / p['mult']) if mx else (s[k] > best * p['mult'])
            if stop:
                expect = k
                break
    if n_evals != expect + 1:
        fails.append(('C03:evaluated-prefix', f'evaluated {n_evals} iterates, property says {expect + 1}'))
    ev = range(min(n_evals, len(s)))
    if p['return_best']:
        common = [j for j in tags['w'] if j in tags['m'] and j in tags['sq'] and (j in tags['bw'] or not p['adaptive'])]
        if not common:
            fails.append(('C03:incoherent-iterate', f'weights/M/sqrtM/bandwidth come from different iterates: {tags}'))
        cand = [j for j in (common or tags['w']) if j in ev]
        if not cand:
            fails.append(('C03:not-an-evaluated-iterate', f'returned weights match no evaluated iterate: {tags}'))
        elif not any(all(not better(mx, s[k], s[j]) for k in ev) for j in cand):
            fails.append(('C03:not-optimal', f'returned iterate {cand} scores {[s[j] for j in cand]}, history {list(s[:n_evals])}'))
    return fails


def run_one(p):
    import torch
    from xrfm.rfm_src import RFM
    from harness.rfmrec import ScriptedFit
    g = torch.Generator().manual_seed(p['dseed'])
    X = torch.randn(6, 3, generator=g, dtype=torch.float64)
    y = torch.randn(6, 1, generator=g, dtype=torch.float64)
    Xv = torch.randn(3, 3, generator=g, dtype=torch.float64)
    yv = torch.randn(3, 1, generator=g, dtype=torch.float64)
    # the metric only enters through its declared direction (scores are scripted): every built-in metric of either direction
    want = p.get('metric') or ('accuracy' if p['maximize'] else 'mse')
    other = 'mse' if p['maximize'] else 'accuracy'
    via = p.get('metric_via', 'ctor')
    # how the tuning metric reaches the leaf model: constructor, fit keyword, fit keyword overriding an opposite-direction
    # constructor value, or a re-fit of an object that was first fitted with the opposite-direction metric
    model = RFM(kernel=p['kernel'], bandwidth=2.0, exponent=1.0, iters=p['iters'], device='cpu', verbose=False,
                bandwidth_mode='adaptive' if p['adaptive'] else 'constant',
                tuning_metric=want if via == 'ctor' else other if via in ('fit-flip', 'refit') else 'mse', diag=p.get('diag', False))
    fit_kw = dict(iters=p['iters'], reg=1e-3, return_best_params=p['return_best'], early_stop_rfm=p['early'],
                  early_stop_multiplier=p['mult'], verbose=False)
    if via == 'refit':
        first = ScriptedFit(model, scores=[1.0] * (p['iters'] + 1))
        model.fit((X, y), (Xv, yv), **fit_kw)
        model = first.model
        # undo the instance-level wrappers of the first recording
        del model.fit_predictor, model._compute_validation_metrics
    if via != 'ctor':
        fit_kw['tuning_metric'] = want
    rec = ScriptedFit(model, scores=p['scores'])
    model.fit((X, y), (Xv, yv), **fit_kw)
    return rec.n_evals, rec.tags(), model.best_iter


def execute(chunk):
    drv = core.Driver('C03')
    out = []
    try:
        for p in chunk['cases']:
            res = {'family': p['family'], 'params': p, 'disagreements': [], 'failures': []}
            try:
                n_evals, tags, best_iter = run_one(p)
            except Exception as e:  # the implementation raising on a valid input is a failing input
                res['failures'].append({'signature': f'C03:fit-raises:{type(e).__name__}', 'detail': str(e)[:300]})
                out.append(res)
                continue
            for sig, detail in oracle(p, n_evals, tags, best_iter):
                res['failures'].append({'signature': sig, 'detail': detail})
            q = {'op': 'fitloop', 'maximize': p['maximize'], 'returnBest': p['return_best'], 'earlyStop': p['early'],
                 'adaptive': p['adaptive'], 'mult': core.f2b(p['mult']), 'iters': p['iters'],
                 'scores': [core.f2b(x) for x in p['scores']]}
            m = drv.ask(q)
            if 'error' in m:
                res['disagreements'].append({'detail': f'model rejects the case: {m["error"]}'})
            else:
                diffs = []
                if len(m['evals']) != n_evals:
                    diffs.append(f'evaluations: impl {n_evals}, model {len(m["evals"])}')
                if m['w'] not in tags['w']:
                    diffs.append(f'weights tag: impl {tags["w"]}, model {m["w"]}')
                if m['m'] not in tags['m']:
                    diffs.append(f'M tag: impl {tags["m"]}, model {m["m"]}')
                if p['kernel'] == 'l2' and m['sq'] not in tags['sq']:
                    diffs.append(f'sqrtM tag: impl {tags["sq"]}, model {m["sq"]}')
                if p['adaptive'] and m['bw'] not in tags['bw']:
                    diffs.append(f'bandwidth tag: impl {tags["bw"]}, model {m["bw"]}')
                if p['return_best'] and m['bestIter'] != best_iter:
                    diffs.append(f'best_iter: impl {best_iter}, model {m["bestIter"]}')
                if diffs:
                    res['disagreements'].append({'detail': '; '.join(diffs)})
            s = p['scores'][:n_evals]
            res['nontrivial'] = [p['scores'], p['maximize'], p['early'], p['mult'], p['iters'], p['return_best'],
                                 p['adaptive'], p['kernel']] if len(set(s)) > 1 or p['iters'] == 0 else None
            res['dist'] = {'iters': p['iters'], 'evaluated': n_evals, 'selected_pos':
                           ('first' if m.get('w') == 0 else 'last' if m.get('w') == p['iters'] else 'middle'),
                           'metric_via': p.get('metric_via', 'ctor'),
                           'stopped_early': n_evals < p['iters'] + 1}
            res['sample'] = {'scores': p['scores'], 'maximize': p['maximize'], 'early': p['early'], 'mult': p['mult'],
                             'impl': {'evals': n_evals, 'tags': tags, 'best_iter': best_iter}, 'model': m}
            out.append(res)
    finally:
        drv.close()
    return out


# ------------------------------------------------------------------------------------------------
def gen_cases(run):
    cases = []
    maxlen = 4 if run.tier == 'quick' else 6
    # exhaustive: alphabet {0,1,2}, all histories of length iters+1, iters = 0..maxlen
    for iters in range(0, maxlen + 1):
        for hist in itertools.product([0.0, 1.0, 2.0], repeat=iters + 1):
            for mx in (False, True):
                for early, mult in ((False, 1.1), (True, 1.0), (True, 1.1), (True, 1.5)):
                    cases.append(dict(family='exhaustive-alphabet3', scores=list(hist), iters=iters, maximize=mx,
                                      early=early, mult=mult, return_best=True, adaptive=False, kernel='l2',
                                      dseed=iters))
    # random real-valued histories with ties and plateaus, all flag combinations
    r = run.rng
    n_rand = 300 if run.tier == 'quick' else 2500
    for k in range(n_rand):
        iters = r.randint(0, 5)
        pool = [round(r.uniform(0.05, 3.0), 3) for _ in range(r.randint(1, 4))]
        hist = [r.choice(pool) if r.random() < 0.6 else round(r.uniform(0.05, 3.0), 3) for _ in range(iters + 1)]
        cases.append(dict(family='random-histories', scores=hist, iters=iters, maximize=r.random() < 0.5,
                          early=r.random() < 0.6, mult=r.choice([1.0, 1.05, 1.1, 1.25, 1.5]),
                          return_best=r.random() < 0.8, adaptive=r.random() < 0.5,
                          kernel=r.choice(['l2', 'l2_high_dim']), diag=r.random() < 0.3, dseed=r.randint(0, 10 ** 6),
                          metric_via=r.choice(['ctor', 'fit', 'fit-flip', 'refit'])))
        cases[-1]['metric'] = r.choice(['accuracy', 'f1', 'auc']) if cases[-1]['maximize'] else r.choice(['mse', 'rmse', 'mae', 'brier', 'logloss'])
        # scores in other units (losses of tiny or huge targets): selection and early stopping compare scores, they do not
        # measure them against an absolute resolution
        sc = r.choice([1.0, 1.0, 1.0, 1e-8, 1e-6, 1e6])
        cases[-1]['scores'] = [x * sc for x in cases[-1]['scores']]
    return cases


def check(run):
    run.rule = ('real RFM.fit on 6 rows with scripted validation scores; exhaustive over alphabet {0,1,2} and all '
                'history lengths up to the budget x direction x early-stop x multiplier, plus seeded random histories '
                'with ties over all flag combinations; a case is non-trivial when its evaluated scores are not all equal')
    run.assumptions = ['scores are finite and not NaN (outside the property quantifier)',
                       'time_limit_s is None (wall-clock limit not modelled)']
    run.lean()
    cases = gen_cases(run)
    run.extra['exhaustive'] = True
    run.extra['exhaustive_part'] = 'family exhaustive-alphabet3'
    if run.driver_ok:
        results = core.pmap(MOD, [{'cases': c} for c in core.chunks(cases, 64)])
        run.absorb('c03', results)


def replay(run, payload):
    run.lean()
    results = core.pmap(MOD, [{'cases': [payload['params']]}], workers=1)
    run.absorb('replay', results)
