#!/usr/bin/env python3
"""Print the markdown table of DESIGN.md §11.5 from seeded/*/meta.json."""
import glob
import json
import os
import re

HERE = os.path.dirname(os.path.dirname(os.path.abspath(__file__)))


def one_line(s, n=150):
    s = re.sub(r'\s+', ' ', s).strip()
    return s if len(s) <= n else s[: n - 1] + '…'


def main():
    rows = []
    for f in sorted(glob.glob(os.path.join(HERE, 'seeded', '*', 'meta.json'))):
        m = json.load(open(f))
        notes = os.path.join(os.path.dirname(f), 'notes.md')
        title = ''
        if os.path.exists(notes):
            first = open(notes).read().strip().split('\n')[0]
            title = re.sub(r'^#+\s*', '', first)
            title = re.sub(r'^C\d+-[a-z]\s*[—:-]\s*', '', title)
        det = 'failing input' if m.get('detected_with_failing_input') else ('no-failing-input-found' if m.get('detected') else 'MISSED')
        first = m.get('first_run', 'caught on the first run')
        rows.append(f"| {m['id']} | {one_line(title, 120)} | {m['property']}: {det} | {one_line(first, 160)} |")
    print('| id | change | caught by (final machinery) | first run / what was strengthened |')
    print('|---|---|---|---|')
    print('\n'.join(rows))


if __name__ == '__main__':
    main()
