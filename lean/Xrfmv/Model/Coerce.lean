/-
Model of the input coercion performed by `xRFM.fit` / `predict` / `predict_proba` (xrfm.py), `RFM.validate_data`
(recursive_feature_machine.py) and `ClassificationConverter.labels_to_numerical` (class_conversion.py), at the level
of (container, dtype, shape).  Value-level conversion (float64 -> float32 rounding, int -> float) is torch's and is
not modelled.  Mathlib-free, finite, everything decidable.

  features  `if not isinstance(X, torch.Tensor): X = torch.tensor(X, dtype=torch.float32)`   -- tensors KEEP their dtype
  targets   `y = torch.as_tensor(y)`                                                           -- keeps dtype
            task: classification iff `not y.is_floating_point()` (when `tuning_metric` is None)
            regression:      `y = y.float()`; `(n,) -> (n,1)`
            classification:  `labels_to_numerical`: zero_one K=2 `labels.float().reshape(-1,1)`; zero_one K>2
                             `one_hot(labels.long().reshape(-1), K).float()`; prevalence `C[labels.long().reshape(-1)]` (K-1 columns)
  leaf      `RFM.validate_data`: tensors pass through `.to(device)`; 1-D targets get a trailing axis
  outputs   predict: regression `pred.cpu().numpy()` (n, outputs) float32; classification
            `numerical_to_labels(pred)` = argmax -> (n,) int64;  predict_proba: `numerical_to_probas` -> (n, K) float32

Column counts are symbolic (`Cols`): they depend on the number of outputs / classes of the *data*, not on its
representation; `Cols.eval` interprets them.
The dtypes the containers are converted to, the widening of integer targets and the vector→column rule are data of the
regenerated `Xrfmv.Gen.Coerce` (read off `xRFM.fit` / `predict` / `predict_proba` on every run).
-/
import Xrfmv.Gen.Coerce

namespace Xrfmv.Coerce

inductive Container | ndarray | tensor
  deriving DecidableEq, Repr

inductive DType | f16 | f32 | f64 | i8 | i16 | i32 | i64 | u8 | bool | u16 | u32 | u64
  deriving DecidableEq, Repr

/-- Shape of what the caller passes: `(n,)`, `(n,1)`, `(n,k)` with `k ≥ 2`. -/
inductive Shape | vec | col | mat
  deriving DecidableEq, Repr

structure Rep where
  container : Container
  dtype : DType
  shape : Shape
  deriving DecidableEq, Repr

/-- What the data *are*, independently of representation. -/
inductive Logical
  | reg1      -- regression, one output
  | regK      -- regression, `outs ≥ 2` outputs
  | binary    -- integer labels, 2 classes
  | multi     -- integer labels, `K ≥ 3` classes
  deriving DecidableEq, Repr

inductive Mode | zeroOne | prevalence
  deriving DecidableEq, Repr

/-- Symbolic number of columns of a 2-D tensor. -/
inductive Cols
  | one        -- 1
  | outs       -- number of regression outputs
  | classes    -- K
  | classesM1  -- K - 1
  | feats      -- d
  deriving DecidableEq, Repr

def Cols.eval (outs K d : Nat) : Cols → Nat
  | .one => 1
  | .outs => outs
  | .classes => K
  | .classesM1 => K - 1
  | .feats => d

/-- Shape of a tensor inside the library / of an output array. -/
inductive TShape
  | vecN                 -- (n,)
  | matN (c : Cols)      -- (n, c)
  deriving DecidableEq, Repr

structure Canon where
  dtype : DType
  shape : TShape
  deriving DecidableEq, Repr

/-- torch dtype names as they appear in the source (`torch.float32`, ...). An unknown name maps to `f16`, which is no
canonical dtype of any documented representation, so the table theorems fail if the source starts using another name. -/
def DType.ofName : String → DType
  | "float32" | "float" => .f32
  | "float64" | "double" => .f64
  | "int64" | "long" => .i64
  | "int32" | "int" => .i32
  | _ => .f16

/-- dtype of features given as arrays, of widened integer targets, of float targets — from the regenerated facts. -/
def genFeatureDType : DType := DType.ofName Xrfmv.Gen.Coerce.featuresArrayDType
def genFloatTargetDType : DType := DType.ofName Xrfmv.Gen.Coerce.floatTargetsCastTo
/-- `(n,)` targets become `(n,1)` iff the source still unsqueezes both training and validation targets. -/
def genVecToCol : Bool := Xrfmv.Gen.Coerce.vectorTargetsBecomeColumns && Xrfmv.Gen.Coerce.validationTargetsTreatedLikeTraining

def DType.isFloat : DType → Bool
  | .f16 | .f32 | .f64 => true
  | _ => false

/-- dtypes torch implements `max` / `cat` / `float()` for.  The unsigned 16/32/64-bit types that `torch.as_tensor`
produces from NumPy arrays are storage-only; `xRFM.fit` therefore brings integer (non-bool) targets to int64 on entry
(a defect repaired by a `fix:` commit: before, `y_train_and_val.max()` raised NotImplementedError for them). -/
def DType.torchNative : DType → Bool
  | .u16 | .u32 | .u64 => false
  | _ => true

/-! ### features -/

/-- `xRFM.fit` / `predict` / `predict_proba` / `get_grads`: what the tree builder and the leaves see. -/
def coerceX (r : Rep) : Canon :=
  let dt := match r.container with
    | .ndarray => genFeatureDType           -- torch.tensor(X, dtype=torch.<Gen.Coerce.featuresArrayDType>)
    | .tensor => if Xrfmv.Gen.Coerce.featureTensorsKeepDType then r.dtype else genFeatureDType   -- X.to(device): dtype kept
  -- the shape is never touched: a 1-D array stays 1-D (and `X.shape[1]` then raises); `(n,1)` is `(n,d)` with d = 1
  { dtype := dt, shape := match r.shape with | .vec => .vecN | .col => .matN .feats | .mat => .matN .feats }

def canonX : Canon := { dtype := .f32, shape := .matN .feats }

/-- Documented feature representations: float32 tensors, float32 / float64 arrays, 2-D. -/
def documentedX (r : Rep) : Bool :=
  (r.shape == .mat || r.shape == .col) &&
  match r.container, r.dtype with
  | .tensor, .f32 => true
  | .ndarray, .f32 => true
  | .ndarray, .f64 => true
  | _, _ => false

/-! ### targets -/

/-- Task inferred by `xRFM.fit` when `tuning_metric is None`: classification iff the dtype is not floating. -/
def isClass (r : Rep) : Bool := !r.dtype.isFloat

/-- Number of columns after label encoding. -/
def encodedCols (l : Logical) (m : Mode) : Cols :=
  match m, l with
  | .zeroOne, .binary => .one
  | .zeroOne, _ => .classes
  | .prevalence, _ => .classesM1

/-- `xRFM.fit`: the target tensor handed to `_build_tree` (and, unchanged by `RFM.validate_data`, to every leaf).
`none` = the call raises before reaching a leaf (unsigned 16/32/64-bit labels). -/
def coerceY (l : Logical) (m : Mode) (r : Rep) : Option Canon :=
  if isClass r then
    -- integer labels are converted to int64 on entry (every integer width, signed or unsigned) - as long as the
    -- regenerated fact says so: without the widening torch has no `max` / `cat` for the unsigned 16/32/64-bit dtypes;
    -- labels_to_numerical: reshape(-1) first, so (n,) and (n,1) agree; an (n,k) label matrix would be flattened
    if DType.ofName Xrfmv.Gen.Coerce.intTargetsWidenedTo != .i64 && !r.dtype.torchNative then none
    else some { dtype := .f32, shape := .matN (encodedCols l m) }
  else
    -- y.float(); unsqueeze(-1) when 1-D
    some { dtype := genFloatTargetDType,
           shape := match r.shape with | .vec => (if genVecToCol then .matN .one else .vecN) | .col => .matN .one | .mat => .matN .outs }

/-- The canonical target tensor of each kind of data. -/
def canonY (l : Logical) (m : Mode) : Canon :=
  match l with
  | .reg1 => { dtype := .f32, shape := .matN .one }
  | .regK => { dtype := .f32, shape := .matN .outs }
  | .binary | .multi => { dtype := .f32, shape := .matN (encodedCols l m) }

/-- Documented target representations of each kind of data: tensors or arrays; float targets in 32 or 64 bit shaped
`(n,)`/`(n,1)` (one output) or `(n,k)`; integer labels of any integer width (signed or unsigned) shaped `(n,)` or `(n,1)`. -/
def documentedY (l : Logical) (r : Rep) : Bool :=
  match l with
  | .reg1 => (r.dtype == .f32 || r.dtype == .f64) && (r.shape == .vec || r.shape == .col)
  | .regK => (r.dtype == .f32 || r.dtype == .f64) && r.shape == .mat
  | .binary | .multi =>
      (r.dtype == .i8 || r.dtype == .i16 || r.dtype == .i32 || r.dtype == .i64 || r.dtype == .u8 ||
       r.dtype == .u16 || r.dtype == .u32 || r.dtype == .u64) &&
      (r.shape == .vec || r.shape == .col)

/-! ### float targets together with a classification metric ("already binarized / one-hot encoded") -/

/-- `xRFM.fit` with `tuning_metric` naming a classification metric and floating-point targets: training **and**
validation targets are brought to float32, and a 1-D vector becomes a column; no label encoding takes place (the
converter is built from the number of columns).  Two defects were repaired here by a `fix:` commit: before, only the
training targets were reshaped (a `(n,)` validation vector then failed in the first refill after a split) and 64-bit
floats were passed through to the solver (which raised on the dtype mismatch).  `none`: the branch is not taken. -/
def coerceYFloatClass (r : Rep) : Option Canon :=
  if r.dtype.isFloat then
    some { dtype := genFloatTargetDType,
           shape := match r.shape with | .vec => (if genVecToCol then .matN .one else .vecN) | .col => .matN .one | .mat => .matN .classes }
  else none

/-- Canonical pre-encoded targets: one `{0,1}` (or `{-1,1}`) column for binary, `K` one-hot columns for multiclass. -/
def canonYFloatClass : Logical → Option Canon
  | .binary => some { dtype := .f32, shape := .matN .one }
  | .multi => some { dtype := .f32, shape := .matN .classes }
  | _ => none

/-- Documented pre-encoded representations: tensors or arrays, 32- or 64-bit floats; `(n,)` / `(n,1)` for binary,
`(n,K)` for one-hot multiclass. -/
def documentedYFloatClass (l : Logical) (r : Rep) : Bool :=
  (r.dtype == .f32 || r.dtype == .f64) &&
  match l with
  | .binary => r.shape == .vec || r.shape == .col
  | .multi => r.shape == .mat
  | _ => false

/-! ### outputs -/

inductive Api | predict | predictProba
  deriving DecidableEq, Repr

/-- `numerical_to_probas`: a single column becomes `[1-p, p]`; prevalence codes decode to K columns. -/
def probaCols : Cols → Cols
  | .one => .classes          -- K = 2
  | .classes => .classes
  | .classesM1 => .classes
  | c => c

/-- Output array (always a NumPy array) computed from the canonical leaf target shape. `none`: the call is not
available (predict_proba of a regression model). -/
def output (l : Logical) (m : Mode) (a : Api) : Option Canon :=
  match canonY l m with
  | { dtype := _, shape := .matN c } =>
    match l, a with
    | .reg1, .predict | .regK, .predict => some { dtype := .f32, shape := .matN c }
    | .reg1, .predictProba | .regK, .predictProba => none
    | _, .predict => some { dtype := .i64, shape := .vecN }            -- argmax over probabilities
    | _, .predictProba => some { dtype := .f32, shape := .matN (probaCols c) }
  | _ => none

/-- The documented output formats. -/
def documentedOutput (l : Logical) (a : Api) : Option Canon :=
  match l, a with
  | .reg1, .predict => some { dtype := .f32, shape := .matN .one }
  | .regK, .predict => some { dtype := .f32, shape := .matN .outs }
  | .binary, .predict | .multi, .predict => some { dtype := .i64, shape := .vecN }
  | .binary, .predictProba | .multi, .predictProba => some { dtype := .f32, shape := .matN .classes }
  | _, .predictProba => none

/-! ### enumeration (the finite table) -/

def allContainers : List Container := [.ndarray, .tensor]
def allDTypes : List DType := [.f16, .f32, .f64, .i8, .i16, .i32, .i64, .u8, .bool, .u16, .u32, .u64]
def allShapes : List Shape := [.vec, .col, .mat]
def allLogical : List Logical := [.reg1, .regK, .binary, .multi]
def allModes : List Mode := [.zeroOne, .prevalence]
def allApis : List Api := [.predict, .predictProba]

def allReps : List Rep :=
  allContainers.flatMap fun c => allDTypes.flatMap fun d => allShapes.map fun s => ⟨c, d, s⟩

end Xrfmv.Coerce
