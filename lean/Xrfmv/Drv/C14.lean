/- Driver ops for C14 (none yet). -/
import Xrfmv.Drv.Common

namespace Xrfmv.Drv.C14

def ops : List (String × Handler) := []

end Xrfmv.Drv.C14
