import Xrfmv.Drv.C20

def main : IO Unit := Xrfmv.Drv.runDriver Xrfmv.Drv.C20.ops
