/- Driver ops for C02 (none yet). -/
import Xrfmv.Drv.Common

namespace Xrfmv.Drv.C02

def ops : List (String × Handler) := []

end Xrfmv.Drv.C02
