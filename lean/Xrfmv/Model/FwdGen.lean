/-
The closed-form kernels of the three autograd-differentiated routines evaluated through the **regenerated** `forward_func`
closures (`Xrfmv.Gen.FwdOps`).  `Props/C04.lean` relates them to `Model/Grad.lean`.
-/
import Xrfmv.Model.Grad
import Xrfmv.Gen.FwdOps

namespace Xrfmv.FwdGen
open Xrfmv Xrfmv.Grad Xrfmv.FwdProg

section
variable {α : Type} [Add α] [Sub α] [Mul α] [Div α] [Neg α] [OfNat α 0] [OfNat α 1] [OfNat α 2]
  [Max α] [LT α] [DecidableLT α] [BEq α] [HasExp α] [HasRpow α] [HasAbs α] [HasSqrt α]

/-- attributes read by the closures; `dim` = `x.shape[-1]` -/
def toOps (P : Grad.Params α) (dim : α) : KernelOps.Params α :=
  { bandwidth := P.L, exponent := P.q, p := P.p, constMix := P.cmix, power := P.power, dim := dim, eps := P.eps,
    baseBandwidth := 0 }

/-- the summand of `forward_func` for the pair (`u` = transformed center, `v` = transformed query point) -/
def kProd (P : Grad.Params α) (u v : List α) : α :=
  pairValue (Gen.FwdOps.product (toOps P 0)) (pNorm P.q (vsub v u))

def kLpq (P : Grad.Params α) (u v : List α) : α :=
  pairValue (Gen.FwdOps.lpq (toOps P 0)) (pNorm P.p (vsub v u))

def kSumPower (P : Grad.Params α) (u v : List α) : α :=
  pairValueCoords (Gen.FwdOps.sumPower (toOps P (lenS (vsub v u)))) (vsub v u)

end
end Xrfmv.FwdGen
