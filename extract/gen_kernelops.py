"""
Translator recipes: Gen.KernelOps <- `_get_kernel_matrix_impl` of LaplaceKernel, LightLaplaceKernel, ProductLaplaceKernel,
LpqLaplaceKernel and SumPowerLaplaceKernel (xrfm/rfm_src/kernels.py).

Each of these functions creates a matrix (`torch.cdist` of the transformed points, the three quadratic forms of the
memory-light kernel, or the coordinate differences of the sum-power kernel) and then applies a chain of in-place element-wise
tensor operations to it.  The recipe walks the statements of the function body in order and emits the chain as a value of
`Xrfmv.KernelOps.Pipeline` (interpreter: lean/Xrfmv/Model/KernelOps.lean), with every scalar argument translated as an
expression over the attributes of the kernel object, plus a `BandwidthUse` record saying where along the chain
`self.bandwidth` is read relative to the `_adapt_bandwidth` call.  Anything the walker does not understand raises
`Unsupported` (the pinned text is then used and the correspondence decides).

`Props/C05.lean` proves that the regenerated chains compute the closed forms of `Model/Kernel.lean` at `ℝ`;
`Drv/C05.lean` runs them at `Float` next to the hand-written model on every kernel matrix of the C05 correspondence.
"""
import ast

import py2lean
from py2lean import U, Unsupported, strip_doc

K_PY = 'xrfm/rfm_src/kernels.py'

HEADER = '''open Xrfmv Xrfmv.KernelOps
variable {α : Type} [Add α] [Sub α] [Mul α] [Div α] [Neg α] [OfNat α 0] [OfNat α 1] [OfNat α 2] [BEq α] [HasRpow α]'''

ATTRS = {'self.bandwidth': 'P.bandwidth', 'self.exponent': 'P.exponent', 'self.p': 'P.p',
         'self.const_mix': 'P.constMix', 'self.power': 'P.power', 'self.eps': 'P.eps', 'self.base_bandwidth': 'P.baseBandwidth'}

TX = 'self._transform_m(x, mat)'
TZ = 'self._transform_m(z, mat)'


class Scalar:
    """Python scalar expression -> Lean term over `P : Params α`; records whether `self.bandwidth` is read."""

    def __init__(self, env):
        self.env = dict(ATTRS)
        self.env.update(env)
        self.reads_bandwidth = False

    def lit(self, v):
        if isinstance(v, bool) or not isinstance(v, (int, float)):
            raise Unsupported(f'literal {v!r}')
        if float(v) not in (0.0, 1.0, 2.0):
            raise Unsupported(f'literal {v!r} (only 0, 1, 2 are available without further instances)')
        return f'({int(v)} : α)'

    def expr(self, n):
        key = U(n)
        if key in self.env:
            if key == 'self.bandwidth':
                self.reads_bandwidth = True
            return self.env[key]
        if isinstance(n, ast.Constant):
            return self.lit(n.value)
        if isinstance(n, ast.UnaryOp) and isinstance(n.op, ast.USub):
            return f'(-{self.expr(n.operand)})'
        if isinstance(n, ast.BinOp):
            a, b = self.expr(n.left), self.expr(n.right)
            sym = {ast.Add: '+', ast.Sub: '-', ast.Mult: '*', ast.Div: '/'}.get(type(n.op))
            if sym:
                return f'({a} {sym} {b})'
            if isinstance(n.op, ast.Pow):
                return f'(rpow {a} {b})'
            raise Unsupported(f'operator {type(n.op).__name__} in `{key}`')
        raise Unsupported(f'scalar expression `{key}`')

    def test(self, n):
        if isinstance(n, ast.Compare) and len(n.ops) == 1 and isinstance(n.ops[0], ast.NotEq):
            return f'({self.expr(n.left)} != {self.expr(n.comparators[0])})'
        raise Unsupported(f'guard `{U(n)}`')


def _kw(call, name, default=None):
    for k in call.keywords:
        if k.arg == name:
            return k.value
    return default


class Walker:
    def __init__(self, fname):
        self.fname = fname
        self.init = None
        self.mat = None            # name of the tensor the chain works on
        self.stage = 'post'
        self.pre, self.post = [], []
        self.adapt_at = None
        self.reads_at = []
        self.env = {}              # local scalar names -> (lean term, position of the read of self.bandwidth or None)
        self.names = {}            # local tensor names of the light / sum-power preambles
        self.returned = False

    # -- helpers ---------------------------------------------------------------------------------
    def ops(self):
        return self.pre if self.stage == 'pre' else self.post

    def scalar(self, node):
        s = Scalar({k: v[0] for k, v in self.env.items()})
        term = s.expr(node)
        pos = len(self.post)
        if s.reads_bandwidth:
            self.reads_at.append(pos if self.stage == 'post' else -1)
        for k, v in self.env.items():    # a local that was computed from the bandwidth earlier: the read happened there
            if v[1] is not None and any(isinstance(m, ast.Name) and m.id == k for m in ast.walk(node)):
                self.reads_at.append(v[1])
        return term

    def elementwise(self, call):
        """`M.op_(args)` -> Lean `Op`"""
        name = call.func.attr
        args, kws = call.args, {k.arg: k.value for k in call.keywords}
        if name == 'clamp_' and not args and set(kws) == {'min'}:
            return f'.clampMin {self.scalar(kws["min"])}'
        if name in ('sqrt_', 'abs_', 'exp_') and not args and not kws:
            return '.' + name[:-1]
        if name in ('pow_', 'mul_', 'add_') and len(args) == 1 and not kws:
            return f'.{name[:-1]} {self.scalar(args[0])}'
        raise Unsupported(f'{self.fname}: tensor operation `{U(call)}`')

    def is_chain_call(self, s):
        return (isinstance(s, ast.Expr) and isinstance(s.value, ast.Call) and isinstance(s.value.func, ast.Attribute)
                and isinstance(s.value.func.value, ast.Name) and s.value.func.value.id == self.mat)

    def cdist(self, node, xarg=TX):
        """`torch.cdist(T(x), T(z)[, p=E])` -> Lean term of p"""
        if not (isinstance(node, ast.Call) and U(node.func) == 'torch.cdist' and len(node.args) == 2):
            return None
        if U(node.args[0]) != xarg or U(node.args[1]) != TZ:
            raise Unsupported(f'{self.fname}: cdist arguments `{U(node.args[0])}`, `{U(node.args[1])}`')
        if any(k.arg != 'p' for k in node.keywords):
            raise Unsupported(f'{self.fname}: cdist keywords')
        p = _kw(node, 'p')
        return '(2 : α)' if p is None else Scalar({}).expr(p)

    # -- statements ------------------------------------------------------------------------------
    def stmt(self, s):
        if self.returned:
            raise Unsupported(f'{self.fname}: statement after return')
        txt = U(s)
        if isinstance(s, ast.Return):
            if not (isinstance(s.value, ast.Name) and s.value.id == self.mat):
                raise Unsupported(f'{self.fname}: returns `{txt}`')
            self.returned = True
            return
        if txt == 'n, d = z.shape':       # unused locals of ProductLaplaceKernel
            return
        if self.mat is None:
            return self.creation(s)
        if self.is_chain_call(s):
            self.ops().append(self.elementwise(s.value))
            return
        if isinstance(s, ast.If) and not s.orelse and len(s.body) == 1:
            if txt.replace('\n', ' ').split() == f'if not self.is_adaptive_bandwidth: self._adapt_bandwidth({self.mat})'.split():
                if self.stage != 'post' or self.adapt_at is not None:
                    raise Unsupported(f'{self.fname}: second or misplaced _adapt_bandwidth')
                self.adapt_at = len(self.post)
                self.post.append('.adapt')
                return
            if self.is_chain_call(s.body[0]):
                guard = Scalar({k: v[0] for k, v in self.env.items()}).test(s.test)
                self.ops().append(f'.guarded {guard} ({self.elementwise(s.body[0].value)})')
                return
        if isinstance(s, ast.Assign) and len(s.targets) == 1 and isinstance(s.targets[0], ast.Name):
            tgt = s.targets[0].id
            # the reduction over the feature axis of the sum-power kernel
            if self.stage == 'pre' and U(s.value) == f'{self.mat}.sum(dim=-1)':
                self.stage, self.mat = 'post', tgt
                return
            # a local scalar
            sc = Scalar({k: v[0] for k, v in self.env.items()})
            term = sc.expr(s.value)
            self.env[tgt] = (term, len(self.post) if sc.reads_bandwidth else None)
            return
        raise Unsupported(f'{self.fname}: statement `{txt[:80]}`')

    def creation(self, s):
        txt = U(s)
        if isinstance(s, ast.Assign) and len(s.targets) == 1 and isinstance(s.targets[0], ast.Name):
            tgt = s.targets[0].id
            p = self.cdist(s.value)
            if p is not None:
                self.init, self.mat = f'.cdist {p}', tgt
                return
            self.names[tgt] = U(s.value)
            n = self.names
            if U(s.value) == 'xm_norm_sqr[:, None] - 2 * xm @ z.T + zm_norm_sqr[None, :]':
                want = {'xm': TX, 'zm': TZ, 'xm_norm_sqr': '(xm * x).sum(dim=-1)', 'zm_norm_sqr': '(zm * z).sum(dim=-1)'}
                if any(n.get(k) != v for k, v in want.items()):
                    raise Unsupported(f'{self.fname}: quadratic forms of the light kernel changed: {n}')
                self.init, self.mat = '.lightQuad', tgt
                return
            if U(s.value) == 'x[:, None, :] - z[None, :, :]':
                if n.get('x') != TX or n.get('z') != TZ:
                    raise Unsupported(f'{self.fname}: coordinate differences of untransformed points: {n}')
                self.init, self.mat, self.stage = '.coordDiff', tgt, 'pre'
                self.env['x.shape[1]'] = ('P.dim', None)
                return
            if U(s.value) in (TX, TZ, '(xm * x).sum(dim=-1)', '(zm * z).sum(dim=-1)'):
                return
            raise Unsupported(f'{self.fname}: statement `{txt[:80]}` before the matrix exists')
        # ProductLaplaceKernel: whole matrix at once, or the same cdist in row blocks of `kernel_batch_size`
        if isinstance(s, ast.If) and U(s.test) == 'x.shape[0] <= kernel_batch_size' and len(s.body) == 1 and len(s.orelse) == 2:
            a = s.body[0]
            if not (isinstance(a, ast.Assign) and isinstance(a.targets[0], ast.Name)):
                raise Unsupported(f'{self.fname}: unbatched branch')
            p = self.cdist(a.value)
            tgt = a.targets[0].id
            alloc, loop = s.orelse
            if p is None or U(alloc) != f'{tgt} = torch.empty((x.shape[0], z.shape[0]), device=x.device, dtype=x.dtype)':
                raise Unsupported(f'{self.fname}: batched branch allocation')
            if not (isinstance(loop, ast.For) and U(loop.iter) == 'range(0, x.shape[0], kernel_batch_size)' and U(loop.target) == 'i'
                    and len(loop.body) == 1 and isinstance(loop.body[0], ast.Assign)
                    and U(loop.body[0].targets[0]) == f'{tgt}[i:i + kernel_batch_size]'):
                raise Unsupported(f'{self.fname}: batched branch loop')
            p2 = self.cdist(loop.body[0].value, xarg='self._transform_m(x[i:i + kernel_batch_size], mat)')
            if p2 != p:
                raise Unsupported(f'{self.fname}: the two branches use different norms: {p} / {p2}')
            self.init, self.mat = f'.cdist {p}', tgt
            return
        raise Unsupported(f'{self.fname}: statement `{txt[:80]}` before the matrix exists')


def pipeline(cls, lean_name):
    def recipe(src):
        f = src.func(K_PY, cls, '_get_kernel_matrix_impl')
        w = Walker(f'{cls}._get_kernel_matrix_impl')
        for s in strip_doc(f.body):
            w.stmt(s)
        if not w.returned or w.init is None:
            raise Unsupported(f'{cls}: no matrix returned')
        if -1 in w.reads_at:
            if w.adapt_at is not None:
                raise Unsupported(f'{cls}: bandwidth read per coordinate in a kernel that adapts its bandwidth')
            w.reads_at = [max(r, 0) for r in w.reads_at]
        adapt = 'none' if w.adapt_at is None else f'some {w.adapt_at}'
        reads = ', '.join(str(r) for r in sorted(set(w.reads_at)))
        return (f'/-- `{cls}._get_kernel_matrix_impl`, statement by statement. -/\n'
                f'def {lean_name} (P : Params α) : Pipeline α :=\n'
                f'  {{ init := {w.init}\n'
                f'    pre := [{", ".join(w.pre)}]\n'
                f'    post := [{", ".join(w.post)}] }}\n'
                f'/-- where `{cls}` reads `self.bandwidth` relative to its `_adapt_bandwidth` call (indices into `post`) -/\n'
                f'def {lean_name}BandwidthUse : BandwidthUse := {{ adaptAt := {adapt}, readsAt := [{reads}] }}')
    return recipe


py2lean.register('KernelOps', K_PY, ['Xrfmv.Model.KernelOps'], [
    ('header', py2lean.const(HEADER)),
    ('laplace', pipeline('LaplaceKernel', 'laplace')),
    ('light', pipeline('LightLaplaceKernel', 'light')),
    ('product', pipeline('ProductLaplaceKernel', 'product')),
    ('lpq', pipeline('LpqLaplaceKernel', 'lpq')),
    ('sumPower', pipeline('SumPowerLaplaceKernel', 'sumPower')),
])
