/-
AGOP feature matrix of `RFM.fit_M` / `Kernel.get_agop` / `get_agop_diag` (C14).

`G` is the list of gradient rows of one batch, outputs × points merged (`f_grads.reshape(-1, d)`).
  * full mode      `GᵀG`                      (`f_grads.transpose(-1, -2) @ f_grads`)
  * diagonal mode  `Σ_rows g²`                (`f_grads.square().sum(dim=-2)`)
  * `center_grads` subtracts the column mean of the rows *of the batch* first (as the code does, per batch)
  * `fit_M` sums the per-batch matrices over a partition of the points into consecutive batches, divides by
    `max entry + 1e-30`, and (kernels with `use_sqrtM`) takes the square root through an SVD: `U·diag(√s)·Uᵀ`;
    diagonal mode: entrywise `√` of the clamped entries.
The eigen-decomposition is an oracle `(U, s)` (contract `UᵀU = I`, `s ≥ 0` stated in the theorems).

Scalar-generic, Mathlib-free; executed on `Float` by `Drv/C14.lean`, proved about at `ℝ` / `ℚ` in `Props/C14.lean`.
Matrices are lists of rows.
-/
import Xrfmv.Model.Grad

namespace Xrfmv.Agop
open Xrfmv.Grad (vsum vadd vsub vzero sumRows lenS)

section
variable {α : Type} [Add α] [Sub α] [Mul α] [Div α] [OfNat α 0]

/-- `GᵀG` for rows of length `d`: entry `(i, j) = Σ_rows g_i·g_j`. -/
def agopFull (d : Nat) (G : List (List α)) : List (List α) :=
  (List.range d).map fun i => (List.range d).map fun j => vsum (G.map fun g => g.getD i 0 * g.getD j 0)

/-- `Σ_rows g²`: entry `i = Σ_rows g_i²` (the diagonal of `GᵀG`). -/
def agopDiag (d : Nat) (G : List (List α)) : List α :=
  (List.range d).map fun i => vsum (G.map fun g => g.getD i 0 * g.getD i 0)

def madd (A B : List (List α)) : List (List α) := List.zipWith vadd A B
def mzero (d : Nat) : List (List α) := List.replicate d (vzero d)

end

section
variable {α : Type} [Add α] [Sub α] [Mul α] [Div α] [OfNat α 0] [OfNat α 1]

/-- Column mean of the rows of one batch (`f_grads.mean(dim=0)`). -/
def colMean (d : Nat) (G : List (List α)) : List α := (sumRows d G).map (· / lenS G)

/-- `f_grads − f_grads.mean(dim=0, keepdim=True)`. -/
def centre (d : Nat) (G : List (List α)) : List (List α) :=
  let μ := colMean d G
  G.map fun g => vsub g μ

/-- `Kernel.get_agop` on one batch. -/
def batchFull (d : Nat) (centred : Bool) (G : List (List α)) : List (List α) :=
  agopFull d (if centred then centre d G else G)

/-- `Kernel.get_agop_diag` on one batch. -/
def batchDiag (d : Nat) (centred : Bool) (G : List (List α)) : List α :=
  agopDiag d (if centred then centre d G else G)

/-- `fit_M`: `M = zeros; for batch: M.add_(update_M(batch))`, full mode. -/
def accumFull (d : Nat) (centred : Bool) (batches : List (List (List α))) : List (List α) :=
  batches.foldl (fun acc B => madd acc (batchFull d centred B)) (mzero d)

/-- Same, diagonal mode. -/
def accumDiag (d : Nat) (centred : Bool) (batches : List (List (List α))) : List α :=
  batches.foldl (fun acc B => vadd acc (batchDiag d centred B)) (vzero d)

end

section
variable {α : Type} [Add α] [Div α] [OfNat α 0] [LT α] [DecidableLT α]

/-- Largest element (`tensor.max()`); `0` for the empty list (the code never has `d = 0`). -/
def maxList : List α → α
  | [] => 0
  | [a] => a
  | a :: b :: l => let m := maxList (b :: l); if m < a then a else m

/-- `M.max()` over all entries. -/
def maxEntry (M : List (List α)) : α := maxList M.flatten

/-- `M / (M.max() + jitter)`, `jitter = 1e-30` in the code. -/
def normalise (jitter : α) (M : List (List α)) : List (List α) :=
  let m := maxEntry M + jitter
  M.map fun r => r.map (· / m)

def normaliseVec (jitter : α) (v : List α) : List α :=
  let m := maxList v + jitter
  v.map (· / m)

end

section
variable {α : Type} [Add α] [Mul α] [OfNat α 0] [LT α] [DecidableLT α] [HasSqrt α]

/-- `S[S<0] = 0`. -/
def clamp0 (x : α) : α := if x < 0 then 0 else x

/-- `U @ diag(S**0.5) @ U.T` for the oracle decomposition `(U, s)` (`U` as a list of rows). -/
def rootFromEig (U : List (List α)) (s : List α) : List (List α) :=
  let r := s.map fun x => sqrt (clamp0 x)
  U.map fun ui => U.map fun uj =>
    vsum (List.zipWith (· * ·) (List.zipWith (· * ·) ui r) uj)

/-- Diagonal mode: `M[M<0] = 0; M**0.5`. -/
def rootDiag (m : List α) : List α := m.map fun x => sqrt (clamp0 x)

/-- `A @ B` for lists of rows (`B` given by rows, all of the length of `A`'s rows). -/
def mmul (A B : List (List α)) : List (List α) :=
  A.map fun a => (List.range (B.headD []).length).map fun j =>
    vsum (List.zipWith (fun x (row : List α) => x * row.getD j 0) a B)

end

end Xrfmv.Agop
