/-
C06 — Tree construction terminates with bounded, balanced leaves.

Model: `Xrfmv.BuildSizes.build`, the size skeleton of `xRFM._build_tree` over the regenerated
`Gen.Split` (integer code of `_get_balanced_split`, its slices and masks, the leaf test).  Sizes are
independent of the data (the split is rank based: `build` takes no data at all), which is why ties,
duplicates or constant columns cannot prevent termination.  The only float expression,
`r = int(round(2 * overlap_fraction * n))`, is the oracle `cfg.ov`; `overlap_hypothesis` derives what
the theorems need from `(1 - 2f) * max_leaf_size ≥ 4` and `|r - 2fn| < 1` (the latter is checked
exhaustively against Python by the correspondence).
-/
import Xrfmv.Lemmas.BuildSizes
import Xrfmv.Lemmas.ShapeAgree
import Mathlib.Data.Real.Basic
import Mathlib.Tactic.Linarith
import Mathlib.Tactic.Positivity

namespace Xrfmv.Props.C06
open Xrfmv.BuildSizes Xrfmv.Gen.Split

/-- **C06 (split sizes)** With `o = r` samples in the overlap band (`0 ≤ r`, `r + 2 ≤ n`) the left child
gets the ceil half of the other `n - o` samples plus the band, the right child the floor half plus the
band; both are non-empty, differ by at most one, and are strictly smaller than the node. -/
theorem split_sizes (n r : Int) (hr0 : 0 ≤ r) (hr : r + 2 ≤ n) :
    leftSize n r = (n - r + 1) / 2 + r ∧ rightSize n r = (n - r) / 2 + r ∧
    1 ≤ rightSize n r ∧ rightSize n r ≤ leftSize n r ∧ leftSize n r - rightSize n r ≤ 1 ∧
    leftSize n r < n ∧ leftSize n r + rightSize n r = n + r :=
  children_facts n r hr0 hr

/-- **C06 (termination, leaf bound)** Without a forced split count, for every `n`, every
`max_leaf_size` and every overlap oracle that leaves two unshared samples at each split node, the
construction finishes within `n + 1` levels, no assertion of the split fails, and every leaf is
trained on at most `max_leaf_size` samples. -/
theorem terminates_leaves_bounded (cfg : Cfg) (hns : cfg.nsplits = none) (hov : OvOk cfg) (n : Nat) :
    (build cfg (n + 1) n 0).1.ok = true ∧ ∀ k ∈ (build cfg (n + 1) n 0).1.leaves, k ≤ cfg.maxLeaf :=
  build_ok cfg hns hov (n + 1) n 0 le_rfl

/-- **C06 (depth)** With zero overlap and no forced split count no leaf is deeper than any `k` with
`n ≤ max_leaf_size · 2^k`, i.e. than `⌈log₂(n / max_leaf_size)⌉`. -/
theorem depth_bound (cfg : Cfg) (hns : cfg.nsplits = none) (hz : ∀ m, cfg.ov m = 0) (hL : 2 ≤ cfg.maxLeaf)
    (n k : Nat) (hn : n ≤ cfg.maxLeaf * 2 ^ k) :
    (build cfg (n + 1) n 0).1.depth ≤ k :=
  depth_le cfg hns hz hL k (n + 1) n 0 hn

/-- **C06 (forced splits)** A requested minimum number of splits `s` is honoured whenever construction
succeeds (it fails only if a forced split hits a node that cannot be split into two non-empty parts). -/
theorem min_splits_honoured (cfg : Cfg) (s : Nat) (hns : cfg.nsplits = some s) (fuel n : Nat)
    (hok : (build cfg fuel n 0).1.ok = true) : s ≤ (build cfg fuel n 0).1.splits := by
  have h1 := count_ge_nsplits cfg s hns fuel n 0 hok
  have h2 := (count_mono cfg fuel n 0).2 hok
  omega

/-- **C06 (the float hypothesis)** If the overlap fraction `f ≥ 0` satisfies
`(1 - 2f) · max_leaf_size ≥ 4` and the rounded band `r` is within `1` of `2fn`, then every node
larger than `max_leaf_size` keeps `r ≥ 0` and at least two unshared samples. -/
theorem overlap_hypothesis (f : ℝ) (L n : ℕ) (r : ℤ) (hf : 0 ≤ f) (hL : (1 - 2 * f) * (L : ℝ) ≥ 4)
    (hn : L < n) (hr : |(r : ℝ) - 2 * f * n| < 1) : 0 ≤ r ∧ r + 2 ≤ (n : ℤ) := by
  have hLpos : (0 : ℝ) < L := by
    by_contra h
    have : (L : ℝ) = 0 := le_antisymm (not_lt.mp h) (Nat.cast_nonneg L)
    rw [this] at hL; norm_num at hL
  have h12 : 0 < 1 - 2 * f := by
    by_contra h
    have : (1 - 2 * f) * (L : ℝ) ≤ 0 := mul_nonpos_of_nonpos_of_nonneg (not_lt.mp h) hLpos.le
    linarith
  have hnL : (L : ℝ) < n := by exact_mod_cast hn
  have hnpos : (0 : ℝ) ≤ n := Nat.cast_nonneg n
  obtain ⟨h1, h2⟩ := abs_lt.mp hr
  constructor
  · have : (-1 : ℝ) < r := by nlinarith
    have : (-1 : ℤ) < r := by exact_mod_cast this
    omega
  · have hlt : (1 - 2 * f) * (L : ℝ) < (1 - 2 * f) * n := by nlinarith
    have : (r : ℝ) + 3 < n := by nlinarith
    have : (r : ℤ) + 3 < n := by exact_mod_cast this
    omega

/-- Non-vacuity: `max_leaf_size = 8`, overlap fraction 1/8 (band `n/4`) satisfies the oracle
hypothesis, and the construction of a 100-sample tree is covered. -/
example : OvOk { maxLeaf := 8, nsplits := none, ov := fun m => (m : Int) / 4 } := by
  intro m hm
  simp only at hm ⊢
  omega

/-- **C06 (sizes are independent of the data)** Whatever the data — that is, for every answer of the sort and
permutation oracles that meets their contracts (ties, duplicates, constant columns included) — the tree built over
sample indices has exactly the shape and the leaf sizes of the size skeleton, and consumes the same number of splits.
All statements above therefore hold for the index-level trees of C07 / C08. -/
theorem sizes_independent_of_data (cfg : Xrfmv.BuildIndex.Cfg) (O : Xrfmv.BuildIndex.Oracles)
    (hc : Xrfmv.BuildIndex.Contracts O) (hov : ∀ m : Nat, ∃ o : Nat, O.ov m = (o : Int) ∧ o ≤ m)
    (fuel : Nat) (path : List Bool) (idx : List Nat) (isRoot : Bool) (count : Nat) :
    Xrfmv.ShapeAgree.ishape (Xrfmv.BuildIndex.build cfg O fuel path idx isRoot count).1 =
      Xrfmv.ShapeAgree.sshape (build (Xrfmv.ShapeAgree.sizeCfg cfg O) fuel idx.length count).1 ∧
    (Xrfmv.BuildIndex.build cfg O fuel path idx isRoot count).2 =
      (build (Xrfmv.ShapeAgree.sizeCfg cfg O) fuel idx.length count).2 :=
  Xrfmv.ShapeAgree.shapes_agree cfg O hc hov fuel path idx isRoot count

/-- Two data sets of the same size give trees of the same shape and leaf sizes. -/
theorem same_size_same_shape (cfg : Xrfmv.BuildIndex.Cfg) (O O' : Xrfmv.BuildIndex.Oracles)
    (hc : Xrfmv.BuildIndex.Contracts O) (hc' : Xrfmv.BuildIndex.Contracts O') (hsame : O.ov = O'.ov)
    (hov : ∀ m : Nat, ∃ o : Nat, O.ov m = (o : Int) ∧ o ≤ m)
    (fuel : Nat) (idx idx' : List Nat) (hlen : idx.length = idx'.length) :
    Xrfmv.ShapeAgree.ishape (Xrfmv.BuildIndex.build cfg O fuel [] idx true 0).1 =
      Xrfmv.ShapeAgree.ishape (Xrfmv.BuildIndex.build cfg O' fuel [] idx' true 0).1 := by
  rw [(sizes_independent_of_data cfg O hc hov fuel [] idx true 0).1,
    (sizes_independent_of_data cfg O' hc' (hsame ▸ hov) fuel [] idx' true 0).1, hlen]
  simp [Xrfmv.ShapeAgree.sizeCfg, hsame]

end Xrfmv.Props.C06
