/-
Model of `get_state_dict` / `load_state_dict` (xrfm.py, tree_utils.py) as value plumbing: attributes are
abstract values, the state dictionary is a partial map from keys to values, and *which* attribute is written
under which key and read back into which attribute is the regenerated `Gen.State`.
-/
import Xrfmv.Gen.State

namespace Xrfmv.State
open Xrfmv.Gen.State

variable {V : Type}

/-- Model-level attributes of an xRFM object (`isClass` = `n_classes_ > 0`). -/
structure MState (V : Type) where
  isClass : Bool
  m : MField → V

inductive Tree (V : Type)
  | leaf (f : LField → V) (centers : V)
  | node (f : NField → V) (l r : Tree V)

structure Model (V : Type) where
  ms : MState V
  trees : List (Tree V)

/-! ### export -/

/-- The model-level part of the state dictionary. -/
def exportM (s : MState V) (k : MField) : Option V :=
  match exportedM.find? (fun e => e.key == k && (!e.classOnly || s.isClass) && !e.optional) with
  | some e => some (s.m e.src)
  | none => none

inductive PTree (V : Type)
  | leaf (d : LField → Option V)
  | node (d : NField → Option V) (l r : PTree V)

def exportLeaf (f : LField → V) (k : LField) : Option V :=
  match exportedL.find? (fun e => e.1 == k) with
  | some e => some (f e.2)
  | none => none

def exportNode (f : NField → V) (k : NField) : Option V :=
  match exportedN.find? (fun e => e.1 == k) with
  | some e => some (f e.2)
  | none => none

def exportTree : Tree V → PTree V
  | .leaf f _ => .leaf (exportLeaf f)
  | .node f l r => .node (exportNode f) (exportTree l) (exportTree r)

structure Dict (V : Type) where
  m : MField → Option V
  trees : List (PTree V)

def exportState (s : Model V) : Dict V := { m := exportM s.ms, trees := s.trees.map exportTree }

/-- What the source object looks like after `get_state_dict()` returned (`scrub` = the converter removed from
`extra_rfm_params_` in place). -/
def sourceAfterExport (scrub : V → V) (s : Model V) : Model V :=
  if exportLeavesSourceUntouched then s
  else { s with ms := { s.ms with m := fun a => if a = .extraRfmParams then scrub (s.ms.m a) else s.ms.m a } }

/-! ### load into a fresh object built with the same constructor arguments -/

def loadM (fresh : MState V) (isClass : Bool) (d : MField → Option V) : MState V :=
  { isClass := isClass
    m := fun a =>
      match restoredM.find? (fun r => r.attr == a && (!r.classOnly || isClass)) with
      | some r => (d r.key).getD (fresh.m a)
      | none => fresh.m a }

/-- `freshLeaf`: attributes of a newly constructed leaf model; `gather idx = X_train[idx]`. -/
def loadTree (freshLeaf : LField → V) (freshCenters : V) (nodeDefault : NField → V) (gather : V → V) :
    PTree V → Tree V
  | .leaf d =>
      let f : LField → V := fun a =>
        match restoredL.find? (fun r => r.1 == a) with
        | some r => (d r.2).getD (freshLeaf a)
        | none => freshLeaf a
      .leaf f (if centersFromTrainIndices then gather (f .trainIndices) else freshCenters)
  | .node d l r =>
      .node (fun a => if nodeDictReused then (d a).getD (nodeDefault a) else nodeDefault a)
        (loadTree freshLeaf freshCenters nodeDefault gather l) (loadTree freshLeaf freshCenters nodeDefault gather r)

structure Fresh (V : Type) where
  ms : MState V
  leaf : LField → V
  centers : V
  nodeDefault : NField → V

def load (fr : Fresh V) (isClass : Bool) (gather : V → V) (d : Dict V) : Model V :=
  { ms := loadM fr.ms isClass d.m
    trees := d.trees.map (loadTree fr.leaf fr.centers fr.nodeDefault gather) }

/-! ### the part of the state that predictions read -/

/-- Model-level attributes read by `predict` / `predict_proba` (the converter only for classification; `solver` is not
read at prediction time). -/
def predM (isClass : Bool) : List MField :=
  [.rfmParams, .categoricalInfo, .nClasses, .splitTemperature, .extraRfmParams] ++
  (if isClass then [.classificationMode, .convPrior, .convC, .convInvA, .convNumType] else [])

def predL : List LField := [.bandwidth, .weights, .M, .sqrtM]

inductive VTree (V : Type)
  | leaf (f : LField → Option V) (centers : V)
  | node (f : NField → V) (l r : VTree V)

def viewTree : Tree V → VTree V
  | .leaf f c => .leaf (fun a => if a ∈ predL then some (f a) else none) c
  | .node f l r => .node f (viewTree l) (viewTree r)

structure View (V : Type) where
  isClass : Bool
  m : MField → Option V
  trees : List (VTree V)

def predictView (s : Model V) : View V :=
  { isClass := s.ms.isClass
    m := fun a => if a ∈ predM s.ms.isClass then some (s.ms.m a) else none
    trees := s.trees.map viewTree }

/-- C07's invariant: a leaf's centers are the training rows its reported indices name. -/
def CentersOk (gather : V → V) : Tree V → Prop
  | .leaf f c => c = gather (f .trainIndices)
  | .node _ l r => CentersOk gather l ∧ CentersOk gather r

end Xrfmv.State
