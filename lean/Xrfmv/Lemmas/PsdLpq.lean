/-
Positive semi-definiteness of `exp(−‖a−b‖_p^q / c)` on `Fin m → ℝ` for `0 < q ≤ p ≤ 2` (Schoenberg).

Chain: `(s−t)²` is conditionally negative definite (CND) on `ℝ` by algebra; CND kernels are closed under
`ψ ↦ ψ^a`, `0 < a ≤ 1` (`IsCND.rpow`: Bernstein representation `r^a·C_a = ∫₀^∞ (1−e^{−tr}) t^{−1−a} dt`
of `Lemmas/PsdBernstein.lean`, with `e^{−tψ}` PSD by `IsCND.exp_neg` of `Lemmas/PsdKernel.lean`); hence
`|s−t|^p`, the coordinate sum `Σ_k |a_k−b_k|^p`, and its power `q/p` are CND; `IsCND.exp_neg` again.
-/
import Xrfmv.Lemmas.PsdKernel
import Xrfmv.Lemmas.PsdBernstein

namespace Xrfmv.Psd
open Finset MeasureTheory Set

variable {X : Type*}

theorem IsCND.add {ψ₁ ψ₂ : X → X → ℝ} (h₁ : IsCND ψ₁) (h₂ : IsCND ψ₂) :
    IsCND fun x y => ψ₁ x y + ψ₂ x y :=
  ⟨fun x y => by beta_reduce; rw [h₁.1 x y, h₂.1 x y], fun n xs w hw => by
    rw [qf_add]; exact add_nonpos (h₁.2 n xs w hw) (h₂.2 n xs w hw)⟩

theorem IsCND.smul {ψ : X → X → ℝ} (h : IsCND ψ) {c : ℝ} (hc : 0 ≤ c) : IsCND fun x y => c * ψ x y :=
  ⟨fun x y => by beta_reduce; rw [h.1 x y], fun n xs w hw => by
    rw [qf_smul]; exact mul_nonpos_of_nonneg_of_nonpos hc (h.2 n xs w hw)⟩

theorem isCND_zero : IsCND fun (_ _ : X) => (0 : ℝ) :=
  ⟨fun _ _ => rfl, fun n xs w _ => by rw [qf_const]; simp⟩

theorem IsCND.comap {Y : Type*} {ψ : X → X → ℝ} (h : IsCND ψ) (f : Y → X) :
    IsCND fun x y => ψ (f x) (f y) :=
  ⟨fun _ _ => h.1 _ _, fun n xs w hw => h.2 n (fun i => f (xs i)) w hw⟩

theorem IsPSD.comap {Y : Type*} {k : X → X → ℝ} (h : IsPSD k) (f : Y → X) :
    IsPSD fun x y => k (f x) (f y) :=
  ⟨fun _ _ => h.1 _ _, fun n xs w => h.2 n (fun i => f (xs i)) w⟩

theorem IsCND.sum {ι : Type*} (s : Finset ι) {ψ : ι → X → X → ℝ} (h : ∀ k ∈ s, IsCND (ψ k)) :
    IsCND fun x y => ∑ k ∈ s, ψ k x y := by
  classical
  induction s using Finset.induction_on with
  | empty => simpa using isCND_zero (X := X)
  | insert a s ha ih =>
    simp only [sum_insert ha]
    exact (h a (mem_insert_self a s)).add (ih fun k hk => h k (mem_insert_of_mem hk))

/-- the squared distance on the line is conditionally negative definite (algebra) -/
theorem isCND_sq_sub : IsCND fun s t : ℝ => (s - t) ^ 2 := by
  refine ⟨fun s t => by ring, fun n xs w hw => ?_⟩
  have e : qf (fun s t : ℝ => (s - t) ^ 2) xs w =
      2 * (∑ i, w i) * (∑ i, w i * xs i ^ 2) - 2 * (∑ i, w i * xs i) ^ 2 := by
    simp only [qf]
    have a1 : ∑ i, ∑ j, w i * w j * xs i ^ 2 = (∑ i, w i) * ∑ i, w i * xs i ^ 2 := by
      rw [sum_mul_sum, sum_comm]; exact sum_congr rfl fun i _ => sum_congr rfl fun j _ => by ring
    have a2 : ∑ i, ∑ j, w i * w j * xs j ^ 2 = (∑ i, w i) * ∑ i, w i * xs i ^ 2 := by
      rw [sum_mul_sum]; exact sum_congr rfl fun i _ => sum_congr rfl fun j _ => by ring
    have a3 : ∑ i, ∑ j, w i * w j * (xs i * xs j) = (∑ i, w i * xs i) ^ 2 := by
      rw [sq, sum_mul_sum]; exact sum_congr rfl fun i _ => sum_congr rfl fun j _ => by ring
    have : ∀ i j, w i * w j * (xs i - xs j) ^ 2 =
        w i * w j * xs i ^ 2 + w i * w j * xs j ^ 2 - 2 * (w i * w j * (xs i * xs j)) := fun i j => by ring
    simp only [this, sum_sub_distrib, sum_add_distrib, ← mul_sum, a1, a2, a3]; ring
  rw [e, hw]; nlinarith [sq_nonneg (∑ i, w i * xs i)]

/-- **Bernstein closure**: a non-negative CND kernel stays CND under `r ↦ r^a`, `0 < a ≤ 1`. -/
theorem IsCND.rpow {ψ : X → X → ℝ} (h : IsCND ψ) (hnn : ∀ x y, 0 ≤ ψ x y) {a : ℝ} (h0 : 0 < a)
    (h1 : a ≤ 1) : IsCND fun x y => ψ x y ^ a := by
  rcases h1.eq_or_lt with rfl | h1
  · simpa only [Real.rpow_one] using h
  refine ⟨fun x y => by beta_reduce; rw [h.1 x y], fun n xs w hw => ?_⟩
  rcases Nat.eq_zero_or_pos n with rfl | hn
  · simp [qf]
  have : Nonempty X := ⟨xs ⟨0, hn⟩⟩
  have hC := bernC_pos h0 h1
  let F : Fin n → Fin n → ℝ → ℝ := fun i j t =>
    (1 - Real.exp (-(t * ψ (xs i) (xs j)))) * t ^ (-1 - a)
  have hint : ∀ i j, IntegrableOn (F i j) (Ioi 0) := fun i j =>
    bern_scaled_integrableOn h0 h1 (hnn _ _)
  have hrep : ∀ i j, ψ (xs i) (xs j) ^ a * bernC a = ∫ t in Ioi 0, F i j t := fun i j =>
    (rpow_mul_bernC h0 (hnn _ _)).symm
  have key : qf (fun x y => ψ x y ^ a) xs w * bernC a = ∫ t in Ioi 0, ∑ i, ∑ j, w i * w j * F i j t := by
    rw [integral_finsetSum _ fun i _ => integrable_finsetSum _ fun j _ => (hint i j).const_mul _]
    simp only [qf, sum_mul]
    refine sum_congr rfl fun i _ => ?_
    rw [integral_finsetSum _ fun j _ => (hint i j).const_mul _]
    refine sum_congr rfl fun j _ => ?_
    rw [integral_const_mul, ← hrep, mul_assoc]
  have hle : ∫ t in Ioi 0, ∑ i, ∑ j, w i * w j * F i j t ≤ 0 := by
    refine setIntegral_nonpos measurableSet_Ioi fun t ht => ?_
    have ht0 : (0 : ℝ) < t := ht
    have hpsd := (h.smul ht0.le).exp_neg.2 n xs w
    have e : ∑ i, ∑ j, w i * w j * F i j t =
        (qf (fun _ _ => (1 : ℝ)) xs w - qf (fun x y => Real.exp (-(t * ψ x y))) xs w) * t ^ (-1 - a) := by
      simp only [qf, F]
      rw [← sum_sub_distrib, sum_mul]
      refine sum_congr rfl fun i _ => ?_
      rw [← sum_sub_distrib, sum_mul]
      exact sum_congr rfl fun j _ => by ring
    rw [e, qf_const, hw]
    have : 0 ≤ t ^ (-1 - a) := Real.rpow_nonneg ht0.le _
    nlinarith
  have := key ▸ hle
  exact nonpos_of_mul_nonpos_left this hC

/-- `|s − t|^p` is CND on the line for `0 < p ≤ 2`. -/
theorem isCND_abs_rpow {p : ℝ} (hp0 : 0 < p) (hp2 : p ≤ 2) : IsCND fun s t : ℝ => |s - t| ^ p := by
  have h := isCND_sq_sub.rpow (fun s t => sq_nonneg _) (a := p / 2) (by positivity) (by linarith)
  have e : ∀ s t : ℝ, ((s - t) ^ 2) ^ (p / 2) = |s - t| ^ p := fun s t => by
    rw [← sq_abs, ← Real.rpow_natCast, ← Real.rpow_mul (abs_nonneg _)]; congr 1; push_cast; ring
  simpa only [e] using h

/-- `Σ_k |a_k − b_k|^p` is CND on `Fin m → ℝ` for `0 < p ≤ 2`. -/
theorem isCND_lp_pow (m : ℕ) {p : ℝ} (hp0 : 0 < p) (hp2 : p ≤ 2) :
    IsCND fun a b : Fin m → ℝ => ∑ k, |a k - b k| ^ p :=
  IsCND.sum univ fun k _ => (isCND_abs_rpow hp0 hp2).comap fun a : Fin m → ℝ => a k

/-- **Schoenberg for the Lpq Laplace kernels**: `exp(−c·(Σ_k |a_k−b_k|^p)^{q/p})` is positive
semi-definite on `Fin m → ℝ` for `0 < q ≤ p ≤ 2`, `c ≥ 0`. -/
theorem isPSD_lpq (m : ℕ) {p q c : ℝ} (hq : 0 < q) (hqp : q ≤ p) (hp2 : p ≤ 2) (hc : 0 ≤ c) :
    IsPSD fun a b : Fin m → ℝ => Real.exp (-(c * (∑ k, |a k - b k| ^ p) ^ (q / p))) := by
  have hp0 : 0 < p := lt_of_lt_of_le hq hqp
  have h1 := (isCND_lp_pow m hp0 hp2).rpow
    (fun a b => sum_nonneg fun k _ => Real.rpow_nonneg (abs_nonneg _) _) (a := q / p)
    (div_pos hq hp0) ((div_le_one hp0).mpr hqp)
  exact (h1.smul hc).exp_neg

theorem IsPSD.sum {ι : Type*} (s : Finset ι) {k : ι → X → X → ℝ} (h : ∀ i ∈ s, IsPSD (k i)) :
    IsPSD fun x y => ∑ i ∈ s, k i x y := by
  classical
  induction s using Finset.induction_on with
  | empty => simpa using isPSD_const (X := X) le_rfl
  | insert a s ha ih =>
    simp only [sum_insert ha]
    exact (h a (mem_insert_self a s)).add (ih fun i hi => h i (mem_insert_of_mem hi))

/-- the one-dimensional kernel `exp(−c·|s−t|^q)` is PSD for `0 < q ≤ 2`, `c ≥ 0` -/
theorem isPSD_exp_abs_rpow {q c : ℝ} (hq : 0 < q) (hq2 : q ≤ 2) (hc : 0 ≤ c) :
    IsPSD fun s t : ℝ => Real.exp (-(c * |s - t| ^ q)) :=
  ((isCND_abs_rpow hq hq2).smul hc).exp_neg

/-- **Sum-power profile**: `((1−c₀)·mean_k exp(−c·|a_k−b_k|^q) + c₀)^P` is PSD on `Fin m → ℝ` for
`0 < q ≤ 2`, `0 ≤ c₀ ≤ 1` and a natural power `P`. -/
theorem isPSD_sumPower (m : ℕ) {q c c₀ : ℝ} (hq : 0 < q) (hq2 : q ≤ 2) (hc : 0 ≤ c) (h0 : 0 ≤ c₀)
    (h1 : c₀ ≤ 1) (P : ℕ) :
    IsPSD fun a b : Fin m → ℝ =>
      ((1 - c₀) * ((∑ k, Real.exp (-(c * |a k - b k| ^ q))) / (m : ℝ)) + c₀) ^ P := by
  have hs : IsPSD fun a b : Fin m → ℝ => ∑ k, Real.exp (-(c * |a k - b k| ^ q)) :=
    IsPSD.sum univ fun k _ => (isPSD_exp_abs_rpow hq hq2 hc).comap fun a : Fin m → ℝ => a k
  have hm : IsPSD fun a b : Fin m → ℝ =>
      (1 - c₀) * ((∑ k, Real.exp (-(c * |a k - b k| ^ q))) / (m : ℝ)) := by
    have := hs.smul (c := (1 - c₀) * (m : ℝ)⁻¹) (mul_nonneg (sub_nonneg.mpr h1) (by positivity))
    simpa only [div_eq_mul_inv, mul_assoc, mul_comm ((m : ℝ)⁻¹)] using this
  exact (hm.add (isPSD_const h0)).pow P

end Xrfmv.Psd
