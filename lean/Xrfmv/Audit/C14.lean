import Xrfmv.Props.C14
#print axioms Xrfmv.Props.C14.agop_batch_additive
#print axioms Xrfmv.Props.C14.agop_perm_invariant
#print axioms Xrfmv.Props.C14.agop_batch_additive_diag
#print axioms Xrfmv.Props.C14.agop_symm
#print axioms Xrfmv.Props.C14.agop_psd
#print axioms Xrfmv.Props.C14.psd_max_on_diag
#print axioms Xrfmv.Props.C14.agop_max_on_diag
#print axioms Xrfmv.Props.C14.normalised_max_one
#print axioms Xrfmv.Props.C14.normalised_max_one_model
#print axioms Xrfmv.Props.C14.normalised_max_one_diag
#print axioms Xrfmv.Props.C14.root_squares_back
#print axioms Xrfmv.Props.C14.root_model_squares_back
#print axioms Xrfmv.Props.C14.root_squares_back_diag
#print axioms Xrfmv.Props.C14.centred_per_batch_depends_on_partition
#print axioms Xrfmv.Props.C14.all_points_used
#print axioms Xrfmv.Props.C14.normalised_max_with_jitter
