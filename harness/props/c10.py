"""
C10 — temperature tuning selects a best candidate and never regresses.

Proof: lean/Xrfmv/Props/C10.lean over the regenerated Gen.Temp.
Correspondence: (A) the real `fit_temperature` on a fitted multi-leaf model with the metric scripted per
candidate - exhaustive over a score alphabet, candidate lists (with/without 0, any order), direction and
initial temperature - versus the Lean fold; (B) real fits with tuning for regression and classification
metrics, scores recomputed from the public predict / predict_proba at every candidate.
"""
import itertools

from harness import core

MOD = 'harness.props.c10'
TEMPS = [0.0, 0.05, 0.5, 2.0, 1.0]


def attr_of(c):
    return None if c <= 0.0 else c


def better(mx, a, b):
    return a > b if mx else a < b


def oracle(mx, cands, scores, stored, best_score, results):
    """C10 evaluated on what the implementation stored; `scores[i]` = true score of candidate i."""
    fails = []
    if [tuple(r) for r in results] != [(float(c), float(s)) for c, s in zip(cands, scores)]:
        fails.append(('C10:results-not-faithful', f'recorded {results} vs true {list(zip(cands, scores))}'))
    by_attr = {attr_of(c): s for c, s in zip(cands, scores)}
    if stored not in by_attr:
        fails.append(('C10:stored-not-a-candidate', f'stored temperature {stored} is not a candidate {cands}'))
        return fails
    s_st = by_attr[stored]
    if any(better(mx, s, s_st) for s in scores):
        fails.append(('C10:not-optimal', f'stored {stored} scores {s_st}; candidates {list(zip(cands, scores))}, maximise={mx}'))
    if best_score != s_st:
        fails.append(('C10:best-score-mismatch', f'recorded best score {best_score} but the returned model scores {s_st}'))
    if None in by_attr and better(mx, by_attr[None], s_st):
        fails.append(('C10:regresses-vs-hard', f'hard routing scores {by_attr[None]}, returned model {s_st}'))
    return fails


_MODEL = {}


def base_model(init=None):
    """One small fitted regression model with a split per configured temperature (shared by the scripted cases of a worker):
    the initial temperature of a scripted case is the one the estimator was CONSTRUCTED with, so that everything the constructor
    derives from it is in place."""
    key = ('m', init)
    if key not in _MODEL:
        import torch
        from xrfm import xRFM
        g = torch.Generator().manual_seed(11)
        X = torch.randn(60, 3, generator=g)
        y = torch.sin(X[:, :1])
        Xv = torch.randn(12, 3, generator=g)
        yv = torch.sin(Xv[:, :1])
        m = xRFM(rfm_params={'model': {'kernel': 'l2', 'bandwidth': 5.0, 'exponent': 1.0, 'diag': False, 'bandwidth_mode': 'constant'},
                             'fit': {'reg': 1e-3, 'iters': 0, 'verbose': False, 'early_stop_rfm': False}},
                 max_leaf_size=30, device='cpu', verbose=False, random_state=0, split_method='random',
                 use_temperature_tuning=False, tuning_metric='mse', split_temperature=init)
        m.fit(X, y, Xv, yv)
        assert m.trees[0]['type'] != 'leaf'
        _MODEL[key] = (m, Xv, yv)
    return _MODEL[key]


def run_scripted(p):
    import xrfm.xrfm as xmod
    m, Xv, yv = base_model(p['init'])
    scores = list(p['scores'])
    calls = {'i': 0}

    class Fake:
        should_maximize = p['maximize']
        required_quantities = ['y_true_reg', 'y_pred']
        task_types = ['reg']
        name = 'scripted'
        display_name = 'scripted'

        def compute(self, **kw):
            i = calls['i']
            calls['i'] += 1
            return scores[i]

    orig = xmod.Metric.from_name
    xmod.Metric.from_name = staticmethod(lambda name: Fake())
    try:
        m.split_temperature = p['init']
        ret = m.fit_temperature(Xv, yv, list(p['cands']))
    finally:
        xmod.Metric.from_name = orig
    return m.split_temperature, m.best_split_temperature_score_, [list(r) for r in m.temperature_tuning_results_], ret, calls['i']


def run_real(p):
    import torch
    from xrfm import xRFM
    from xrfm.rfm_src.metrics import Metric
    g = torch.Generator().manual_seed(p['dseed'])
    n, d = p['n'], p['d']
    X = torch.randn(n, d, generator=g)
    nv = p.get('nv') or max(20, n // 2)
    Xv = torch.randn(nv, d, generator=g)
    if p['task'] == 'reg':
        f = lambda Z: torch.sin(2 * Z[:, :1]) + 0.5 * Z[:, 1:2]
        y, yv = f(X) + 0.1 * torch.randn(n, 1, generator=g), f(Xv)
    else:
        K = p['classes']
        f = lambda Z: (Z[:, 0] * 1.3 + Z[:, 1]).mul(1.0).floor().long().remainder(K)
        y, yv = f(X), f(Xv)
        y[:K] = torch.arange(K)
        yv[:K] = torch.arange(K)
    if p.get('nv'):
        # a large, ordered validation set whose last fifth is much noisier: any score assembled from parts of the validation set
        # instead of from all of it differs visibly for metrics that are not plain row means (rmse, f1, auc)
        tail = nv // 5
        if p['task'] == 'reg':
            yv[-tail:] += 2.0 * torch.randn(tail, 1, generator=g)
        else:
            yv[-tail:] = torch.randint(0, p['classes'], (tail,), generator=g)
    m = xRFM(rfm_params={'model': {'kernel': p['kernel'], 'bandwidth': 5.0, 'exponent': 1.0, 'diag': False, 'bandwidth_mode': 'constant'},
                         'fit': {'reg': 1e-3, 'iters': p['iters'], 'verbose': False, 'early_stop_rfm': False}},
             max_leaf_size=p['L'], device='cpu', verbose=False, random_state=p['dseed'], split_method=p['method'],
             use_temperature_tuning=True, tuning_metric=p['metric'], temp_tuning_space=list(p['cands']), n_trees=p['trees'],
             classification_mode=p.get('mode', 'zero_one'), split_temperature=p.get('ctor_temp'),
             max_leaf_count_in_ensemble=p.get('cap', 12), keep_weight_frac_in_predict=p.get('keep', 0.99))
    m.fit(X, y, Xv, yv)
    if not hasattr(m, 'temperature_tuning_results_'):
        return None
    metric = Metric.from_name(p['metric'])
    if p['task'] == 'reg':
        y_num = yv.float().reshape(-1, 1)
        y_cls = None
    else:
        y_num = m.class_converter_.labels_to_numerical(yv)
        y_cls = m.class_converter_.numerical_to_labels(y_num)
    if p.get('cut_trees') and len(m.trees) > 1:
        # an ensemble that holds fewer trees than configured (what a time-limited fit leaves behind), tuned again through
        # the public fit_temperature: scores are those of the trees that exist
        m.trees = m.trees[:1]
        m.split_temperature = p.get('ctor_temp')
        m.fit_temperature(Xv, y_num, list(p['cands']))
    stored = m.split_temperature
    true_scores = []
    for c in p['cands']:
        m.split_temperature = attr_of(float(c))
        kw = {'y_true_reg': y_num}
        if 'y_pred' in metric.required_quantities:
            kw['y_pred'] = torch.as_tensor(m.predict(Xv)) if p['task'] == 'reg' else None
        if 'y_pred_proba' in metric.required_quantities:
            kw['y_pred_proba'] = torch.as_tensor(m.predict_proba(Xv))
        if 'y_true_class' in metric.required_quantities:
            kw['y_true_class'] = y_cls
        true_scores.append(float(metric.compute(**kw)))
    m.split_temperature = stored
    return stored, float(m.best_split_temperature_score_), [[float(a), float(b)] for a, b in m.temperature_tuning_results_], true_scores, metric.should_maximize


def execute(chunk):
    drv = core.Driver('C10')
    out = []
    try:
        for p in chunk['cases']:
            res = {'family': p['family'], 'params': p, 'disagreements': [], 'failures': []}
            try:
                if p['family'] == 'scripted-exhaustive' or p['family'] == 'scripted-random':
                    stored, best, results, ret, ncalls = run_scripted(p)
                    mx, scores, cur = p['maximize'], p['scores'], p['init']
                    if ret != stored:
                        res['failures'].append({'signature': 'C10:return-value', 'detail': f'returned {ret}, stored {stored}'})
                    if ncalls != len(p['cands']):
                        res['failures'].append({'signature': 'C10:candidates-skipped', 'detail': f'{ncalls} evaluations for {len(p["cands"])} candidates'})
                else:
                    r = run_real(p)
                    if r is None:
                        res['dist'] = {'no_split': True}
                        out.append(res)
                        continue
                    stored, best, results, scores, mx = r
                    cur = p.get('ctor_temp')
                    # recorded scores vs scores recomputed through the public API (same arithmetic: tight tolerance)
                    for (c, s_rec), s_true in zip(results, scores):
                        if abs(s_rec - s_true) > 1e-6 * max(1.0, abs(s_true)):
                            res['failures'].append({'signature': 'C10:results-not-true-scores',
                                                    'detail': f'candidate {c}: recorded {s_rec}, recomputed from predict {s_true}'})
                            break
                    scores = [s for _, s in results] if not res['failures'] else scores
            except Exception as e:
                res['failures'].append({'signature': f'C10:raises:{type(e).__name__}', 'detail': str(e)[:300]})
                out.append(res)
                continue
            for sig, detail in oracle(mx, p['cands'], scores, stored, best, results):
                res['failures'].append({'signature': sig, 'detail': detail})
            q = {'op': 'tune', 'maximizing': bool(mx), 'current': None if cur is None else core.f2b(cur),
                 'cands': [core.f2b(c) for c in p['cands']], 'scores': [core.f2b(s) for s in scores]}
            mres = drv.ask(q)
            if 'error' in mres:
                res['disagreements'].append({'detail': f'model rejects: {mres["error"]}'})
            else:
                mattr = None if mres['bestAttr'] is None else core.b2f(mres['bestAttr'])
                diffs = []
                if mattr != stored:
                    diffs.append(f'stored temperature impl {stored} model {mattr}')
                if core.b2f(mres['bestScore']) != best:
                    diffs.append(f'best score impl {best} model {core.b2f(mres["bestScore"])}')
                if [[core.b2f(a), core.b2f(b)] for a, b in mres['results']] != [[float(a), float(b)] for a, b in results]:
                    diffs.append('results list differs')
                if diffs:
                    res['disagreements'].append({'detail': '; '.join(diffs)})
            res['nontrivial'] = [p['family'], p['cands'], [round(s, 9) for s in scores], bool(mx), cur] if len(set(scores)) > 1 else None
            res['dist'] = {'n_cands': len(p['cands']), 'has_zero': any(c <= 0 for c in p['cands']), 'maximize': bool(mx),
                           'selected_hard': stored is None, 'init': 'none' if cur is None else ('cand' if cur in p['cands'] else 'other'),
                           'metric': p.get('metric', 'scripted')}
            res['sample'] = {'cands': p['cands'], 'scores': scores, 'maximize': bool(mx), 'init': cur, 'stored': stored, 'best': best}
            out.append(res)
    finally:
        drv.close()
    return out


def gen_cases(run):
    cases = []
    r = run.rng
    maxlen = 3 if run.tier == 'quick' else 4
    for k in range(1, maxlen + 1):
        for cands in itertools.permutations(TEMPS, k):
            for sc in itertools.product([0.0, 1.0, 2.0], repeat=k):
                for mx in (False, True):
                    inits = [None, cands[0], cands[-1], 0.7] if k > 1 else [None, cands[0], 0.7]
                    for init in dict.fromkeys(inits):
                        if init is not None and init <= 0:
                            continue
                        cases.append(dict(family='scripted-exhaustive', cands=list(cands), scores=list(sc), maximize=mx, init=init))
    n_rand = 300 if run.tier == 'quick' else 3000
    for _ in range(n_rand):
        k = r.randint(1, 6)
        pool = [0.0, -1.0, 1e-4, 0.008, 0.025, 0.05, 0.1, 0.5, 1.0, 2.0, 4.5]      # tiny positive temperatures are soft routing too
        cands = [r.choice(pool) for _ in range(k)]           # repeats and several hard candidates allowed
        # scores in other units (losses of tiny or huge targets): the tuner compares scores, it does not measure improvements
        # against an absolute resolution
        unit = r.choice([1.0, 1.0, 1.0, 1e-8, 1e-6, 1e6])
        vals = [round(r.uniform(0, 3), 2) * unit for _ in range(3)]
        by_attr = {}
        sc = []
        for c in cands:
            a = attr_of(c)
            if a not in by_attr:
                by_attr[a] = r.choice(vals)
            sc.append(by_attr[a])
        cases.append(dict(family='scripted-random', cands=cands, scores=sc, maximize=r.random() < 0.5,
                          init=r.choice([None, None, 0.05, 0.5, 0.3, 4.5])))
    # long candidate lists (the default grid has more than twenty entries): every candidate must be scored, however long the
    # run of non-improving candidates before a better one
    for i in range(60 if run.tier == 'quick' else 600):
        k = r.randint(8, 26)
        temps = [0.0] + [round(0.01 * (400.0 ** (j / 30.0)), 6) for j in range(31)]
        cands = r.sample(temps, k)
        unit = r.choice([1.0, 1.0, 1e-6, 1e3])
        mx = r.random() < 0.5
        shape = i % 4
        if shape == 0:     # random scores
            sc = [round(r.uniform(0, 3), 3) * unit for _ in cands]
        else:              # a good candidate early, a long run of worse ones, a strictly better one late
            good, better, bad = (2.0, 2.5, 1.0) if mx else (1.0, 0.5, 2.0)
            sc = [(bad + 0.01 * r.randint(0, 20) * (-1 if mx else 1)) * unit for _ in cands]
            i0 = r.randint(0, 1)
            sc[i0] = good * unit
            sc[r.randint(i0 + 6, k - 1)] = better * unit
            if shape == 3:   # and a tie with the best after it
                sc[-1] = max(sc) if mx else min(sc)
        cases.append(dict(family='scripted-random', cands=cands, scores=sc, maximize=mx, init=r.choice([None, None, 0.05, 0.3])))
    n_real = 8 if run.tier == 'quick' else 48
    metrics = [('reg', 'mse'), ('reg', 'rmse'), ('reg', 'mae'), ('class', 'brier'), ('class', 'logloss'), ('class', 'accuracy'), ('class', 'f1')]
    for i in range(n_real):
        task, metric = metrics[i % len(metrics)]
        cands = r.choice([[0.0, 0.05, 0.5], [0.5, 0.0, 2.0, 0.1], [0.1, 1.0], [0.0, 0.025, 0.2, 1.0, 4.5], [2.0, 0.3, 0.0]]) if i % 4 else \
            r.choice([[0.008], [4.0, 0.008, 2.0], [0.0, 0.003, 0.3], [0.001, 0.5]])
        cases.append(dict(family='real-fits', task=task, metric=metric, cands=cands, n=r.choice([80, 120, 160]), d=r.randint(2, 4),
                          L=r.choice([20, 30, 40]), kernel=r.choice(['l2', 'l2_high_dim']), iters=r.choice([0, 1]),
                          method=r.choice(['random', 'pca', 'top_vector_agop_on_subset']), trees=r.choice([1, 1, 2]),
                          classes=r.choice([2, 3]), mode=r.choice(['zero_one', 'prevalence']), dseed=r.randint(0, 10 ** 6),
                          ctor_temp=r.choice([None, None, 0.5])))
        if i % 3 == 2:
            cases[-1].update(trees=3, cut_trees=True)
    # boundary values of the soft-routing options while tuning: one leaf per sample (cap 1), everything kept (keep 1.0), deep trees
    for i, (task, metric) in enumerate([('reg', 'mse'), ('class', 'brier'), ('class', 'accuracy'), ('reg', 'mae')][: 3 if run.tier == 'quick' else 4]):
        cases.append(dict(family='real-fits', task=task, metric=metric, cands=[[1.0, 0.3, 0.0, 3.0], [0.0, 0.3, 1.0, 3.0], [3.0, 0.5, 0.05]][i % 3],
                          n=160, d=3, L=20, kernel='l2', iters=0, method='random', trees=1, classes=2, mode='zero_one', dseed=r.randint(0, 10 ** 6),
                          ctor_temp=[1.0, None, 3.0][i % 3], cap=1, keep=[0.99, 1.0][i % 2]))
    # validation sets beyond 10,000 rows, metrics that are not row means
    for i, (task, metric) in enumerate([('reg', 'rmse'), ('class', 'f1'), ('class', 'auc')] if run.tier == 'quick' else
                                       [('reg', 'rmse'), ('class', 'f1'), ('class', 'auc'), ('reg', 'rmse'), ('class', 'auc'), ('class', 'f1')]):
        cases.append(dict(family='large-validation', task=task, metric=metric, cands=[0.0, 0.05, 0.3, 1.5], n=120, d=3, L=40, kernel='l2',
                          iters=0, method='random', trees=1 + i % 2, classes=2, mode='zero_one', dseed=r.randint(0, 10 ** 6), ctor_temp=None,
                          nv=[12500, 20500][i % 2]))
    return cases


def check(run):
    run.rule = ('(A) real fit_temperature on a fitted two-leaf model with the metric scripted: EXHAUSTIVE over score alphabet {0,1,2}, all '
                'ordered candidate lists of length 1..3 (thorough 4) from {0, 0.05, 0.5, 2.0, 1.0} (so with/without 0 in any position), both '
                'directions, initial temperature none / first / last candidate / a non-candidate; random lists with repeats, several hard '
                'candidates and ties; (B) real fits with tuning for mse/rmse/mae/brier/logloss/accuracy/f1, every candidate score '
                'recomputed from the public predict/predict_proba. Non-trivial = candidate scores not all equal.')
    run.assumptions = ['scores are finite (NaN excluded)', 'candidate list non-empty',
                       'the score of a candidate depends only on the routing attribute it induces (all candidates <= 0 are hard routing)']
    run.lean()
    run.extra['exhaustive'] = True
    run.extra['exhaustive_part'] = 'family scripted-exhaustive'
    cases = gen_cases(run)
    if run.driver_ok:
        real = [c for c in cases if c['family'] in ('real-fits', 'large-validation')]
        rest = [c for c in cases if c['family'] not in ('real-fits', 'large-validation')]
        jobs = [{'cases': [c]} for c in real] + [{'cases': c} for c in core.chunks(rest, 48)]
        run.absorb('c10', core.pmap(MOD, jobs))


def replay(run, payload):
    run.lean()
    run.absorb('replay', core.pmap(MOD, [{'cases': [payload['params']]}], workers=1))
