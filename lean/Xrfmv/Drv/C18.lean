/- Driver ops for C18: parse a recorded event trace against the bracket grammar of `Model/Effects.lean`. -/
import Xrfmv.Drv.Common
import Xrfmv.Model.Effects

open Lean Xrfmv.Drv

namespace Xrfmv.Drv.C18
open Xrfmv.Effects

/-- `{"e": "getThreads"} | {"e": "setThreads", "n": 3} | {"e": "envGet"} | {"e": "envSet", "v": "..."} | {"e": "envDel"}` -/
def getEvent (j : Json) : Except String Event := do
  let k ← j.getObjValAs? String "e"
  match k with
  | "getThreads" => pure .getThreads
  | "setThreads" => pure (.setThreads (← j.getObjValAs? Nat "n"))
  | "envGet" => pure .envGet
  | "envSet" => pure (.envSet (← j.getObjValAs? String "v"))
  | "envDel" => pure .envDel
  | other => throw s!"bad-op: unknown event {other}"

def getState (j : Json) : Except String State := do
  let th ← j.getObjValAs? Nat "threads"
  let env ← match j.getObjVal? "env" with
    | .ok Json.null => pure none
    | .ok (Json.str v) => pure (some v)
    | .ok _ => throw "bad-op: env must be a string or null"
    | .error _ => throw "bad-op: env missing"
  pure { threads := th, env := env }

def stateJson (s : State) : Json :=
  Json.mkObj [("threads", toJson s.threads), ("env", match s.env with | some v => Json.str v | none => Json.null)]

def getEvents (j : Json) : Except String (List Event) := do
  let arr ← j.getObjValAs? (Array Json) "events"
  arr.toList.mapM getEvent

/-- Parse against the grammar: final state, or the position of the first event that does not fit. -/
def opAccept : Handler := fun j => do
  let s ← getState j
  let evs ← getEvents j
  match accept s evs with
  | .ok s' => pure <| Json.mkObj [("ok", toJson true), ("final", stateJson s')]
  | .error pos => pure <| Json.mkObj [("ok", toJson false), ("pos", toJson pos), ("final", stateJson (exec s evs))]

/-- Plain semantics of a flat trace (used for calls that raise: no grammar claimed). -/
def opExec : Handler := fun j => do
  let s ← getState j
  let evs ← getEvents j
  pure <| Json.mkObj [("final", stateJson (exec s evs))]

def ops : List (String × Handler) := [("accept", opAccept), ("exec", opExec)]

end Xrfmv.Drv.C18
