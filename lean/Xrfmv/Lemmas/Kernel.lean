/-
Helper lemmas about `Xrfmv.Kernel` at `ℝ`.  Property theorems are in `Props/C05.lean`, `Props/C19.lean`.
-/
import Xrfmv.Model.Kernel
import Xrfmv.Lemmas.RealInst
import Mathlib.Analysis.SpecialFunctions.Pow.Real
import Mathlib.Analysis.SpecialFunctions.Sqrt
import Mathlib.Algebra.BigOperators.Fin
import Mathlib.Algebra.BigOperators.Ring.Finset
import Mathlib.Data.Matrix.Mul
import Mathlib.LinearAlgebra.Matrix.Symmetric

namespace Xrfmv.Kernel
open Xrfmv

/-! ### the op classes at `ℝ` -/
@[simp] theorem rpow_real (x y : ℝ) : rpow x y = x ^ y := rfl
@[simp] theorem exp_real (x : ℝ) : exp x = Real.exp x := rfl
@[simp] theorem abs_real (x : ℝ) : HasAbs.abs x = |x| := rfl
@[simp] theorem sqrt_real (x : ℝ) : sqrt x = Real.sqrt x := rfl

theorem sumL_eq_sum (l : List ℝ) : sumL l = l.sum := by
  induction l with
  | nil => rfl
  | cons a l ih => simp [sumL] at ih ⊢; rw [ih]

theorem sumL_nonneg {l : List ℝ} (h : ∀ a ∈ l, 0 ≤ a) : 0 ≤ sumL l := by
  rw [sumL_eq_sum]; exact List.sum_nonneg h

theorem count_eq_length (l : List ℝ) : count l = (l.length : ℝ) := by
  induction l with
  | nil => simp [count, sumL]
  | cons a l ih =>
    simp only [count, sumL, List.map_cons, List.foldr_cons, List.length_cons] at ih ⊢
    rw [ih]; push_cast; ring

/-! ### coordinate differences -/

theorem absDiffs_comm (u v : List ℝ) : absDiffs u v = absDiffs v u := by
  induction u generalizing v with
  | nil => cases v <;> rfl
  | cons a u ih =>
    cases v with
    | nil => rfl
    | cons b v =>
      have := ih v
      simp only [absDiffs, List.zipWith_cons_cons, abs_real] at this ⊢
      rw [this, abs_sub_comm]

theorem absDiffs_self (u : List ℝ) : absDiffs u u = u.map fun _ => 0 := by
  induction u with
  | nil => rfl
  | cons a u ih =>
    simp only [absDiffs, List.zipWith_cons_cons, abs_real, List.map_cons] at ih ⊢
    rw [ih]; simp

theorem absDiffs_nonneg {u v : List ℝ} : ∀ t ∈ absDiffs u v, 0 ≤ t := by
  intro t ht
  simp only [absDiffs, List.mem_iff_getElem, List.getElem_zipWith] at ht
  obtain ⟨i, hi, rfl⟩ := ht
  exact abs_nonneg _

theorem absDiffs_ne_nil {u v : List ℝ} (hu : u ≠ []) (hv : v ≠ []) : absDiffs u v ≠ [] := by
  cases u with
  | nil => exact absurd rfl hu
  | cons a u =>
    cases v with
    | nil => exact absurd rfl hv
    | cons b v => simp [absDiffs]

theorem powSum_comm (p : ℝ) (u v : List ℝ) : powSum p u v = powSum p v u := by
  simp only [powSum, absDiffs_comm u v]

theorem powSum_nonneg (p : ℝ) (u v : List ℝ) : 0 ≤ powSum p u v := by
  apply sumL_nonneg
  intro a ha
  simp only [List.mem_map, rpow_real] at ha
  obtain ⟨t, ht, rfl⟩ := ha
  exact Real.rpow_nonneg (absDiffs_nonneg t ht) p

theorem powSum_self {p : ℝ} (hp : 0 < p) (u : List ℝ) : powSum p u u = 0 := by
  simp only [powSum, absDiffs_self, List.map_map, sumL_eq_sum]
  apply List.sum_eq_zero
  intro a ha
  simp only [List.mem_map, Function.comp, rpow_real] at ha
  obtain ⟨_, _, rfl⟩ := ha
  exact Real.zero_rpow hp.ne'

theorem pdist_comm (p : ℝ) (u v : List ℝ) : pdist p u v = pdist p v u := by
  simp only [pdist, powSum_comm p u v]

theorem pdist_nonneg (p : ℝ) (u v : List ℝ) : 0 ≤ pdist p u v :=
  Real.rpow_nonneg (powSum_nonneg p u v) _

theorem pdist_self {p : ℝ} (hp : 0 < p) (u : List ℝ) : pdist p u u = 0 := by
  simp only [pdist, powSum_self hp, rpow_real]
  exact Real.zero_rpow (one_div_pos.mpr hp).ne'

/-- `(‖u−v‖_p)^p = Σ|u_d−v_d|^p`. -/
theorem pdist_rpow {p : ℝ} (hp : 0 < p) (u v : List ℝ) : (pdist p u v) ^ p = powSum p u v := by
  simp only [pdist, rpow_real]
  rw [← Real.rpow_mul (powSum_nonneg p u v), one_div, inv_mul_cancel₀ hp.ne', Real.rpow_one]

/-! ### the Laplace profile -/

theorem lap_pos (q L d : ℝ) : 0 < lap q L d := Real.exp_pos _

theorem lap_le_one {q L d : ℝ} (hL : 0 < L) (hd : 0 ≤ d) : lap q L d ≤ 1 := by
  simp only [lap, exp_real, rpow_real]
  rw [Real.exp_le_one_iff, neg_div]
  exact neg_nonpos.mpr (div_nonneg (Real.rpow_nonneg hd q) (Real.rpow_nonneg hL.le q))

theorem lap_zero {q : ℝ} (hq : 0 < q) (L : ℝ) : lap q L 0 = 1 := by
  simp [lap, Real.zero_rpow hq.ne']

/-- Scaling distance and bandwidth by the same `c > 0` leaves the profile unchanged. -/
theorem lap_scale {c : ℝ} (hc : 0 < c) (q : ℝ) {L d : ℝ} (hL : 0 ≤ L) (hd : 0 ≤ d) :
    lap q (c * L) (c * d) = lap q L d := by
  simp only [lap, exp_real, rpow_real]
  rw [Real.mul_rpow hc.le hd, Real.mul_rpow hc.le hL, neg_div, neg_div,
    mul_div_mul_left _ _ (Real.rpow_pos_of_pos hc q).ne']

theorem productCore_eq_lpq {q : ℝ} (hq : 0 < q) (L : ℝ) (u v : List ℝ) :
    productCore q L u v = lpqCore q q L u v := by
  simp only [productCore, lpqCore, lap, exp_real, rpow_real]
  rw [pdist_rpow hq]

/-! ### sum-power -/

theorem sumPower_base_mem {q L c : ℝ} (hL : 0 < L) (hc0 : 0 ≤ c) (hc1 : c < 1) {u v : List ℝ}
    (hne : absDiffs u v ≠ []) :
    let e := (absDiffs u v).map fun t => exp (-(rpow t q) / rpow L q)
    0 < (1 - c) * (sumL e / count e) + c ∧ (1 - c) * (sumL e / count e) + c ≤ 1 := by
  intro e
  have hlen : 0 < (e.length : ℝ) := by
    have : e.length ≠ 0 := by simpa [e] using hne
    exact_mod_cast Nat.pos_of_ne_zero this
  have hpos : ∀ a ∈ e, 0 < a := by
    intro a ha
    simp only [e, List.mem_map, exp_real] at ha
    obtain ⟨t, _, rfl⟩ := ha
    exact Real.exp_pos _
  have hle : ∀ a ∈ e, a ≤ 1 := by
    intro a ha
    simp only [e, List.mem_map] at ha
    obtain ⟨t, ht, rfl⟩ := ha
    exact lap_le_one (q := q) hL (absDiffs_nonneg t ht)
  have hs_pos : 0 < sumL e := by
    rw [sumL_eq_sum]
    cases he : e with
    | nil => simp [he] at hlen
    | cons a l =>
      rw [he] at hpos
      rw [List.sum_cons]
      have h1 : 0 < a := hpos a (by simp)
      have h2 : 0 ≤ l.sum := List.sum_nonneg fun b hb => (hpos b (by simp [hb])).le
      linarith
  have hs_le : sumL e ≤ e.length := by
    rw [sumL_eq_sum]
    have := List.sum_le_card_nsmul e 1 hle
    simpa using this
  have hm_pos : 0 < sumL e / count e := by rw [count_eq_length]; exact div_pos hs_pos hlen
  have hm_le : sumL e / count e ≤ 1 := by rw [count_eq_length, div_le_one hlen]; exact hs_le
  have h1c : 0 < 1 - c := by linarith
  constructor
  · have := mul_pos h1c hm_pos; linarith
  · nlinarith

/-! ### transforms are linear -/

theorem zipWith_mul_smul (c : ℝ) (x v : List ℝ) :
    List.zipWith (· * ·) (x.map (c * ·)) v = (List.zipWith (· * ·) x v).map (c * ·) := by
  induction x generalizing v with
  | nil => simp
  | cons a x ih =>
    cases v with
    | nil => simp
    | cons b v => simp [ih, mul_assoc]

theorem sumL_smul (c : ℝ) (l : List ℝ) : sumL (l.map (c * ·)) = c * sumL l := by
  rw [sumL_eq_sum, sumL_eq_sum, List.sum_map_mul_left]; simp

theorem dot_smul_left (c : ℝ) (x y : List ℝ) : dot (x.map (c * ·)) y = c * dot x y := by
  simp only [dot, zipWith_mul_smul, sumL_smul]

theorem dot_comm (x y : List ℝ) : dot x y = dot y x := by
  simp only [dot]
  congr 1
  induction x generalizing y with
  | nil => cases y <;> rfl
  | cons a x ih =>
    cases y with
    | nil => rfl
    | cons b y => simp [ih y, mul_comm]

theorem dot_smul_right (c : ℝ) (x y : List ℝ) : dot x (y.map (c * ·)) = c * dot x y := by
  rw [dot_comm, dot_smul_left, dot_comm]

theorem applyT_smul (c : ℝ) (T : Transform ℝ) (x : List ℝ) :
    applyT T (x.map (c * ·)) = (applyT T x).map (c * ·) := by
  cases T with
  | none => rfl
  | diag v => simp only [applyT, zipWith_mul_smul]
  | full cols =>
    simp only [applyT, List.map_map, Function.comp_def]
    exact List.map_congr_left fun col _ => dot_smul_left c x col

theorem absDiffs_smul {c : ℝ} (hc : 0 < c) (u v : List ℝ) :
    absDiffs (u.map (c * ·)) (v.map (c * ·)) = (absDiffs u v).map (c * ·) := by
  induction u generalizing v with
  | nil => simp [absDiffs]
  | cons a u ih =>
    cases v with
    | nil => simp [absDiffs]
    | cons b v =>
      have := ih v
      simp only [absDiffs, List.map_cons, List.zipWith_cons_cons, abs_real] at this ⊢
      rw [this, ← mul_sub, abs_mul, abs_of_pos hc]

theorem powSum_smul {c : ℝ} (hc : 0 < c) (p : ℝ) (u v : List ℝ) :
    powSum p (u.map (c * ·)) (v.map (c * ·)) = c ^ p * powSum p u v := by
  simp only [powSum, absDiffs_smul hc, List.map_map, ← sumL_smul]
  congr 1
  apply List.map_congr_left
  intro t ht
  simp only [Function.comp, rpow_real]
  exact Real.mul_rpow hc.le (absDiffs_nonneg t ht)

/-- `‖cu − cv‖_p = c‖u − v‖_p` for `c > 0`. -/
theorem pdist_smul {c : ℝ} (hc : 0 < c) {p : ℝ} (hp : 0 < p) (u v : List ℝ) :
    pdist p (u.map (c * ·)) (v.map (c * ·)) = c * pdist p u v := by
  simp only [pdist, powSum_smul hc, rpow_real]
  rw [Real.mul_rpow (Real.rpow_nonneg hc.le p) (powSum_nonneg p u v), ← Real.rpow_mul hc.le,
    one_div, mul_inv_cancel₀ hp.ne', Real.rpow_one]

theorem lightSq_smul (c : ℝ) (M : Transform ℝ) (x z : List ℝ) :
    lightSq M (x.map (c * ·)) (z.map (c * ·)) = c ^ 2 * lightSq M x z := by
  simp only [lightSq, applyT_smul, dot_smul_left, dot_smul_right]
  ring

/-! ### lists of the form `List.ofFn` (vectors of a fixed dimension) -/

theorem zipWith_ofFn {β γ δ : Type} (f : β → γ → δ) {d : ℕ} (a : Fin d → β) (b : Fin d → γ) :
    List.zipWith f (List.ofFn a) (List.ofFn b) = List.ofFn fun i => f (a i) (b i) := by
  apply List.ext_getElem
  · simp
  · intro i h1 h2
    simp

theorem sumL_ofFn {d : ℕ} (a : Fin d → ℝ) : sumL (List.ofFn a) = ∑ i, a i := by
  rw [sumL_eq_sum, List.sum_ofFn]

theorem dot_ofFn {d : ℕ} (a b : Fin d → ℝ) : dot (List.ofFn a) (List.ofFn b) = a ⬝ᵥ b := by
  simp only [dot, zipWith_ofFn, sumL_ofFn, dotProduct]

/-- the columns of a matrix, as `Transform.full` wants them -/
def colsOf {d e : ℕ} (A : Matrix (Fin d) (Fin e) ℝ) : List (List ℝ) :=
  List.ofFn fun j => List.ofFn fun i => A i j

theorem applyT_full_ofFn {d e : ℕ} (A : Matrix (Fin d) (Fin e) ℝ) (x : Fin d → ℝ) :
    applyT (.full (colsOf A)) (List.ofFn x) = List.ofFn (Matrix.vecMul x A) := by
  simp only [applyT, colsOf, List.map_ofFn, Function.comp_def, dot_ofFn]
  rfl

theorem applyT_diag_ofFn {d : ℕ} (v x : Fin d → ℝ) :
    applyT (.diag (List.ofFn v)) (List.ofFn x) = List.ofFn fun i => x i * v i := by
  simp only [applyT, zipWith_ofFn]

theorem powSum_two_ofFn {d : ℕ} (a b : Fin d → ℝ) :
    powSum 2 (List.ofFn a) (List.ofFn b) = ∑ i, (a i - b i) ^ 2 := by
  simp only [powSum, absDiffs, zipWith_ofFn, List.map_ofFn, Function.comp_def, sumL_ofFn, abs_real, rpow_real]
  apply Finset.sum_congr rfl
  intro i _
  rw [Real.rpow_two, sq_abs]

theorem sum_sq_sub {d : ℕ} (a b : Fin d → ℝ) :
    a ⬝ᵥ a - 2 * (a ⬝ᵥ b) + b ⬝ᵥ b = ∑ i, (a i - b i) ^ 2 := by
  simp only [dotProduct, Finset.mul_sum, ← Finset.sum_sub_distrib, ← Finset.sum_add_distrib]
  apply Finset.sum_congr rfl
  intro i _
  ring

/-- For symmetric `T`: `xᵀ(T·T)z = ⟨xT, zT⟩`. -/
theorem vecMul_sq_dot {d : ℕ} (T : Matrix (Fin d) (Fin d) ℝ) (hT : T.IsSymm) (x z : Fin d → ℝ) :
    Matrix.vecMul x (T * T) ⬝ᵥ z = Matrix.vecMul x T ⬝ᵥ Matrix.vecMul z T := by
  rw [← Matrix.vecMul_vecMul, ← Matrix.dotProduct_mulVec]
  congr 1
  rw [← Matrix.vecMul_transpose, hT.eq]

/-- **light = L2, full transform.**  `xᵀMx − 2xᵀMz + zᵀMz = ‖xT − zT‖₂²` for symmetric `T`, `M = T·T`. -/
theorem lightSq_full {d : ℕ} (T : Matrix (Fin d) (Fin d) ℝ) (hT : T.IsSymm) (x z : Fin d → ℝ) :
    lightSq (.full (colsOf (T * T))) (List.ofFn x) (List.ofFn z) =
      powSum 2 (applyT (.full (colsOf T)) (List.ofFn x)) (applyT (.full (colsOf T)) (List.ofFn z)) := by
  simp only [lightSq, applyT_full_ofFn, dot_ofFn, powSum_two_ofFn]
  rw [vecMul_sq_dot T hT, vecMul_sq_dot T hT, vecMul_sq_dot T hT, sum_sq_sub]

/-- **light = L2, diagonal transform** `T = diag v`, `M = diag v²`. -/
theorem lightSq_diag {d : ℕ} (v x z : Fin d → ℝ) :
    lightSq (.diag (List.ofFn fun i => v i * v i)) (List.ofFn x) (List.ofFn z) =
      powSum 2 (applyT (.diag (List.ofFn v)) (List.ofFn x)) (applyT (.diag (List.ofFn v)) (List.ofFn z)) := by
  simp only [lightSq, applyT_diag_ofFn, dot_ofFn, powSum_two_ofFn, dotProduct, Finset.mul_sum,
    ← Finset.sum_sub_distrib, ← Finset.sum_add_distrib]
  apply Finset.sum_congr rfl
  intro i _
  ring

/-- **light = L2, no transform.** -/
theorem lightSq_none {d : ℕ} (x z : Fin d → ℝ) :
    lightSq .none (List.ofFn x) (List.ofFn z) =
      powSum 2 (applyT .none (List.ofFn x)) (applyT .none (List.ofFn z)) := by
  simp only [lightSq, applyT, dot_ofFn, powSum_two_ofFn]
  exact sum_sq_sub x z

/-- Symmetry of the bilinear form of a symmetric matrix. -/
theorem symmForm_full {d : ℕ} (M : Matrix (Fin d) (Fin d) ℝ) (hM : M.IsSymm) (x z : Fin d → ℝ) :
    dot (applyT (.full (colsOf M)) (List.ofFn x)) (List.ofFn z) =
      dot (applyT (.full (colsOf M)) (List.ofFn z)) (List.ofFn x) := by
  simp only [applyT_full_ofFn, dot_ofFn]
  rw [← Matrix.dotProduct_mulVec, ← Matrix.vecMul_transpose, hM.eq, dotProduct_comm]

theorem symmForm_none (x z : List ℝ) : dot (applyT .none x) z = dot (applyT .none z) x := dot_comm x z

theorem symmForm_diag (v x z : List ℝ) :
    dot (applyT (.diag v) x) z = dot (applyT (.diag v) z) x := by
  simp only [applyT, dot]
  congr 1
  induction x generalizing v z with
  | nil => cases z <;> cases v <;> simp
  | cons a x ih =>
    cases v with
    | nil => cases z <;> simp
    | cons b v =>
      cases z with
      | nil => simp
      | cons e z => simp [ih v z]; ring

/-! ### the light kernel through its distance -/

theorem lightProfile_eq (q L : ℝ) (M : Transform ℝ) (x z : List ℝ) :
    lightEntry q L M x z = exp (-(rpow (max (lightSq M x z) 0) (q / 2)) / rpow L q) := rfl

/-- `max(s,0)^(q/2) = sqrt(max(s,0))^q`: the light kernel is the Laplace profile of its distance. -/
theorem lightEntry_eq_lap (q L : ℝ) (M : Transform ℝ) (x z : List ℝ) :
    lightEntry q L M x z = lap q L (sqrt (max (lightSq M x z) 0)) := by
  rw [lightProfile_eq]
  simp only [lap, exp_real, rpow_real, sqrt_real]
  rw [Real.sqrt_eq_rpow, ← Real.rpow_mul (le_max_right _ _)]
  congr 4
  ring

end Xrfmv.Kernel
