import Xrfmv.Props.C09
#print axioms Xrfmv.Props.C09.documented_weights
#print axioms Xrfmv.Props.C09.cache_paths
#print axioms Xrfmv.Props.C09.weights_simplex
#print axioms Xrfmv.Props.C09.kept_set
#print axioms Xrfmv.Props.C09.convex_hull
#print axioms Xrfmv.Props.C09.hard_when_dominant
#print axioms Xrfmv.Props.C09.limit_T0
#print axioms Xrfmv.Props.C09.limit_T0_gates
