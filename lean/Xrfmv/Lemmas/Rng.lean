/-
Lemmas about the explicit-state RNG model (`Xrfmv/Model/Rng.lean`).  Core Lean only.
-/
import Xrfmv.Model.Rng

namespace Xrfmv.Rng
open Xrfmv.Gen.Rng

/-- Two RNG states look the same to every draw site that reads a generator in `G`. -/
def AgreeOn (G : List Gen) (a b : Rng) : Prop := ∀ gen ∈ G, observe gen a = observe gen b

theorem observe_consume (gen gen' : Gen) (k : Nat) (a b : Rng) (h : observe gen a = observe gen b) :
    observe gen (consume gen' k a) = observe gen (consume gen' k b) := by
  cases gen <;> cases gen' <;> simp_all [observe, consume]

theorem AgreeOn.consume {G : List Gen} {a b : Rng} (h : AgreeOn G a b) (gen' : Gen) (k : Nat) :
    AgreeOn G (consume gen' k a) (consume gen' k b) :=
  fun gen hg => observe_consume gen gen' k a b (h gen hg)

/-- Draw sites that only read generators on which the two states agree see the same values, whatever their
number and order. -/
theorem run_congr {G : List Gen} (sites : List Gen) :
    ∀ {a b : Rng}, AgreeOn G a b → (∀ x ∈ sites, x ∈ G) → run sites a = run sites b := by
  induction sites with
  | nil => intro a b _ _; rfl
  | cons x rest ih =>
      intro a b h hs
      have hx : x ∈ G := hs x (List.mem_cons_self ..)
      have hr : ∀ y ∈ rest, y ∈ G := fun y hy => hs y (List.mem_cons_of_mem _ hy)
      simp only [run]
      rw [h x hx, ih (h.consume x 1) hr]

theorem observe_seedWith {L : List Gen} {gen : Gen} (hm : gen ∈ L) (hg : isGlobal gen = true) (s : Nat) (g : Rng) :
    observe gen (seedWith L s g) = some ⟨s, 0⟩ := by
  cases gen <;> simp_all [observe, seedWith, isGlobal]

/-- After seeding, any two prior states are indistinguishable through seeded global generators. -/
theorem agreeOn_seedWith {L G : List Gen} (hG : ∀ gen ∈ G, gen ∈ L ∧ isGlobal gen = true) (s : Nat) (a b : Rng) :
    AgreeOn G (seedWith L s a) (seedWith L s b) := by
  intro gen hg
  rw [observe_seedWith (hG gen hg).1 (hG gen hg).2, observe_seedWith (hG gen hg).1 (hG gen hg).2]

end Xrfmv.Rng
