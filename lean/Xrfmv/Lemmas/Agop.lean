/-
Helper lemmas for C14 at `ℝ` about `Xrfmv/Model/Agop.lean`: batch additivity and permutation invariance of the
uncentred AGOP, symmetry, the quadratic form `xᵀ(GᵀG)x = Σ(g·x)²`, largest entry of a symmetric PSD matrix,
normalisation, roots.  Property theorems are in `Props/C14.lean`.
-/
import Xrfmv.Model.Agop
import Xrfmv.Lemmas.Grad
import Mathlib.Data.List.Perm.Basic
import Mathlib.Algebra.BigOperators.Ring.Finset
import Mathlib.Algebra.Order.BigOperators.Group.Finset
import Mathlib.Data.Matrix.Mul
import Mathlib.Data.Matrix.Diagonal
import Mathlib.Order.Fin.Basic
import Mathlib.Data.Fintype.Basic

namespace Xrfmv.Agop
open Xrfmv.Grad

/-- Entry `(i, j)` of a matrix given as a list of rows. -/
def entry (M : List (List ℝ)) (i j : ℕ) : ℝ := (M.getD i []).getD j 0

/-- `Σ_rows g_i·g_j`. -/
def gram (G : List (List ℝ)) (i j : ℕ) : ℝ := vsum (G.map fun g => g.getD i 0 * g.getD j 0)

theorem getD_map_range {β : Type} (f : ℕ → β) (d i : ℕ) (hi : i < d) (dflt : β) :
    ((List.range d).map f).getD i dflt = f i := by
  rw [List.getD_eq_getElem?_getD, List.getElem?_map, List.getElem?_range hi]
  rfl

theorem entry_agopFull (d : ℕ) (G : List (List ℝ)) (i j : ℕ) (hi : i < d) (hj : j < d) :
    entry (agopFull d G) i j = gram G i j := by
  unfold entry agopFull gram
  rw [getD_map_range _ d i hi, getD_map_range _ d j hj]

theorem getD_agopDiag (d : ℕ) (G : List (List ℝ)) (i : ℕ) (hi : i < d) :
    (agopDiag d G).getD i 0 = gram G i i := by
  unfold agopDiag gram
  rw [getD_map_range _ d i hi]

/-- Diagonal mode is the diagonal of the full AGOP. -/
theorem agopDiag_eq_diagonal (d : ℕ) (G : List (List ℝ)) (i : ℕ) (hi : i < d) :
    (agopDiag d G).getD i 0 = entry (agopFull d G) i i := by
  rw [getD_agopDiag d G i hi, entry_agopFull d G i i hi hi]

theorem gram_append (G₁ G₂ : List (List ℝ)) (i j : ℕ) : gram (G₁ ++ G₂) i j = gram G₁ i j + gram G₂ i j := by
  unfold gram; rw [List.map_append, vsum_append]

theorem agopFull_append (d : ℕ) (G₁ G₂ : List (List ℝ)) :
    agopFull d (G₁ ++ G₂) = madd (agopFull d G₁) (agopFull d G₂) := by
  unfold agopFull madd vadd
  rw [List.zipWith_map, List.zipWith_self]
  refine List.map_congr_left fun i _ => ?_
  rw [List.zipWith_map, List.zipWith_self]
  refine List.map_congr_left fun j _ => ?_
  exact gram_append G₁ G₂ i j

theorem agopDiag_append (d : ℕ) (G₁ G₂ : List (List ℝ)) :
    agopDiag d (G₁ ++ G₂) = vadd (agopDiag d G₁) (agopDiag d G₂) := by
  unfold agopDiag vadd
  rw [List.zipWith_map, List.zipWith_self]
  refine List.map_congr_left fun i _ => ?_
  exact gram_append G₁ G₂ i i

theorem agopFull_nil (d : ℕ) : agopFull d ([] : List (List ℝ)) = mzero d := by
  unfold agopFull mzero vzero
  simp only [List.map_nil, vsum_nil]
  rw [List.map_const', List.map_const', List.length_range]

theorem agopDiag_nil (d : ℕ) : agopDiag d ([] : List (List ℝ)) = vzero d := by
  unfold agopDiag vzero
  simp only [List.map_nil, vsum_nil]
  rw [List.map_const', List.length_range]

theorem foldl_full (d : ℕ) : ∀ (batches : List (List (List ℝ))) (G₀ : List (List ℝ)),
    batches.foldl (fun acc B => madd acc (agopFull d B)) (agopFull d G₀) = agopFull d (G₀ ++ batches.flatten)
  | [], G₀ => by simp
  | B :: bs, G₀ => by
    rw [List.foldl_cons, ← agopFull_append, foldl_full d bs (G₀ ++ B), List.flatten_cons, List.append_assoc]

theorem foldl_diag (d : ℕ) : ∀ (batches : List (List (List ℝ))) (G₀ : List (List ℝ)),
    batches.foldl (fun acc B => vadd acc (agopDiag d B)) (agopDiag d G₀) = agopDiag d (G₀ ++ batches.flatten)
  | [], G₀ => by simp
  | B :: bs, G₀ => by
    rw [List.foldl_cons, ← agopDiag_append, foldl_diag d bs (G₀ ++ B), List.flatten_cons, List.append_assoc]

/-- Without centring, accumulating over any list of batches gives the AGOP of all rows. -/
theorem accumFull_uncentred (d : ℕ) (batches : List (List (List ℝ))) :
    accumFull d false batches = agopFull d batches.flatten := by
  unfold accumFull batchFull
  simp only [Bool.false_eq_true, if_false]
  rw [← agopFull_nil, foldl_full d batches []]; rfl

theorem accumDiag_uncentred (d : ℕ) (batches : List (List (List ℝ))) :
    accumDiag d false batches = agopDiag d batches.flatten := by
  unfold accumDiag batchDiag
  simp only [Bool.false_eq_true, if_false]
  rw [← agopDiag_nil, foldl_diag d batches []]; rfl

theorem vsum_perm {l₁ l₂ : List ℝ} (h : l₁.Perm l₂) : vsum l₁ = vsum l₂ := by
  induction h with
  | nil => rfl
  | cons x _ ih => simp [ih]
  | swap x y l => simp only [vsum_cons]; ring
  | trans _ _ ih₁ ih₂ => rw [ih₁, ih₂]

theorem gram_perm {G₁ G₂ : List (List ℝ)} (h : G₁.Perm G₂) (i j : ℕ) : gram G₁ i j = gram G₂ i j :=
  vsum_perm (h.map _)

theorem agopFull_perm (d : ℕ) {G₁ G₂ : List (List ℝ)} (h : G₁.Perm G₂) : agopFull d G₁ = agopFull d G₂ := by
  unfold agopFull
  refine List.map_congr_left fun i _ => List.map_congr_left fun j _ => ?_
  exact gram_perm h i j

theorem agopDiag_perm (d : ℕ) {G₁ G₂ : List (List ℝ)} (h : G₁.Perm G₂) : agopDiag d G₁ = agopDiag d G₂ := by
  unfold agopDiag
  refine List.map_congr_left fun i _ => ?_
  exact gram_perm h i i

theorem gram_symm (G : List (List ℝ)) (i j : ℕ) : gram G i j = gram G j i := by
  unfold gram; congr 1; refine List.map_congr_left fun g _ => mul_comm _ _

theorem gram_diag_nonneg (G : List (List ℝ)) (i : ℕ) : 0 ≤ gram G i i := by
  unfold gram
  have := vsum_map_nonneg (fun t : ℝ => t * t) (fun t => mul_self_nonneg t) (G.map fun g => g.getD i 0)
  rwa [List.map_map] at this

/-- `xᵀ(GᵀG)x = Σ_rows (g·x)²`. -/
theorem gram_quadratic {d : ℕ} (x : Fin d → ℝ) : ∀ G : List (List ℝ),
    ∑ i : Fin d, ∑ j : Fin d, x i * gram G i j * x j = vsum (G.map fun g => (∑ i : Fin d, g.getD i 0 * x i) ^ 2)
  | [] => by simp [gram]
  | g :: G => by
    have ih := gram_quadratic x G
    have e : ∀ i j : ℕ, gram (g :: G) i j = g.getD i 0 * g.getD j 0 + gram G i j := fun i j => rfl
    simp only [e, List.map_cons, vsum_cons, ← ih]
    rw [sq, Finset.sum_mul_sum, ← Finset.sum_add_distrib]
    refine Finset.sum_congr rfl fun i _ => ?_
    rw [← Finset.sum_add_distrib]
    refine Finset.sum_congr rfl fun j _ => ?_
    ring


/-! ### symmetric matrices with non-negative quadratic form -/

/-- Quadratic form `xᵀMx` written with explicit sums. -/
def quad {d : ℕ} (M : Fin d → Fin d → ℝ) (x : Fin d → ℝ) : ℝ := ∑ i, ∑ j, x i * M i j * x j

theorem quad_diff {d : ℕ} (M : Fin d → Fin d → ℝ) (i j : Fin d) (σ : ℝ) :
    quad M (fun a => (if a = i then 1 else 0) + σ * (if a = j then 1 else 0))
      = M i i + σ * M i j + σ * M j i + σ * σ * M j j := by
  unfold quad
  simp only [add_mul, mul_add, Finset.sum_add_distrib, ite_mul, mul_ite, one_mul, zero_mul, mul_zero, mul_one,
    Finset.sum_ite_eq', Finset.sum_ite_eq, Finset.mem_univ, if_true, Finset.sum_const_zero]
  ring

/-- For a symmetric matrix with non-negative quadratic form every entry is bounded by the mean of the two diagonal
entries of its row and column, in absolute value. -/
theorem psd_entry_le {d : ℕ} (M : Fin d → Fin d → ℝ) (hs : ∀ i j, M i j = M j i) (hp : ∀ x, 0 ≤ quad M x)
    (i j : Fin d) : |M i j| ≤ (M i i + M j j) / 2 := by
  have h1 := hp (fun a => (if a = i then 1 else 0) + (-1) * (if a = j then 1 else 0))
  have h2 := hp (fun a => (if a = i then 1 else 0) + 1 * (if a = j then 1 else 0))
  rw [quad_diff] at h1 h2
  rw [hs j i] at h1 h2
  rw [abs_le]; constructor <;> linarith

theorem psd_diag_nonneg {d : ℕ} (M : Fin d → Fin d → ℝ) (hp : ∀ x, 0 ≤ quad M x) (i : Fin d) : 0 ≤ M i i := by
  have h := hp (fun a => (if a = i then 1 else 0) + 0 * (if a = i then 1 else 0))
  rw [quad_diff] at h
  linarith

/-- `psd_max_on_diag`: the largest entry of a symmetric PSD matrix is attained on the diagonal and is `≥ 0`. -/
theorem psd_max_on_diag' {d : ℕ} (hd : 0 < d) (M : Fin d → Fin d → ℝ) (hs : ∀ i j, M i j = M j i)
    (hp : ∀ x, 0 ≤ quad M x) : ∃ k : Fin d, 0 ≤ M k k ∧ ∀ i j, M i j ≤ M k k := by
  haveI : Nonempty (Fin d) := ⟨⟨0, hd⟩⟩
  obtain ⟨k, _, hk⟩ := Finset.exists_max_image Finset.univ (fun i => M i i) Finset.univ_nonempty
  refine ⟨k, psd_diag_nonneg M hp k, fun i j => ?_⟩
  have h := psd_entry_le M hs hp i j
  have hi := hk i (Finset.mem_univ _)
  have hj := hk j (Finset.mem_univ _)
  have := le_abs_self (M i j)
  linarith

/-- A symmetric PSD matrix with a non-zero entry has a positive diagonal maximum. -/
theorem psd_max_pos {d : ℕ} (M : Fin d → Fin d → ℝ) (hs : ∀ i j, M i j = M j i) (hp : ∀ x, 0 ≤ quad M x)
    (k : Fin d) (hk : ∀ i j, M i j ≤ M k k) (hne : ∃ i j, M i j ≠ 0) : 0 < M k k := by
  obtain ⟨i, j, hij⟩ := hne
  have h := psd_entry_le M hs hp i j
  have hpos : 0 < |M i j| := abs_pos.2 hij
  have := hk i i
  have := hk j j
  linarith

/-- `normalised_max_one` (regulariser idealised to 0): dividing a non-zero symmetric PSD matrix by its largest entry
gives a matrix whose largest entry is exactly 1, attained on the diagonal. -/
theorem normalised_max_one' {d : ℕ} (hd : 0 < d) (M : Fin d → Fin d → ℝ) (hs : ∀ i j, M i j = M j i)
    (hp : ∀ x, 0 ≤ quad M x) (hne : ∃ i j, M i j ≠ 0) :
    ∃ k : Fin d, 0 < M k k ∧ (∀ i j, M i j ≤ M k k) ∧ M k k / M k k = 1 ∧ ∀ i j, M i j / M k k ≤ 1 := by
  obtain ⟨k, _, hk⟩ := psd_max_on_diag' hd M hs hp
  have hpos := psd_max_pos M hs hp k hk hne
  exact ⟨k, hpos, hk, div_self hpos.ne', fun i j => (div_le_one hpos).2 (hk i j)⟩

open Matrix in
/-- `root_squares_back`: `(U·diag(√s)·Uᵀ)² = U·diag(s)·Uᵀ` for `UᵀU = I`, `s ≥ 0`. -/
theorem root_squares_back' {d : ℕ} (U : Matrix (Fin d) (Fin d) ℝ) (s : Fin d → ℝ) (hU : Uᵀ * U = 1)
    (hs : ∀ i, 0 ≤ s i) :
    (U * Matrix.diagonal (fun i => Real.sqrt (s i)) * Uᵀ) * (U * Matrix.diagonal (fun i => Real.sqrt (s i)) * Uᵀ)
      = U * Matrix.diagonal s * Uᵀ := by
  have hd : Matrix.diagonal (fun i => Real.sqrt (s i)) * Matrix.diagonal (fun i => Real.sqrt (s i)) = Matrix.diagonal s := by
    rw [Matrix.diagonal_mul_diagonal]
    congr 1; funext i; exact Real.mul_self_sqrt (hs i)
  calc (U * Matrix.diagonal (fun i => Real.sqrt (s i)) * Uᵀ) * (U * Matrix.diagonal (fun i => Real.sqrt (s i)) * Uᵀ)
      = U * Matrix.diagonal (fun i => Real.sqrt (s i)) * (Uᵀ * U) * Matrix.diagonal (fun i => Real.sqrt (s i)) * Uᵀ := by
        simp only [Matrix.mul_assoc]
    _ = U * (Matrix.diagonal (fun i => Real.sqrt (s i)) * Matrix.diagonal (fun i => Real.sqrt (s i))) * Uᵀ := by
        rw [hU, Matrix.mul_one]; simp only [Matrix.mul_assoc]
    _ = U * Matrix.diagonal s * Uᵀ := by rw [hd]


/-! ### largest entry and normalisation on the list model; diagonal root -/

theorem maxList_cons_cons (a b : ℝ) (l : List ℝ) :
    maxList (a :: b :: l) = if maxList (b :: l) < a then a else maxList (b :: l) := rfl

theorem le_maxList : ∀ (l : List ℝ) (x : ℝ), x ∈ l → x ≤ maxList l
  | [], _, h => by simp at h
  | [a], x, h => by simp at h; subst h; exact le_refl _
  | a :: b :: l, x, h => by
    rw [maxList_cons_cons]
    rcases List.mem_cons.1 h with rfl | h'
    · split_ifs with hlt
      · exact le_refl _
      · exact not_lt.1 hlt
    · have ih := le_maxList (b :: l) x h'
      split_ifs with hlt
      · exact le_trans ih hlt.le
      · exact ih

theorem maxList_mem : ∀ (l : List ℝ), l ≠ [] → maxList l ∈ l
  | [], h => absurd rfl h
  | [a], _ => by simp [maxList]
  | a :: b :: l, _ => by
    rw [maxList_cons_cons]
    have ih := maxList_mem (b :: l) (by simp)
    split_ifs
    · exact List.mem_cons_self
    · exact List.mem_cons_of_mem _ ih

/-- The maximum is characterised by membership and being an upper bound. -/
theorem maxList_eq_of (l : List ℝ) (m : ℝ) (hm : m ∈ l) (hub : ∀ x ∈ l, x ≤ m) : maxList l = m := by
  have hne : l ≠ [] := List.ne_nil_of_mem hm
  exact le_antisymm (hub _ (maxList_mem l hne)) (le_maxList l m hm)

/-- `normalised_max_one` on the list model (regulariser idealised to 0): if the largest entry is positive, the
largest entry of `M / M.max()` is exactly 1. -/
theorem maxEntry_normalise (M : List (List ℝ)) (hpos : 0 < maxEntry M) : maxEntry (normalise 0 M) = 1 := by
  have hflat : (normalise 0 M).flatten = M.flatten.map (· / (maxEntry M + 0)) := by
    unfold normalise; simp only []; rw [List.map_flatten]
  unfold maxEntry at hpos ⊢
  rw [hflat]
  have hne : M.flatten ≠ [] := by
    intro h; rw [h] at hpos; simp [maxList] at hpos
  refine maxList_eq_of _ 1 ?_ ?_
  · refine List.mem_map.2 ⟨maxList M.flatten, maxList_mem _ hne, ?_⟩
    show maxList M.flatten / (maxEntry M + 0) = 1
    unfold maxEntry; rw [add_zero]; exact div_self hpos.ne'
  · intro x hx
    obtain ⟨y, hy, rfl⟩ := List.mem_map.1 hx
    show y / (maxEntry M + 0) ≤ 1
    unfold maxEntry; rw [add_zero]
    exact (div_le_one hpos).2 (le_maxList _ y hy)

/-- With the regulariser kept (`jitter = j ≥ 0`, `1e-30` in the code): the largest entry of `M / (M.max() + j)` is
`m / (m + j)` for `m = M.max() > 0` — within `j / m` of one. -/
theorem maxEntry_normalise_jitter (M : List (List ℝ)) (j : ℝ) (hj : 0 ≤ j) (hpos : 0 < maxEntry M) :
    maxEntry (normalise j M) = maxEntry M / (maxEntry M + j) := by
  have hflat : (normalise j M).flatten = M.flatten.map (· / (maxEntry M + j)) := by
    unfold normalise; simp only []; rw [List.map_flatten]
  have hden : 0 < maxEntry M + j := by linarith
  unfold maxEntry at hpos hden ⊢
  rw [hflat]
  have hne : M.flatten ≠ [] := by
    intro h; rw [h] at hpos; simp [maxList] at hpos
  refine maxList_eq_of _ _ ?_ ?_
  · exact List.mem_map.2 ⟨maxList M.flatten, maxList_mem _ hne, rfl⟩
  · intro x hx
    obtain ⟨y, hy, rfl⟩ := List.mem_map.1 hx
    exact div_le_div_of_nonneg_right (le_maxList _ y hy) hden.le

theorem normalise_jitter_close (m j : ℝ) (hm : 0 < m) (hj : 0 ≤ j) : |m / (m + j) - 1| ≤ j / m := by
  have hden : 0 < m + j := by linarith
  have h : m / (m + j) - 1 = -(j / (m + j)) := by field_simp; ring
  rw [h, abs_neg, abs_of_nonneg (div_nonneg hj hden.le)]
  exact div_le_div_of_nonneg_left hj hm (by linarith)

/-- Diagonal mode. -/
theorem maxList_normaliseVec (v : List ℝ) (hpos : 0 < maxList v) : maxList (normaliseVec 0 v) = 1 := by
  have hne : v ≠ [] := by
    intro h; rw [h] at hpos; simp [maxList] at hpos
  unfold normaliseVec; simp only [add_zero]
  refine maxList_eq_of _ 1 ?_ ?_
  · exact List.mem_map.2 ⟨maxList v, maxList_mem _ hne, div_self hpos.ne'⟩
  · intro x hx
    obtain ⟨y, hy, rfl⟩ := List.mem_map.1 hx
    exact (div_le_one hpos).2 (le_maxList _ y hy)

theorem clamp0_of_nonneg (x : ℝ) (h : 0 ≤ x) : clamp0 x = x := by
  unfold clamp0; rw [if_neg (not_lt.2 h)]

/-- Diagonal analogue of `root_squares_back`: the entrywise root squares back to a non-negative vector. -/
theorem rootDiag_squares (m : List ℝ) (h : ∀ x ∈ m, 0 ≤ x) : (rootDiag m).map (fun x => x * x) = m := by
  unfold rootDiag
  rw [List.map_map]
  conv_rhs => rw [← List.map_id m]
  refine List.map_congr_left fun x hx => ?_
  simp only [Function.comp, sqrt_real, id]
  rw [clamp0_of_nonneg x (h x hx), Real.mul_self_sqrt (h x hx)]


/-! ### the AGOP as a symmetric PSD matrix -/

/-- The AGOP of the rows `G` as a function on `Fin d × Fin d`. -/
def agopMat (d : ℕ) (G : List (List ℝ)) : Fin d → Fin d → ℝ := fun i j => entry (agopFull d G) i j

theorem agopMat_eq (d : ℕ) (G : List (List ℝ)) (i j : Fin d) : agopMat d G i j = gram G i j :=
  entry_agopFull d G i j i.isLt j.isLt

theorem agopMat_symm (d : ℕ) (G : List (List ℝ)) (i j : Fin d) : agopMat d G i j = agopMat d G j i := by
  rw [agopMat_eq, agopMat_eq, gram_symm]

theorem agopMat_quad (d : ℕ) (G : List (List ℝ)) (x : Fin d → ℝ) :
    quad (agopMat d G) x = vsum (G.map fun g => (∑ i : Fin d, g.getD i 0 * x i) ^ 2) := by
  unfold quad
  simp only [agopMat_eq]
  exact gram_quadratic x G

theorem agopMat_quad_nonneg (d : ℕ) (G : List (List ℝ)) (x : Fin d → ℝ) : 0 ≤ quad (agopMat d G) x := by
  rw [agopMat_quad]
  have := vsum_map_nonneg (fun t : ℝ => t ^ 2) (fun t => sq_nonneg t) (G.map fun g => ∑ i : Fin d, g.getD i 0 * x i)
  rwa [List.map_map] at this

theorem vsum_ge_of_mem (φ : ℝ → ℝ) (hφ : ∀ x, 0 ≤ φ x) : ∀ (l : List ℝ) (x : ℝ), x ∈ l → φ x ≤ vsum (l.map φ)
  | [], _, h => by simp at h
  | a :: l, x, h => by
    simp only [List.map_cons, vsum_cons]
    rcases List.mem_cons.1 h with rfl | h'
    · linarith [vsum_map_nonneg φ hφ l]
    · linarith [vsum_ge_of_mem φ hφ l x h', hφ a]

theorem entry_mem_flatten (d : ℕ) (G : List (List ℝ)) (i j : ℕ) (hi : i < d) (hj : j < d) :
    gram G i j ∈ (agopFull d G).flatten := by
  unfold agopFull
  refine List.mem_flatten.2 ⟨_, List.mem_map.2 ⟨i, List.mem_range.2 hi, rfl⟩, ?_⟩
  exact List.mem_map.2 ⟨j, List.mem_range.2 hj, rfl⟩

/-- If some gradient row has a non-zero coordinate, the largest entry of the AGOP is positive (`M ≠ 0`). -/
theorem agop_maxEntry_pos (d : ℕ) (G : List (List ℝ)) (g : List ℝ) (hg : g ∈ G) (i : ℕ) (hi : i < d)
    (hne : g.getD i 0 ≠ 0) : 0 < maxEntry (agopFull d G) := by
  have h1 : 0 < g.getD i 0 * g.getD i 0 := mul_self_pos.2 hne
  have h2 : g.getD i 0 * g.getD i 0 ≤ gram G i i := by
    have := vsum_ge_of_mem (fun t : ℝ => t * t) (fun t => mul_self_nonneg t) (G.map fun g => g.getD i 0) (g.getD i 0)
      (List.mem_map.2 ⟨g, hg, rfl⟩)
    rwa [List.map_map] at this
  have h3 := le_maxList _ _ (entry_mem_flatten d G i i hi hi)
  unfold maxEntry
  linarith

/-! ### the model's root on lists is the matrix product -/

theorem zipWith_ofFn' {β γ δ : Type} (f : β → γ → δ) : ∀ {n : ℕ} (a : Fin n → β) (b : Fin n → γ),
    List.zipWith f (List.ofFn a) (List.ofFn b) = List.ofFn fun i => f (a i) (b i)
  | 0, _, _ => by simp
  | n + 1, a, b => by
    rw [List.ofFn_succ, List.ofFn_succ, List.zipWith_cons_cons, zipWith_ofFn' f (fun i => a i.succ) (fun i => b i.succ),
      List.ofFn_succ]

theorem getD_ofFn {β : Type} {n : ℕ} (f : Fin n → β) (i : Fin n) (dflt : β) : (List.ofFn f).getD i dflt = f i := by
  rw [List.getD_eq_getElem?_getD, List.getElem?_ofFn]
  simp [i.isLt]

open Matrix in
/-- The model's `U @ diag(S**0.5) @ U.T` on lists is the matrix product, entry by entry (for `s ≥ 0`). -/
theorem rootFromEig_entry {d : ℕ} (U : Matrix (Fin d) (Fin d) ℝ) (s : Fin d → ℝ) (hs : ∀ k, 0 ≤ s k) (i j : Fin d) :
    entry (rootFromEig (List.ofFn fun a => List.ofFn (U a)) (List.ofFn s)) i j
      = (U * Matrix.diagonal (fun k => Real.sqrt (s k)) * Uᵀ) i j := by
  unfold entry rootFromEig
  simp only [List.map_ofFn]
  rw [getD_ofFn]
  simp only [Function.comp]
  rw [getD_ofFn, zipWith_ofFn']
  show vsum (List.zipWith (fun x1 x2 => x1 * x2)
      (List.ofFn fun k => U i k * sqrt (clamp0 (s k))) (List.ofFn (U j))) = _
  rw [vsum_zipWith_ofFn, Matrix.mul_apply]
  refine Finset.sum_congr rfl fun k _ => ?_
  rw [Matrix.mul_diagonal, Matrix.transpose_apply, sqrt_real, clamp0_of_nonneg _ (hs k)]


end Xrfmv.Agop
