#!/usr/bin/env python3
"""Regenerate MANIFEST.json from the table below (kept valid at every commit)."""
import json
import os

HERE = os.path.dirname(os.path.dirname(os.path.abspath(__file__)))

TB = ('Trusted: Lean 4.33 kernel; axioms propext/Classical.choice/Quot.sound only (audited on every run by #print axioms; '
      'no sorry/native_decide/bv_decide/user axioms); Mathlib v4.33 single modules; the translator extract/py2lean.py; '
      'the correspondence harness (harness/, lean/Driver.lean). ')

CHECKS = {
    'C02': dict(
        text='Theorems (Props/C02.lean): over the regenerated selection program the weights, M, sqrtM and bandwidth left by fit '
             'belong to one iterate for every budget/history/flag combination (with and without restoration; the incoherent '
             'early-stop branch is proved unreachable); (K+lam I)alpha=Y iff K alpha = Y - lam alpha; uniqueness of the ridge solution '
             'for PSD K and lam>0 (so solve/cholesky/lu must agree). Correspondence in float64 against real fits: iterate tags vs the '
             'Lean machine and the residual of the ridge system with K recomputed from the stored state by an independent reference, '
             'under a computed rounding allowance.',
        note=TB + 'Modelled, not verified: torch.linalg.solve/cholesky/lu_factor (exact solve; checked through residuals), '
             'floating-point rounding (absorbed by the allowance of DESIGN 4.3), PSD of the Gram matrix (hypothesis; C05 leaves it unproved).',
        technique='Lean 4 proof (loop invariant over regenerated program + matrix algebra) + float64 differential check with property oracle',
        ref='DESIGN.md §6 C02'),
    'C03': dict(
        text='Theorems (Props/C03.lean) over the Lean interpreter of the selection program regenerated from RFM.fit / '
             'update_best_params / _should_early_stop on every run: for every iteration budget and every real score history the '
             'returned weights, M, sqrtM and bandwidth carry the tag of one evaluated iterate that is optimal in the declared '
             'direction; evaluated iterates are exactly the prefix up to the first early-stop hit. Tied to the code by the '
             'translator and by an exhaustive scripted-score correspondence against the real RFM.fit.',
        note=TB + 'Modelled, not verified: the numerical content of each iterate (solve, AGOP) - only which iterate each piece of '
             'state comes from; time_limit_s; NaN scores.',
        technique='Lean 4 proof by induction over the fit loop (invariant), model regenerated from source + differential check',
        ref='DESIGN.md §6 C03'),
}

NOT_YET = {}


def main():
    props = [json.loads(l) for l in open(os.path.join(HERE, 'properties.jsonl'))]
    checks = []
    na = []
    for p in props:
        pid = p['id']
        if pid in CHECKS:
            c = CHECKS[pid]
            checks.append({
                'property_id': pid,
                'quick_cmd': f'./check {pid} --tier quick',
                'thorough_cmd': f'./check {pid} --tier thorough',
                'evidence_file': f'evidence/{pid}.json',
                'replay_cmd_template': f'./check {pid} --replay {{path}}',
                'engine': 'lean4-proof+correspondence',
                'level_claimed': {'category': 'proof', 'text': c['text'], 'design_ref': c['ref']},
                'level_note': c['note'],
                'technique': c['technique'],
            })
        else:
            na.append({'property_id': pid, 'reason': NOT_YET.get(pid, 'check not built yet in this round (planned: see DESIGN.md §6); no claim made')})
    man = {
        'version': 1,
        'setup_cmd': './check --setup',
        'hooks': {
            'guard': 'XRFM_VERIF',
            'enable': 'no source hooks are needed: recorders wrap methods from outside the repository (harness/rfmrec.py, harness/xrec.py)',
            'baseline_off_cmd': 'cd /repo && /venv/bin/python -m pytest -ra -q -p no:cacheprovider --timeout=900 --continue-on-collection-errors',
            'source_commits': [],
            'add_only': True,
        },
        'engines': [{
            'name': 'lean4-proof+correspondence',
            'path': 'lean/ (Lean 4 project Xrfmv), extract/py2lean.py (translator), harness/ (correspondence), check (entry point)',
            'serves_properties': sorted(CHECKS),
            'kind_free_text': 'machine-checked proofs in Lean 4 about executable models; models regenerated from the Python source '
                              'and run against the implementation on the same inputs',
        }],
        'checks': checks,
        'not_applicable': na,
        'notes': 'Exit 2 = internal error or time-out (no verdict). VERIF_SEED seeds every generator; VERIF_TIER overrides --tier.',
    }
    with open(os.path.join(HERE, 'MANIFEST.json'), 'w') as f:
        json.dump(man, f, indent=1)
    print(f'{len(checks)} checks, {len(na)} not claimed')


if __name__ == '__main__':
    main()
