/- Driver ops for C17: the RNG seeding model and the entry block of `xRFM.fit` (`Model/Rng.lean`, `Model/FitObj.lean`). -/
import Xrfmv.Drv.Common
import Xrfmv.Model.FitObj

open Lean Xrfmv.Drv

namespace Xrfmv.Drv.C17
open Xrfmv.Gen.Rng (Gen)

def genStr : Gen → String
  | .torchGlobal => "torchGlobal" | .numpyGlobal => "numpyGlobal" | .pythonGlobal => "pythonGlobal"
  | .torchCuda => "torchCuda" | .explicitGenerator => "explicitGenerator" | .entropy => "entropy"

def getGen (s : String) : Except String Gen :=
  match s with
  | "torchGlobal" => pure .torchGlobal | "numpyGlobal" => pure .numpyGlobal | "pythonGlobal" => pure .pythonGlobal
  | "torchCuda" => pure .torchCuda | "explicitGenerator" => pure .explicitGenerator | "entropy" => pure .entropy
  | o => throw s!"bad-op: generator {o}"

def optGS : Option Rng.GenState → Json
  | some g => Json.mkObj [("seed", toJson g.seed), ("count", toJson g.count)]
  | none => Json.null

/-- `{"op":"rng","seed":s,"consume":[{"gen":"torchGlobal","k":1000},..],"sites":["torchGlobal",..]}`: what the given draw
sites observe after `seedAll s`, with and without the prior consumption; which generators the constructor seeds; the
generators of the inventoried sites. -/
def opRng : Handler := fun j => do
  let s ← j.getObjValAs? Nat "seed"
  let cons ← j.getObjValAs? (Array Json) "consume"
  let siteNames ← j.getObjValAs? (Array String) "sites"
  let sites ← siteNames.toList.mapM getGen
  let g0 : Rng.Rng := ⟨⟨0, 0⟩, ⟨0, 0⟩, ⟨0, 0⟩⟩
  let mut g := g0
  for c in cons do
    let gen ← getGen (← c.getObjValAs? String "gen")
    let k ← c.getObjValAs? Nat "k"
    g := Rng.consume gen k g
  let a := Rng.run sites (Rng.seedAll s g)
  let b := Rng.run sites (Rng.seedAll s g0)
  let st := Rng.seedAll s g
  pure <| Json.mkObj [
    ("withConsumption", toJson (a.map optGS)), ("without", toJson (b.map optGS)), ("equal", toJson (decide (a = b))),
    ("seeds", toJson (Xrfmv.Gen.Rng.seeds.map genStr)),
    ("siteGens", toJson (Rng.siteGens.eraseDups.map genStr)),
    ("stateAfterSeed", Json.mkObj [("torchGlobal", optGS (some st.torch)), ("numpyGlobal", optGS (some st.numpy)),
                                   ("pythonGlobal", optGS (some st.python))])]

def optNat (j : Json) (k : String) : Except String (Option Nat) :=
  match j.getObjVal? k with
  | .ok Json.null => pure none
  | .ok v => do pure (some (← (fromJson? v : Except String Nat)))
  | .error _ => throw s!"bad-op: field {k} missing"

def optNatJson' : Option Nat → Json
  | some n => toJson n
  | none => Json.null

/-- `{"op":"entry","cfg":{useTuning,configuredTemp,metricArg},"obj":{trees,splitTemperature,nClasses,classConverter,
extraRfmParams,tuningMetric,dataDim},"data":{isClass,nClasses,converter,extra,dim,metricClass,metricReg}}`:
the object after the entry block of `fit` according to the regenerated facts. -/
def opEntry : Handler := fun j => do
  let c ← j.getObjVal? "cfg"
  let cfg : FitObj.Cfg := { useTuning := ← c.getObjValAs? Bool "useTuning", configuredTemp := ← optNat c "configuredTemp",
                            metricArg := ← optNat c "metricArg", rest := 0 }
  let o ← j.getObjVal? "obj"
  let obj : FitObj.Obj := { cfg := cfg, trees := ← optNat o "trees", splitTemperature := ← optNat o "splitTemperature",
                            nClasses := ← optNat o "nClasses", classConverter := ← optNat o "classConverter",
                            extraRfmParams := ← optNat o "extraRfmParams", tuningMetric := ← optNat o "tuningMetric",
                            dataDim := ← optNat o "dataDim" }
  let d ← j.getObjVal? "data"
  let isClass ← d.getObjValAs? Bool "isClass"
  let nC ← d.getObjValAs? Nat "nClasses"
  let conv ← d.getObjValAs? Nat "converter"
  let extra ← d.getObjValAs? Nat "extra"
  let dim ← d.getObjValAs? Nat "dim"
  let mC ← d.getObjValAs? Nat "metricClass"
  let mR ← d.getObjValAs? Nat "metricReg"
  let dv : FitObj.Derive := ⟨fun _ _ => nC, fun _ _ => conv, fun _ _ => extra, fun _ => dim, fun b => if b then mC else mR⟩
  let e := FitObj.atEntry Xrfmv.Gen.FitObj.facts dv obj ⟨isClass, 0⟩
  pure <| Json.mkObj [("trees", optNatJson' e.trees), ("splitTemperature", optNatJson' e.splitTemperature),
    ("nClasses", optNatJson' e.nClasses), ("classConverter", optNatJson' e.classConverter),
    ("extraRfmParams", optNatJson' e.extraRfmParams), ("tuningMetric", optNatJson' e.tuningMetric),
    ("dataDim", optNatJson' e.dataDim), ("factsOk", toJson (FitObj.factsOk Xrfmv.Gen.FitObj.facts))]

def ops : List (String × Handler) := [("rng", opRng), ("entry", opEntry)]

end Xrfmv.Drv.C17
