import Xrfmv.Props.C02
#print axioms Xrfmv.Props.C02.coherent_final_state_best
#print axioms Xrfmv.Props.C02.coherent_final_state_last
#print axioms Xrfmv.Props.C02.ridge_iff_pred
#print axioms Xrfmv.Props.C02.ridge_unique
#print axioms Xrfmv.Props.C02.ridge_unique_matrix
#print axioms Xrfmv.Props.C02.ridge_exists_unique
#print axioms Xrfmv.Props.C02.ridge_exists_unique_lpq
#print axioms Xrfmv.Props.C02.ridge_exists_unique_laplace
#print axioms Xrfmv.Props.C02.ridge_exists_unique_product
#print axioms Xrfmv.Props.C02.ridge_exists_unique_sumPower
#print axioms Xrfmv.Props.C02.ridge_matrix_posDef
#print axioms Xrfmv.Props.C02.ridge_matrix_posDef_lpq
#print axioms Xrfmv.Props.C02.gen_every_solver_branch_solves_the_ridge_system
#print axioms Xrfmv.Props.C02.gen_solvers_return_the_ridge_solution
