/-
The regenerated kernel pipelines (`Gen.KernelOps`, one per CPU kernel class, translated from the statements of
`_get_kernel_matrix_impl`) compute, at `ℝ`, the closed forms of `Model/Kernel.lean`.
-/
import Xrfmv.Model.KernelGen
import Xrfmv.Lemmas.Kernel

namespace Xrfmv.KernelOps
open Xrfmv Xrfmv.Kernel

theorem runOps_nil (v : ℝ) : runOps ([] : List (Op ℝ)) v = v := rfl

theorem runOps_cons (op : Op ℝ) (ops : List (Op ℝ)) (v : ℝ) :
    runOps (op :: ops) v = runOps ops (op.apply v) := rfl

/-- `if q != 1: m.pow_(q)` is `m ^ q` in every case. -/
theorem guarded_pow (q v : ℝ) : (Op.guarded (q != 1) (.pow q)).apply v = v ^ q := by
  by_cases h : q = 1
  · subst h; simp [Op.apply]
  · have : (q != 1) = true := by simpa using h
    rw [this]; simp [Op.apply, rpow_real]

/-- the tail shared by the four distance kernels: `… .mul_(-1/L^q); .exp_()` after an optional `adapt`. -/
theorem tail_eq (q L v : ℝ) :
    runOps [Op.adapt, .mul ((-(1 : ℝ)) / (rpow L q)), .exp] v = exp (-v / rpow L q) := by
  simp only [runOps_cons, runOps_nil, Op.apply]
  congr 1; ring

theorem laplace_eq {q L : ℝ} (dim : ℝ) (T : Transform ℝ) (x z : List ℝ) :
    entry (pipelineOf (.laplace q L) dim) T x z = Kernel.entry (.laplace q L) T x z := by
  simp only [pipelineOf, paramsOf, Gen.KernelOps.laplace, entry, Kernel.entry, coreEntry, lpqCore, lap]
  rw [runOps_cons, runOps_cons, guarded_pow, tail_eq]
  simp only [Op.apply, max_eq_left (pdist_nonneg _ _ _), rpow_real]

theorem lpq_eq {p q L : ℝ} (dim : ℝ) (T : Transform ℝ) (x z : List ℝ) :
    entry (pipelineOf (.lpq p q L) dim) T x z = Kernel.entry (.lpq p q L) T x z := by
  simp only [pipelineOf, paramsOf, Gen.KernelOps.lpq, entry, Kernel.entry, coreEntry, lpqCore, lap]
  rw [runOps_cons, runOps_cons, tail_eq]
  simp only [Op.apply, max_eq_left (pdist_nonneg _ _ _), rpow_real]

theorem product_eq {q L : ℝ} (hq : 0 < q) (dim : ℝ) (T : Transform ℝ) (x z : List ℝ) :
    entry (pipelineOf (.product q L) dim) T x z = Kernel.entry (.product q L) T x z := by
  simp only [pipelineOf, paramsOf, Gen.KernelOps.product, entry, Kernel.entry, coreEntry, productCore]
  rw [runOps_cons, runOps_cons, tail_eq]
  simp only [Op.apply, max_eq_left (pdist_nonneg _ _ _), rpow_real]
  rw [pdist_rpow hq]

theorem light_eq {q L : ℝ} (dim : ℝ) (T : Transform ℝ) (x z : List ℝ) :
    entry (pipelineOf (.light q L) dim) T x z = Kernel.entry (.light q L) T x z := by
  simp only [pipelineOf, paramsOf, Gen.KernelOps.light, entry, Kernel.entry]
  rw [lightEntry_eq_lap, runOps_cons, runOps_cons, runOps_cons, guarded_pow, tail_eq]
  simp only [Op.apply, lap, rpow_real]

/-- the per-coordinate chain of the sum-power kernel -/
theorem sumPower_pre (q L a b : ℝ) :
    runOps [Op.abs, .pow q, .mul ((-(1 : ℝ)) / (rpow L q)), .exp] (a - b)
      = exp (-(rpow (HasAbs.abs (a - b)) q) / rpow L q) := by
  simp only [runOps_cons, runOps_nil, Op.apply]
  congr 1; ring

theorem sumPower_eq {q L c P : ℝ} (T : Transform ℝ) (x z : List ℝ)
    (hlen : (applyT T z).length = (applyT T x).length) :
    entry (pipelineOf (.sumPower q L c P) (count (applyT T x))) T x z
      = Kernel.entry (.sumPower q L c P) T x z := by
  simp only [pipelineOf, paramsOf, Gen.KernelOps.sumPower, entry, Kernel.entry, coreEntry, sumPowerCore]
  have hmap : (List.zipWith (fun a b => a - b) (applyT T x) (applyT T z)).map
        (runOps [Op.abs, .pow q, .mul ((-(1 : ℝ)) / (rpow L q)), .exp])
      = (absDiffs (applyT T x) (applyT T z)).map fun t => exp (-(rpow t q) / rpow L q) := by
    simp only [absDiffs, List.map_zipWith]
    congr 1
    funext a b
    exact sumPower_pre q L a b
  rw [hmap]
  have hcount : count ((absDiffs (applyT T x) (applyT T z)).map fun t => exp (-(rpow t q) / rpow L q))
      = count (applyT T x) := by
    rw [count_eq_length, count_eq_length]
    simp [absDiffs, hlen]
  rw [hcount]
  simp only [runOps_cons, runOps_nil, Op.apply, rpow_real]
  congr 1; ring

end Xrfmv.KernelOps
