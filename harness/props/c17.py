"""
C17 — fitting is reproducible and independent of object history.

Proof: lean/Xrfmv/Props/C17.lean (`all_sites_seeded` / `fit_facts_ok` by `decide` over the regenerated Gen.Rng / Gen.FitObj,
`seed_forgets_history`, `refit_eq_fresh` over the explicit-state models).
Property oracle = BIT-EXACT equality of predict / predict_proba (bytes of the output arrays), directly on the implementation:
  (a) same `random_state` after consuming 0 … 10^4 draws from each of random / numpy / torch BEFORE constructing
      `xRFM(random_state=s)` (the constructor seeds), configurations that draw: validation refill, AGOP subset sampling,
      random split directions, adaptive bandwidth subsampling, 2-3 trees;
  (b) a fresh model vs. the same configuration after one or two EARLIER fits on other data of the same task type and
      dimension (with / without splits, other n), all three generators seeded immediately before the compared fit;
      includes temperature tuning with a tie-prone metric (accuracy, space [0, 0.05, 0.5]).
Model correspondence: the real generator states right after construction vs. the driver's `rng` answer (which generators
are re-seeded), and the object captured at the first `_build_tree` call of the compared fit vs. the driver's `entry` answer.
"""
import contextlib
import io
import random

from harness import core
from harness.props import _xcommon as xc

MOD = 'harness.props.c17'
METRIC_CODE = {'mse': 1, 'brier': 2, 'accuracy': 3, 'logloss': 4, 'auc': 5, 'rmse': 6, 'mae': 7, 'f1': 8}


def cat_layout(p):
    """numerical columns first, then one one-hot group per entry of p['cat']"""
    import torch
    dn = p['d'] - sum(p['cat'])
    idx, s = [], dn
    for L in p['cat']:
        idx.append(torch.arange(s, s + L))
        s += L
    return dn, idx


def data_for(p, dseed, n, task, noise=0.1):
    """xc.make_data; with p['cat'] the trailing column groups are replaced by the one-hot code of their arg-max"""
    import torch
    data = xc.make_data(dseed, n, p['d'], task, noise=noise)
    if p.get('cat'):
        _, idx = cat_layout(p)
        for key in ('X', 'Xv', 'Xt'):
            X = data[key].clone()
            for ii in idx:
                X[:, ii] = torch.nn.functional.one_hot(data[key][:, ii].argmax(dim=1), num_classes=len(ii)).to(X.dtype)
            data[key] = X.contiguous()
    return data


def build(p, seed):
    import torch
    from xrfm import xRFM
    rp = xc.rfm_params(p['kernel'], diag=p['diag'], iters=p['iters'], bandwidth_mode=p['bandwidth_mode'])
    extra = {}
    if p.get('cat'):
        dn, idx = cat_layout(p)
        rp['model']['fast_categorical'] = True
        extra['categorical_info'] = {'numerical_indices': torch.arange(dn), 'categorical_indices': idx,
                                     'categorical_vectors': [torch.eye(len(ii)) for ii in idx]}
    kw = dict(rfm_params=rp, **extra,
              max_leaf_size=p['max_leaf_size'], device='cpu', verbose=False, random_state=seed, n_trees=p['n_trees'],
              n_tree_iters=p.get('n_tree_iters', 0), number_of_splits=p.get('number_of_splits'),
              split_method=p['split_method'], refill_size=p['refill_size'], tuning_metric=p['tuning_metric'],
              classification_mode=p['classification_mode'], use_temperature_tuning=p['tuning'],
              split_temperature=p['split_temperature'])
    if p['tuning'] and p.get('temp_space') is not None:
        kw['temp_tuning_space'] = p['temp_space']       # None: the library's default candidate list
    return xRFM(**kw)


def consume(junk_seed, k_py, k_np, k_torch):
    """put the three generators in an arbitrary state, then draw k values from each"""
    import numpy as np
    import torch
    xc.seed_all(junk_seed)
    for _ in range(k_py):
        random.random()
    if k_np:
        np.random.rand(k_np)
    if k_torch:
        torch.rand(k_torch)
    if k_py or k_np:
        # memory that was allocated, written and released earlier in the process (the allocator hands it out again)
        for dt in (torch.float32, torch.float64):
            scratch = [torch.full((m, m), float('nan'), dtype=dt) for m in range(2, 24) for _ in range(40)]
            scratch += [torch.full((m,), float('nan'), dtype=dt) for m in (8, 64, 512, 4096) for _ in range(40)]
            del scratch


def rng_states():
    import numpy as np
    import torch
    st = np.random.get_state()
    return {'torchGlobal': xc.sha(torch.get_rng_state().numpy().tobytes()),
            'numpyGlobal': xc.sha(st[1].tobytes() + bytes(str(st[2:]), 'ascii')),
            'pythonGlobal': xc.sha(repr(random.getstate()).encode())}


def outputs(model, data, is_class):
    pred = model.predict(data['Xt'])
    out = {'pred': (str(pred.dtype), list(pred.shape), pred.tobytes())}
    if is_class:
        pr = model.predict_proba(data['Xt'])
        out['proba'] = (str(pr.dtype), list(pr.shape), pr.tobytes())
    return out


def quiet():
    return contextlib.redirect_stdout(io.StringIO())


def obj_fields(m, old_conv=None):
    """the seven modelled attributes of a real object, encoded for the driver"""
    conv = getattr(m, 'class_converter_', None)
    return {
        'trees': None if m.trees is None else len(m.trees) + 1,   # any non-zero code: 0 means "reset to []"
        'splitTemperature': None if m.split_temperature is None else core.f2b(float(m.split_temperature)),
        'nClasses': None if not hasattr(m, 'n_classes_') else int(m.n_classes_),
        'classConverter': None if conv is None else (1 if (old_conv is None or conv is old_conv) else 2),
        'extraRfmParams': len(m.extra_rfm_params_),
        'tuningMetric': None if m.tuning_metric is None else METRIC_CODE[m.tuning_metric],
        'dataDim': getattr(m, 'data_dim', None),
    }


def fit_with_entry_capture(m, data):
    """fit, capturing the object at the first `_build_tree` call (= after the entry block of `fit`)"""
    before = obj_fields(m)
    old_conv = getattr(m, 'class_converter_', None)
    snap = {}
    orig = m._build_tree

    def wrapped(*a, **k):
        if not snap:
            conv = getattr(m, 'class_converter_', None)
            snap.update({
                'trees': None if m.trees is None else len(m.trees),
                'splitTemperature': None if m.split_temperature is None else core.f2b(float(m.split_temperature)),
                'nClasses': None if not hasattr(m, 'n_classes_') else int(m.n_classes_),
                'classConverter': None if conv is None else (1 if conv is old_conv else 2),
                'extraRfmParams': len(m.extra_rfm_params_),
                'tuningMetric': None if m.tuning_metric is None else METRIC_CODE[m.tuning_metric],
                'dataDim': getattr(m, 'data_dim', None)})
        return orig(*a, **k)

    m._build_tree = wrapped
    try:
        with quiet():
            m.fit(data['X'], data['y'], data['Xv'], data['yv'])
    finally:
        del m._build_tree
    return before, snap


def execute(chunk):
    import torch
    drv = core.Driver('C17')
    results = []
    try:
        for p in chunk['cases']:
            res = {'family': p['family'], 'params': p, 'disagreements': [], 'failures': [], 'dist': {}}
            is_class = p['task'] in ('bin', 'multi')
            data = data_for(p, p['dseed'], p['n'], p['task'], noise=p.get('noise', 0.1))
            threads = torch.get_num_threads()
            info = {}
            if p['family'] == 'seed-after-consumption':
                ref = None
                ref_states = None
                more_ref = {}
                for ci, c in enumerate(p['consumptions']):
                    consume(c['junk'], c['py'], c['np'], c['torch'])
                    if c.get('other_model'):
                        # process history outside the object: an unrelated estimator with default parameters is created
                        # (and thrown away) before the compared one
                        from xrfm import xRFM as _X
                        _X(device='cpu', verbose=False)
                    if c.get('other_model_fit'):
                        # ... or an unrelated estimator with its own configured temperature is fitted (with splits and the
                        # default tuning) earlier in the process
                        from xrfm import xRFM as _X
                        od = xc.make_data(c['junk'], 60, p['d'], 'reg1')
                        import xrfm.xrfm as _xm
                        grid = sorted(float(t) for t in getattr(_xm, 'DEFAULT_TEMP_TUNING_SPACE', []) if float(t) > 0)[:40]
                        if len(grid) < 2:
                            grid = [0.02 * (250.0 ** (i / 23.0)) for i in range(24)]
                        # configured temperatures between the points of the default grid (geometric midpoints)
                        mids = [round((a * b) ** 0.5, 6) for a, b in zip(grid[:-1], grid[1:]) if b > a * 1.01][:24]
                        for t_other in mids:
                            om = _X(rfm_params=xc.rfm_params('l2', iters=0), max_leaf_size=20, device='cpu', verbose=False, random_state=1,
                                    split_temperature=t_other, use_temperature_tuning=True)
                            with quiet():
                                om.fit(od['X'], od['y'], od['Xv'], od['yv'])
                    m = build(p, p['seed'])
                    states = rng_states()
                    with quiet():
                        m.fit(data['X'], data['y'], data['Xv'], data['yv'])
                    out = outputs(m, data, is_class)
                    assert torch.get_num_threads() == threads
                    # further data sets fitted with the same seed and configuration at the same point of the process history
                    # (a difference that needs particular data to show has several chances per history)
                    if ci == 0 or c.get('other_model_fit') or c.get('other_model'):
                        for dj in p.get('more_data', []):
                            dd = data_for(p, dj, p['n'], p['task'], noise=p.get('noise', 0.1))
                            mj = build(p, p['seed'])
                            with quiet():
                                mj.fit(dd['X'], dd['y'], dd['Xv'], dd['yv'])
                            oj = outputs(mj, dd, is_class)
                            if ci == 0:
                                more_ref[dj] = oj
                            elif dj in more_ref and any(oj[api] != more_ref[dj][api] for api in oj):
                                res['failures'].append({'signature': 'C17:seed-not-reproducible:predict',
                                                        'detail': f'same random_state={p["seed"]}, data set {dj}, consumption {c} vs '
                                                                  f'{p["consumptions"][0]}: outputs differ'})
                    if ref is None:
                        ref, ref_states = out, states
                        info = {'depth': max(xc.tree_depth(t) for t in m.trees), 'leaves': sum(xc.n_leaves(t) for t in m.trees),
                                'temperature': m.split_temperature}
                        continue
                    for api in out:
                        if out[api] != ref[api]:
                            res['failures'].append({'signature': f'C17:seed-not-reproducible:{"predict" if api == "pred" else "predict_proba" if api == "proba" else "tuning-record"}',
                                                    'detail': f'same random_state={p["seed"]}, consumption {c} vs {p["consumptions"][0]}: '
                                                              f'outputs differ ({out[api][0]}{out[api][1]})'})
                    # model: which generators does the constructor re-seed?
                    q = drv.ask({'op': 'rng', 'seed': p['seed'], 'consume': [{'gen': 'pythonGlobal', 'k': c['py']},
                                                                            {'gen': 'numpyGlobal', 'k': c['np']},
                                                                            {'gen': 'torchGlobal', 'k': c['torch']}],
                                 'sites': ['torchGlobal'] * 4})
                    if 'error' in q:
                        res['disagreements'].append({'detail': f'model rejects rng query: {q["error"]}'})
                    else:
                        if not q['equal']:
                            res['disagreements'].append({'detail': f'model: draws after seeding depend on consumption: {q}'})
                        for gname in ('torchGlobal', 'numpyGlobal', 'pythonGlobal'):
                            same = states[gname] == ref_states[gname]
                            seeded = gname in q['seeds']
                            if seeded != same:
                                res['disagreements'].append({'detail': f'generator {gname}: model says seeded={seeded}, real state after '
                                                                       f'construction equal to reference: {same}'})
                n_cmp = len(p['consumptions']) - 1
            else:   # 'refit-vs-fresh'
                fresh = build(p, p['seed'])
                xc.seed_all(p['seed2'])
                before_f, entry_f = fit_with_entry_capture(fresh, data)
                ref = outputs(fresh, data, is_class)
                info = {'depth': max(xc.tree_depth(t) for t in fresh.trees), 'leaves': sum(xc.n_leaves(t) for t in fresh.trees),
                        'temperature': fresh.split_temperature, 'histories': []}
                n_cmp = 0
                for hist in p['histories']:
                    m = build(p, p['seed'])
                    temps = []
                    buffers = None
                    for h in hist:
                        dh = data_for(p, h['dseed'], h['n'], p['task'], noise=h.get('noise', 0.1))
                        with quiet():
                            # an earlier fit may have been called with per-call leaf options: they belong to that call only
                            m.fit(dh['X'], dh['y'], dh['Xv'], dh['yv'], **h.get('fit_kw', {}))
                        temps.append(m.split_temperature)
                        buffers = dh if h.get('inplace_refresh') else None
                    use = data
                    if buffers is not None and all(buffers[k_].shape == data[k_].shape and buffers[k_].dtype == data[k_].dtype
                                                   for k_ in ('X', 'y', 'Xv', 'yv')):
                        # rolling-window retraining: the caller's pre-allocated tensors of the earlier fit are overwritten in place with
                        # the new data set and handed over again (same objects, same addresses and shapes, other contents)
                        for k_ in ('X', 'y', 'Xv', 'yv'):
                            buffers[k_].copy_(data[k_])
                        use = dict(data, X=buffers['X'], y=buffers['y'], Xv=buffers['Xv'], yv=buffers['yv'])
                    xc.seed_all(p['seed2'])
                    before, entry = fit_with_entry_capture(m, use)
                    out = outputs(m, data, is_class)
                    n_cmp += 1
                    info['histories'].append({'earlier_fits': len(hist), 'earlier_temperatures': temps, 'temperature': m.split_temperature})
                    for api in out:
                        if out[api] != ref[api]:
                            res['failures'].append({'signature': f'C17:refit-differs-from-fresh:{"predict" if api == "pred" else "predict_proba" if api == "proba" else "tuning-record"}',
                                                    'detail': f'after {len(hist)} earlier fit(s) (tuned temperatures {temps}) vs fresh: outputs differ; '
                                                              f'final temperature {m.split_temperature} vs {fresh.split_temperature}'})
                    # model: the entry block
                    for who, bf, en in (('fresh', before_f, entry_f), (f'after {len(hist)} fits', before, entry)):
                        K = int(max(2, int(max(data['y'].max(), data['yv'].max())) + 1)) if is_class else 0
                        q = drv.ask({'op': 'entry',
                                     'cfg': {'useTuning': bool(p['tuning']),
                                             'configuredTemp': None if p['split_temperature'] is None else core.f2b(float(p['split_temperature'])),
                                             'metricArg': None if p['tuning_metric'] is None else METRIC_CODE[p['tuning_metric']]},
                                     'obj': bf,
                                     'data': {'isClass': is_class, 'nClasses': K, 'converter': 2, 'extra': 1 if is_class else 0,
                                              'dim': p['d'], 'metricClass': METRIC_CODE['brier'], 'metricReg': METRIC_CODE['mse']}})
                        if 'error' in q:
                            res['disagreements'].append({'detail': f'model rejects entry query: {q["error"]}'})
                            continue
                        diffs = [f'{k}: model {q[k]}, implementation {en.get(k)}' for k in en if q.get(k) != en.get(k)]
                        if diffs:
                            res['disagreements'].append({'detail': f'entry block ({who}): ' + '; '.join(diffs)})
                    if entry != entry_f:
                        res['disagreements'].append({'detail': f'object at the first _build_tree call differs between fresh and re-fitted: '
                                                               f'{entry_f} vs {entry}'})
            drew = info.get('leaves', 1) > 1 or p['bandwidth_mode'] == 'adaptive'
            res['nontrivial'] = [p['family'], p['kernel'], p['split_method'], p['task'], p['dseed'], p['seed'], p['n_trees'],
                                 p['bandwidth_mode'], p['tuning']] if drew else None
            res['dist'] = {'family': p['family'], 'split_method': p['split_method'], 'depth': info.get('depth'), 'n_trees': p['n_trees'],
                           'bandwidth_mode': p['bandwidth_mode'], 'task': p['task'], 'tuning': p['tuning'],
                           'tuning_metric': str(p['tuning_metric']), 'comparisons': n_cmp, 'draws_random_numbers': drew}
            res['sample'] = {'params': {k: p[k] for k in ('kernel', 'split_method', 'task', 'n', 'n_trees', 'bandwidth_mode', 'tuning')},
                             'info': info, 'comparisons': n_cmp}
            results.append(res)
    finally:
        drv.close()
    return results


# ------------------------------------------------------------------------------------------------
def gen_cases(run):
    r = run.rng
    quick = run.tier == 'quick'
    cases = []
    base = dict(kernel='l2', diag=False, iters=1, bandwidth_mode='constant', max_leaf_size=20, n_trees=1,
                split_method='top_vector_agop_on_subset', refill_size=1500, tuning_metric=None, classification_mode='zero_one',
                tuning=False, split_temperature=None, temp_space=[0.0, 0.05, 0.5], d=4)
    drawing = [   # configurations that draw random numbers
        dict(split_method='top_vector_agop_on_subset', task='reg1', n=70),                       # subset permutation + refill
        dict(split_method='random', task='reg2', n=70, n_trees=3),                               # Gaussian directions, 3 trees
        dict(split_method='random_pca', task='bin', n=60, n_trees=2),                            # z ~ N(0,I) through sqrt(cov)
        dict(split_method='random_agop_on_subset', task='multi', n=70, classification_mode='prevalence'),
        dict(split_method='pca', task='reg1', n=60, bandwidth_mode='adaptive', iters=2),         # randperm in _adapt_bandwidth + refill
        dict(split_method='top_vector_agop_on_subset', task='bin', n=90, tuning=True, tuning_metric='accuracy'),
        dict(split_method='random', task='multi', n=90, n_trees=2, tuning=True, kernel='l1'),
        dict(split_method='top_pc_agop_on_subset', task='reg2', n=50, diag=True, kernel='l2_high_dim', refill_size=6),
        dict(split_method='random_agop_on_subset', task='reg1', n=70, kernel='lpq', split_temperature=0.3),
        dict(split_method='random_pca', task='bin', n=30, max_leaf_size=40, bandwidth_mode='adaptive'),  # single leaf, adaptive
        # default candidate list of the temperature tuning (a module-level list shared by every estimator of the process)
        dict(split_method='top_vector_agop_on_subset', task='reg1', n=90, tuning=True, temp_space=None),
        dict(split_method='pca', task='bin', n=90, tuning=True, temp_space=None, tuning_metric='brier'),
        # forced splits (number_of_splits): the split counter is per tree and per fit, also when the data would fit one leaf
        dict(split_method='random', task='reg1', n=36, max_leaf_size=40, number_of_splits=2),
        dict(split_method='top_vector_agop_on_subset', task='bin', n=40, max_leaf_size=60, number_of_splits=1, n_trees=2),
        # mixed numerical / one-hot features on the kernels' categorical path: the feature matrix is assembled block by block
        dict(split_method='top_vector_agop_on_subset', task='reg1', n=80, kernel='l1', d=10, cat=[3, 4], iters=2, max_leaf_size=40),
        dict(split_method='pca', task='bin', n=70, kernel='l2', d=8, cat=[2, 3], iters=1, max_leaf_size=40),
        dict(split_method='random', task='reg2', n=40, kernel='lpq', d=9, cat=[4, 3], iters=2, max_leaf_size=60),
        # more than 256 features: the top AGOP direction is then computed by an iterative eigen-solver with a random start vector
        dict(split_method='top_vector_agop_on_subset', task='reg1', n=70, d=300, n_trees=2),
        dict(split_method='top_pc_agop_on_subset', task='bin', n=80, d=260),
    ]
    reps = 2 if quick else 30
    for rep in range(reps):
        for k, cfg in enumerate(drawing):
            p = dict(base, **cfg)
            # seed 0 is a legitimate seed (a falsy one): every other configuration of the first repetition uses it
            p.update(family='seed-after-consumption', seed=0 if (rep == 0 and k % 2 == 0) else r.randint(1, 10 ** 6),
                     dseed=r.randint(0, 10 ** 6))
            cons = [{'junk': 0, 'py': 0, 'np': 0, 'torch': 0}]
            for _ in range(2 if quick else 4):
                cons.append({'junk': r.randint(0, 10 ** 6), 'py': r.choice([0, 1, 17, 10 ** 4]), 'np': r.choice([0, 3, 999, 10 ** 4]),
                             'torch': r.choice([1, 5, 1000, 10 ** 4])})
            cons[-1]['other_model'] = True
            cons[-2]['other_model_fit'] = True
            p['consumptions'] = cons
            if p['tuning'] and p.get('temp_space') is None:
                p['more_data'] = [r.randint(0, 10 ** 6) for _ in range(5)]
            cases.append(p)
    # (b) histories
    hist_cfgs = [
        dict(split_method='top_vector_agop_on_subset', task='reg1', n=70, tuning=True),
        dict(split_method='top_vector_agop_on_subset', task='bin', n=80, tuning=True, tuning_metric='accuracy'),
        dict(split_method='pca', task='bin', n=80, tuning=True, tuning_metric='accuracy', iters=0),
        dict(split_method='top_vector_agop_on_subset', task='multi', n=90, tuning=True, tuning_metric='accuracy',
             classification_mode='prevalence'),
        dict(split_method='random', task='reg2', n=60, n_trees=2, tuning=True),
        dict(split_method='pca', task='multi', n=70, tuning=False, split_temperature=0.2),
        dict(split_method='random_pca', task='reg1', n=60, tuning=False, bandwidth_mode='adaptive'),
        dict(split_method='top_vector_agop_on_subset', task='bin', n=70, tuning=True),              # default metric (brier), set by fit
        dict(split_method='pca', task='bin', n=100, tuning=True, tuning_metric='accuracy', kernel='l2_high_dim'),
        dict(split_method='top_vector_agop_on_subset', task='reg1', n=18, tuning=True),             # compared fit: single leaf
        dict(split_method='top_vector_agop_on_subset', task='reg1', n=70, tuning=False, d=300),     # iterative eigen-solver (> 256 features)
        dict(split_method='pca', task='bin', n=50, tuning=True, tuning_metric='accuracy', d=3),
        dict(split_method='top_vector_agop_on_subset', task='bin', n=60, tuning=True, tuning_metric='accuracy', iters=0, d=5),
        dict(split_method='pca', task='multi', n=60, tuning=True, tuning_metric='accuracy', kernel='l1'),
        dict(split_method='random_pca', task='bin', n=70, tuning=True, tuning_metric='accuracy', max_leaf_size=30),
        # iterated tree building (candidate trees are scored through the routing mode in force): needs >= 2 target columns
        dict(split_method='random', task='reg2', n=80, tuning=True, n_tree_iters=2),
        dict(split_method='random', task='reg2', n=70, tuning=True, n_tree_iters=2, d=3),
        dict(split_method='random', task='reg2', n=90, tuning=True, n_tree_iters=1, kernel='l2_high_dim'),
        dict(split_method='random_global_agop', task='reg2', n=80, tuning=True, n_tree_iters=2),
        # forced splits; one split only: the earlier fits of a history have 16-18 rows and every leaf must keep >= 5 samples
        # (a smaller leaf moves int(0.2*m) = 0 samples into an empty validation set, which RFM.fit rejects - outside the property)
        dict(split_method='pca', task='reg1', n=36, max_leaf_size=40, number_of_splits=1, tuning=False),
        dict(split_method='random', task='reg2', n=36, max_leaf_size=40, number_of_splits=1, tuning=True, n_tree_iters=1),
        dict(split_method='top_vector_agop_on_subset', task='reg1', n=80, kernel='l1', d=10, cat=[3, 4], iters=2, max_leaf_size=40,
             tuning=False),
    ]
    for rep in range(3 * reps):
        for k, cfg in enumerate(hist_cfgs):
            if rep >= reps and not cfg.get('n_tree_iters'):
                continue     # iterated tree building: whether a stale routing mode changes the winning tree depends on the data
            p = dict(base, **cfg)
            p.update(family='refit-vs-fresh', seed=r.randint(0, 10 ** 6), seed2=r.randint(0, 10 ** 6), dseed=r.randint(0, 10 ** 6))
            tie_prone = p['tuning_metric'] == 'accuracy'
            if tie_prone:
                p['noise'] = 0.02          # compared data: easy -> equal accuracies for all temperatures are likely
            mk = lambda n, noise: {'dseed': r.randint(0, 10 ** 6), 'n': n, 'noise': noise}  # noqa: E731
            p['histories'] = [
                [mk(r.choice([60, 90]), 1.5 if tie_prone else 0.1)],                                   # one earlier fit, with splits
                [mk(r.choice([16, 18]), 0.1), mk(r.choice([70, 110]), 1.5 if tie_prone else 0.3)],     # two: without, then with splits
            ]
            if k % 3 == 1:
                for hh in p['histories']:
                    hh[0]['fit_kw'] = {'center_grads': True}
            # a third history: one earlier fit on a data set of the same shape whose tensors are then refreshed in place
            p['histories'].append([dict(mk(p['n'], 0.1), inplace_refresh=True)])
            cases.append(p)
    return cases


def check(run):
    run.rule = ('(a) 10 configurations that draw random numbers (validation refill, AGOP-subset permutation, Gaussian split directions, '
                'adaptive-bandwidth subsample, 2-3 trees, tuning) x 3 amounts of prior consumption (0..10^4 draws from each of '
                'random/numpy/torch, from an arbitrary state) before xRFM(random_state=s); (b) 10 configurations x {fresh, after 1 '
                'earlier fit, after 2 earlier fits on other data (other n, with/without splits, same d and task type)}, generators seeded '
                'immediately before the compared fit; outputs compared as bytes; a case is non-trivial when its fit really drew random '
                'numbers (tree with splits or adaptive bandwidth)')
    run.assumptions = ['same torch thread count in all compared fits (workers pinned to 1 thread); CPU',
                       'same task type for all fits on one object (fit assigns self.tuning_metric when the constructor argument was None)',
                       'default code paths: eigenpro.py / kernel_log_reg.py / svd.py (method="eigenpro", solver="log_reg") and GPU Kermac '
                       'kernels are outside the RNG inventory; eigenpro.py re-seeds numpy globally (noted)',
                       'n_tree_iters = 0 and time_limit_s = None (not modelled)']
    run.trusted += ['extract/gen_rng.py (call-site patterns for random draws)', 'extract/gen_fitobj.py (entry-block analysis of xRFM.fit)']
    import time
    t0 = time.time()
    run.lean()
    run.extra['lean_s'] = round(time.time() - t0, 1)   # includes waiting for the shared build lock
    cases = gen_cases(run)
    if run.driver_ok:
        results = core.pmap(MOD, [{'cases': [c]} for c in cases])
        run.absorb('c17', results)


def replay(run, payload):
    run.lean()
    results = core.pmap(MOD, [{'cases': [payload['params']]}], workers=1)
    run.absorb('replay', results)
