/-
Model of the categorical fast path of `xrfm/rfm_src/kernels.py`:

  * `Kernel.set_categorical_indices`            -> `Layout` (numerical index list, list of index groups)
  * `get_sub_matrix(mat, idx)`                  -> `subT`   (None / sub-vector / principal sub-matrix)
  * `Kernel._transform_m`                       -> `applyT` (identity / `x * v` / `x @ M`)
  * `x[:, cat_idx].argmax(dim=-1)`              -> `argmax` (first maximal index)
  * `cat_embedding_kernel` / `cat_dist`         -> `table`  (`‖T_g(e_a) − T_g(e_b)‖_p^p`, identity code vectors)
  * `_get_kernel_matrix_categorical_impl` of LaplaceKernel / ProductLaplaceKernel / LpqLaplaceKernel
                                                -> `fastKernel` (= `kval ∘ outerFast ∘ fastAcc`)
  * `_get_kernel_matrix_impl` of the same three -> `denseKernel` (= `kval ∘ outerDense ∘ denseAcc`)
  * `Kernel.get_agop` / `get_agop_categorical`  -> `gram` / `agopCat` (zeros, then one masked assignment per block)

Rows, transforms and gradient matrices are functions of their coordinates (`Nat → α`), sizes are
explicit `Nat`s: nothing is bounded.  Real-valued formulas are scalar-generic (no laws assumed);
the driver runs them at `Float`, the theorems are about `ℝ`.

Not modelled (identical on both paths, never taken in the property's setting): the adaptive-bandwidth
hook, row batching, `clamp_(min=0)` of non-negative sums, and the `exponent != 1` / `p != 1` shortcuts
(`t ^ 1 = t`).
-/
import Xrfmv.Scalar

namespace Xrfmv.Categorical

/-! ### Sums -/

/-- Right-nested sum of a list (`a₀ + (a₁ + (… + 0))`). -/
def sumL {α : Type} [Add α] [OfNat α 0] : List α → α
  | [] => 0
  | a :: l => a + sumL l

/-- `Σ_{i ∈ idx} f i` (with multiplicity, in list order). -/
def sumOver {α : Type} [Add α] [OfNat α 0] (idx : List Nat) (f : Nat → α) : α := sumL (idx.map f)

/-- `Σ_{i < k} f i`. -/
def sumRange {α : Type} [Add α] [OfNat α 0] (k : Nat) (f : Nat → α) : α := sumOver (List.range k) f

/-! ### Feature layout -/

/-- What `set_categorical_indices` stores: the numerical columns and one index group per
categorical feature. -/
structure Layout where
  num : List Nat
  groups : List (List Nat)
  deriving Repr

/-- The numerical block followed by the categorical blocks. -/
def Layout.blocks (lay : Layout) : List (List Nat) := lay.num :: lay.groups

/-- All declared columns, block after block. -/
def Layout.cover (lay : Layout) : List Nat := lay.blocks.flatten

/-- Both indices lie in one block of the layout. -/
def sameBlock (lay : Layout) (i j : Nat) : Bool :=
  lay.blocks.any fun B => B.contains i && B.contains j

/-! ### Feature transform (`mat`) -/

/-- `mat` of `get_kernel_matrix`: `None`, a vector (diagonal) or a square matrix. -/
inductive Transform (α : Type) where
  | none : Transform α
  | diag (v : Nat → α) : Transform α
  | full (m : Nat → Nat → α) : Transform α

/-- `get_sub_matrix(mat, indices)`: `None` / `mat[indices]` / `mat[indices][:, indices]`. -/
def subT {α : Type} (T : Transform α) (idx : List Nat) : Transform α :=
  match T with
  | .none => .none
  | .diag v => .diag fun a => v (idx.getD a 0)
  | .full m => .full fun a b => m (idx.getD a 0) (idx.getD b 0)

/-- `_transform_m(row, mat)` for a row with `k` coordinates: `row`, `row * v`, `row @ M`. -/
def applyT {α : Type} [Add α] [Mul α] [OfNat α 0] (T : Transform α) (k : Nat) (row : Nat → α) : Nat → α :=
  match T with
  | .none => row
  | .diag v => fun j => row j * v j
  | .full m => fun j => sumRange k fun i => row i * m i j

/-- The transform does not mix blocks of a `d`-column layout: absent, diagonal, or a matrix whose
entries between different blocks are zero (block-diagonal up to the column order). -/
def NoMix {α : Type} [OfNat α 0] (lay : Layout) (d : Nat) : Transform α → Prop
  | .none => True
  | .diag _ => True
  | .full m => ∀ i j, i < d → j < d → sameBlock lay i j = false → m i j = 0

/-- `x[:, idx]` for one row: local coordinate `a` is column `idx[a]`. -/
def restrict {α : Type} (x : Nat → α) (idx : List Nat) : Nat → α := fun a => x (idx.getD a 0)

/-! ### One-hot rows and arg-max -/

/-- The unit vector `e_a` (row `a` of `torch.eye(k)` for every `k > a`). -/
def onehot {α : Type} [OfNat α 0] [OfNat α 1] (a : Nat) : Nat → α := fun c => if c = a then 1 else 0

/-- `torch.argmax` over coordinates `0..k-1`: the first maximal index (`0` for `k = 0`). -/
def argmax {α : Type} [LT α] [DecidableLT α] (row : Nat → α) : Nat → Nat
  | 0 => 0
  | k + 1 => let b := argmax row k; if row b < row k then k else b

/-! ### `‖·‖_p^p` distances -/

/-- One coordinate's contribution `|u_i − v_i|^p`. -/
def lpTerm {α : Type} [Sub α] [HasAbs α] [HasRpow α] (p : α) (u v : Nat → α) (i : Nat) : α :=
  rpow (HasAbs.abs (u i - v i)) p

/-- `Σ_{i ∈ idx} |u_i − v_i|^p`. -/
def lpPowOver {α : Type} [Add α] [Sub α] [OfNat α 0] [HasAbs α] [HasRpow α]
    (p : α) (idx : List Nat) (u v : Nat → α) : α := sumOver idx (lpTerm p u v)

/-- `Σ_{i < k} |u_i − v_i|^p = ‖u − v‖_p^p` for rows with `k` coordinates. -/
def lpPowRange {α : Type} [Add α] [Sub α] [OfNat α 0] [HasAbs α] [HasRpow α]
    (p : α) (k : Nat) (u v : Nat → α) : α := sumRange k (lpTerm p u v)

/-! ### Fast path -/

section fast
variable {α : Type} [Add α] [Sub α] [Mul α] [OfNat α 0] [OfNat α 1] [HasAbs α] [HasRpow α]

/-- `table_g[a][b] = ‖T_g(e_a) − T_g(e_b)‖_p^p`, `T_g = get_sub_matrix(mat, cat_idx)`, code vectors
`torch.eye(len(cat_idx))`. -/
def table (p : α) (T : Transform α) (g : List Nat) (a b : Nat) : α :=
  let Tg := subT T g
  lpPowRange p g.length (applyT Tg g.length (onehot a)) (applyT Tg g.length (onehot b))

/-- The numerical part: `‖T_num(x_num) − T_num(z_num)‖_p^p`. -/
def numTerm (p : α) (T : Transform α) (num : List Nat) (x z : Nat → α) : α :=
  let Tn := subT T num
  lpPowRange p num.length (applyT Tn num.length (restrict x num)) (applyT Tn num.length (restrict z num))

variable [LT α] [DecidableLT α]

/-- One group's contribution: a table lookup at the arg-max categories of the two rows. -/
def catTerm (p : α) (T : Transform α) (x z : Nat → α) (g : List Nat) : α :=
  table p T g (argmax (restrict x g) g.length) (argmax (restrict z g) g.length)

/-- Accumulated distance of the fast path: numerical part + `Σ_g table_g[argmax x_g][argmax z_g]`. -/
def fastAcc (p : α) (lay : Layout) (T : Transform α) (x z : Nat → α) : α :=
  numTerm p T lay.num x z + sumL (lay.groups.map (catTerm p T x z))

end fast

/-- Accumulated distance of the dense path on the expanded row: `‖T(x) − T(z)‖_p^p` over all `d` columns. -/
def denseAcc {α : Type} [Add α] [Sub α] [Mul α] [OfNat α 0] [HasAbs α] [HasRpow α]
    (p : α) (d : Nat) (T : Transform α) (x z : Nat → α) : α :=
  lpPowRange p d (applyT T d x) (applyT T d z)

/-! ### The three kernels -/

/-- The CPU kernels that implement `_get_kernel_matrix_categorical_impl`. -/
inductive Kind where
  | l2        -- LaplaceKernel
  | product   -- ProductLaplaceKernel
  | lpq       -- LpqLaplaceKernel
  deriving DecidableEq, Repr

/-- The exponent of the inner `Σ|·|^p`: `2` (Euclidean), the kernel exponent (product), `p` (Lpq). -/
def normP {α : Type} [OfNat α 2] (kind : Kind) (p q : α) : α :=
  match kind with
  | .l2 => 2
  | .product => q
  | .lpq => p

section outer
variable {α : Type} [Div α] [OfNat α 1] [HasSqrt α] [HasRpow α]

/-- What the fast path applies to the accumulated distance: L2 `sqrt` then `^q`; product nothing
(`p = q`, no root); Lpq `^(1/p)` then `^q`. -/
def outerFast (kind : Kind) (p q acc : α) : α :=
  match kind with
  | .l2 => rpow (HasSqrt.sqrt acc) q
  | .product => acc
  | .lpq => rpow (rpow acc (1 / p)) q

/-- What the dense path applies to `Σ|·|^p`: `torch.cdist(·, ·, p)` takes the root, then `pow_(q)`. -/
def outerDense (kind : Kind) (p q acc : α) : α :=
  match kind with
  | .l2 => rpow (HasSqrt.sqrt acc) q
  | .product => rpow (rpow acc (1 / q)) q
  | .lpq => rpow (rpow acc (1 / p)) q

end outer

/-- `mul_(-1 / L^q)` then `exp_()`. -/
def kval {α : Type} [Mul α] [Div α] [Neg α] [OfNat α 1] [HasExp α] [HasRpow α] (L q s : α) : α :=
  exp (s * (-1 / rpow L q))

section kernels
variable {α : Type} [Add α] [Sub α] [Mul α] [Div α] [Neg α] [OfNat α 0] [OfNat α 1] [OfNat α 2]
  [HasAbs α] [HasRpow α] [HasSqrt α] [HasExp α]

/-- `get_kernel_matrix(x, z, mat)[i, j]` without categorical indices, on the expanded rows. -/
def denseKernel (kind : Kind) (p q L : α) (d : Nat) (T : Transform α) (x z : Nat → α) : α :=
  kval L q (outerDense kind p q (denseAcc (normP kind p q) d T x z))

variable [LT α] [DecidableLT α]

/-- `get_kernel_matrix(x, z, mat)[i, j]` after `set_categorical_indices`. -/
def fastKernel (kind : Kind) (p q L : α) (lay : Layout) (T : Transform α) (x z : Nat → α) : α :=
  kval L q (outerFast kind p q (fastAcc (normP kind p q) lay T x z))

/-- Kernel matrices, row-major. -/
def fastMatrix (kind : Kind) (p q L : α) (lay : Layout) (T : Transform α) (xs zs : List (Nat → α)) :
    List (List α) :=
  xs.map fun x => zs.map fun z => fastKernel kind p q L lay T x z

def denseMatrix (kind : Kind) (p q L : α) (d : Nat) (T : Transform α) (xs zs : List (Nat → α)) :
    List (List α) :=
  xs.map fun x => zs.map fun z => denseKernel kind p q L d T x z

end kernels

/-! ### AGOP -/

section agop
variable {α : Type} [Add α] [Mul α] [OfNat α 0]

/-- `f_grads.T @ f_grads` for a gradient matrix with `n` rows: the dense AGOP. -/
def gram (n : Nat) (G : Nat → Nat → α) (i j : Nat) : α := sumRange n fun r => G r i * G r j

/-- `f_grads[:, idx].T @ f_grads[:, idx]`, in the local coordinates of `idx`. -/
def subGram (n : Nat) (G : Nat → Nat → α) (idx : List Nat) (a b : Nat) : α :=
  gram n (fun r c => G r (idx.getD c 0)) a b

/-- `A[idx[:, None], idx] = S`: entries with both indices in `idx` are overwritten. -/
def assignBlock (A : Nat → Nat → α) (idx : List Nat) (S : Nat → Nat → α) : Nat → Nat → α :=
  fun i j => if idx.contains i && idx.contains j then S (idx.idxOf i) (idx.idxOf j) else A i j

/-- `get_agop_categorical`: zeros, the numerical block (if there are numerical columns), then one
assignment per categorical group, in order. -/
def agopCat (n : Nat) (G : Nat → Nat → α) (lay : Layout) : Nat → Nat → α :=
  let zero : Nat → Nat → α := fun _ _ => 0
  let A0 := if lay.num.length > 0 then assignBlock zero lay.num (subGram n G lay.num) else zero
  lay.groups.foldl (fun A g => assignBlock A g (subGram n G g)) A0

/-- A matrix restricted to the numerical×numerical block and every group×group block. -/
def blockMask (lay : Layout) (A : Nat → Nat → α) : Nat → Nat → α :=
  fun i j => if sameBlock lay i j then A i j else 0

end agop

end Xrfmv.Categorical
