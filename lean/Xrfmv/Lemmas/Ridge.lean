/-
Meaning of the regenerated solver plan (`Gen.Ridge`, translated from `RFM.fit_predictor_lstsq`): the linear system a solver
branch hands to `torch.linalg` (modelled as an exact solve).
-/
import Xrfmv.Gen.Ridge
import Mathlib.LinearAlgebra.Matrix.PosDef

namespace Xrfmv.Ridge
open Matrix Xrfmv.Gen.Ridge

variable {n m : Type} [Fintype n] [DecidableEq n]

/-- a branch is a faithful solve: it factorises the system matrix, solves with the factor it has just computed, against the
targets, and changes nothing else -/
def faithful (b : Branch) : Bool :=
  b.factorisesTheSystemMatrix && b.solvesWithItsOwnFactor && b.rhsIsTargets && !b.extraDiagonalChange

/-- the matrix the solvers see: the Gram matrix of the centers, with `reg` added to its diagonal if the plan says so -/
def systemMatrix (pl : Plan) (K : Matrix n n ℝ) (reg : ℝ) : Matrix n n ℝ :=
  if pl.regAddedToDiagonal then K + reg • (1 : Matrix n n ℝ) else K

/-- the system `(A, rhs)` a branch solves; `none` if it is not a faithful solve of anything the model can name -/
def systemOf (pl : Plan) (b : Branch) (K : Matrix n n ℝ) (reg : ℝ) (Y : Matrix n m ℝ) :
    Option (Matrix n n ℝ × Matrix n m ℝ) :=
  if pl.gramOfCentersWithThemselves && faithful b then some (systemMatrix pl K reg, Y) else none

end Xrfmv.Ridge
