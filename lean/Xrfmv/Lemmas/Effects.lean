/-
Lemmas about the side-effect bracket model (`Xrfmv/Model/Effects.lean`).  Core Lean only.
-/
import Xrfmv.Model.Effects

namespace Xrfmv.Effects

theorem exec_append (s : State) (a b : List Event) : exec s (a ++ b) = exec (exec s a) b := by
  induction a generalizing s with
  | nil => rfl
  | cons e a ih => simp [exec, ih]

theorem exec_singleton (s : State) (e : Event) : exec s [e] = step s e := rfl

theorem step_restoreEnv (s : State) (o : Option String) : step s (restoreEnv o) = { s with env := o } := by
  cases o <;> rfl

/-- Every trace of the bracket grammar returns the process state to where it started. -/
theorem exec_wellBracketed {s : State} {t : List Event} (h : WellBracketed s t) : exec s t = s := by
  induction h with
  | nil s => rfl
  | seq _ _ iha ihb => rw [exec_append, iha, ihb]
  | @threads s n body _ ih =>
      show exec { s with threads := n } (body ++ [.setThreads s.threads]) = s
      rw [exec_append, ih, exec_singleton]
      rfl
  | @env s v body _ ih =>
      show exec { s with env := some v } (body ++ [restoreEnv s.env]) = s
      rw [exec_append, ih, exec_singleton, step_restoreEnv]

/-- The syntactic form of the grammar produces well-bracketed traces. -/
theorem flatten_wellBracketed (t : Tree) : ∀ s : State, WellBracketed s (flatten s t) := by
  induction t with
  | nil => intro s; exact WellBracketed.nil s
  | thr n body rest ihb ihr =>
      intro s
      exact WellBracketed.seq (WellBracketed.threads n (ihb _)) (ihr s)
  | env v body rest ihb ihr =>
      intro s
      exact WellBracketed.seq (WellBracketed.env v (ihb _)) (ihr s)

/-- Soundness of the executable acceptor used by the driver: an accepted trace is in the grammar, and the
reported final state is the initial one. -/
theorem accept_sound {s s' : State} {evs : List Event} (h : accept s evs = .ok s') :
    WellBracketed s evs ∧ s' = s := by
  unfold accept at h
  split at h
  · rename_i t _
    split at h
    · rename_i hf
      have hw : WellBracketed s evs := hf ▸ flatten_wellBracketed t s
      refine ⟨hw, ?_⟩
      have := exec_wellBracketed hw
      cases h
      exact this
    · cases h
  · cases h
  · cases h

/-- Calls whose body raises: the variable is still restored (the `finally`), the thread count need not be. -/
theorem raised_env_restored {s : State} {t : List Event} (h : Raised s t) : (exec s t).env = s.env := by
  induction h with
  | here s => rfl
  | after hw _ ih => rw [exec_append, exec_wellBracketed hw, ih]
  | @threads s n body _ ih =>
      show (exec { s with threads := n } body).env = s.env
      rw [ih]
  | @env s v body _ ih =>
      show (exec { s with env := some v } (body ++ [restoreEnv s.env])).env = s.env
      rw [exec_append, exec_singleton, step_restoreEnv]

end Xrfmv.Effects
