import Xrfmv.Drv.C17

def main : IO Unit := Xrfmv.Drv.runDriver Xrfmv.Drv.C17.ops
