import Xrfmv.Drv.C11

def main : IO Unit := Xrfmv.Drv.runDriver Xrfmv.Drv.C11.ops
