import Xrfmv.Props.C07
#print axioms Xrfmv.Props.C07.every_sample_exactly_once
#print axioms Xrfmv.Props.C07.at_least_once_with_overlap
#print axioms Xrfmv.Props.C07.moved_bound
#print axioms Xrfmv.Props.C07.single_leaf_moves_nothing
#print axioms Xrfmv.Props.C07.indices_follow_rows
#print axioms Xrfmv.Props.C07.construction_ok
#print axioms Xrfmv.Props.C07.every_sample_exactly_once_unconditional
