import Xrfmv.Drv.C16

def main : IO Unit := Xrfmv.Drv.runDriver Xrfmv.Drv.C16.ops
