/-
Model of hard-routed prediction (xrfm.py): the iterative traversal of
`_get_leaf_groups_and_models_on_samples` as an explicit stack machine over (original position, row) pairs, the
`argsort`-based restore of `_predict_tree_hard`, the chunk loop of `RFM.predict`, and the kernel expansion of a
leaf.  The routing predicate, the push order and the skip-empty rule come from the regenerated `Gen.Route`.
-/
import Xrfmv.Gen.Route

namespace Xrfmv.HardRoute
open Xrfmv.Gen.Route

inductive Tree (N L : Type)
  | leaf (m : L)
  | node (g : N) (l r : Tree N L)

variable {N L X Y : Type}

def Tree.size : Tree N L → Nat
  | .leaf _ => 1
  | .node _ l r => l.size + r.size + 1

/-- The leaf a row reaches (`goes g x` = the row goes left at node `g`). -/
def route (goes : N → X → Bool) : Tree N L → X → L
  | .leaf m, _ => m
  | .node g l r, x => if goes g x then route goes l x else route goes r x

/-- One stack entry: the rows (with their original positions) that reached a subtree. -/
abbrev Entry (N L X : Type) := List (Nat × X) × Tree N L

def stackWeight : List (Entry N L X) → Nat
  | [] => 0
  | e :: s => e.2.size + stackWeight s

/-- Children pushed for a split node, in `Gen.Route.pushOrder`, skipping empty groups; the stack is a Python list
(push = append at the end, pop = take from the end), here kept reversed: head = top. -/
def pushChildren (goes : N → X → Bool) (rows : List (Nat × X)) (g : N) (l r : Tree N L) (stack : List (Entry N L X)) :
    List (Entry N L X) :=
  pushOrder.foldl (fun st side =>
    match side with
    | .left =>
        let rs := rows.filter fun ix => goes g ix.2
        if skipEmptyGroups && rs.isEmpty then st else (rs, l) :: st
    | .right =>
        let rs := rows.filter fun ix => !goes g ix.2
        if skipEmptyGroups && rs.isEmpty then st else (rs, r) :: st) stack

theorem stackWeight_push (goes : N → X → Bool) (rows : List (Nat × X)) (g : N) (l r : Tree N L)
    (stack : List (Entry N L X)) :
    stackWeight (pushChildren goes rows g l r stack) ≤ l.size + r.size + stackWeight stack := by
  simp only [pushChildren, pushOrder, List.foldl_cons, List.foldl_nil]
  split <;> split <;> (try simp only [stackWeight]) <;> omega

/-- `while stack:` loop; `acc` collects (rows, leaf payload) groups in the order leaves are reached. -/
def groupsLoop (goes : N → X → Bool) : List (Entry N L X) → List (List (Nat × X) × L) → List (List (Nat × X) × L)
  | [], acc => acc
  | (rows, .leaf m) :: stack, acc => groupsLoop goes stack (acc ++ [(rows, m)])
  | (rows, .node g l r) :: stack, acc => groupsLoop goes (pushChildren goes rows g l r stack) acc
termination_by stack _ => stackWeight stack
decreasing_by
  · simp only [stackWeight, Tree.size]; omega
  · have := stackWeight_push goes rows g l r stack
    simp only [stackWeight, Tree.size]; omega

/-- The traversal started as the code does: all rows, root node. -/
def groups (goes : N → X → Bool) (t : Tree N L) (xs : List X) : List (List (Nat × X) × L) :=
  groupsLoop goes [(xs.zipIdx.map fun xi => (xi.2, xi.1), t)] []

/-- The obvious recursive grouping: left subtree first, empty groups skipped below the root. -/
def groupsRec (goes : N → X → Bool) : Tree N L → List (Nat × X) → List (List (Nat × X) × L)
  | .leaf m, rows => [(rows, m)]
  | .node g l r, rows =>
      (let rs := rows.filter fun ix => goes g ix.2
       if rs.isEmpty then [] else groupsRec goes l rs) ++
      (let rs := rows.filter fun ix => !goes g ix.2
       if rs.isEmpty then [] else groupsRec goes r rs)

/-- Per-group predictions concatenated, each value tagged with the original position of its row. -/
def tagged (f : L → X → Y) (gs : List (List (Nat × X) × L)) : List (Nat × Y) :=
  gs.flatMap fun g => g.1.map fun ix => (ix.1, f g.2 ix.2)

/-- `reorder_tensor`: sort the concatenated original positions, gather the values in that order. -/
def restore (p : List (Nat × Y)) : List Y :=
  (p.mergeSort fun a b => decide (a.1 ≤ b.1)).map Prod.snd

/-- `_predict_tree_hard` with leaf predictor `f`. -/
def predictHard (goes : N → X → Bool) (f : L → X → Y) (t : Tree N L) (xs : List X) : List Y :=
  restore (tagged f (groups goes t xs))

/-- `RFM.predict`: `for i in range(0, n, bs): out.append(F(samples[i:i+bs]))`, concatenated. -/
def batched (bs : Nat) (F : List X → List Y) (xs : List X) : List Y :=
  (List.range ((xs.length + bs - 1) / bs)).flatMap fun k => F ((xs.drop (k * bs)).take bs)

/-- A blocked loop in general: `for i in range(0, n, step): out.append(F(samples[i:i+width]))`, concatenated
(`batched bs = chunked bs bs`). -/
def chunked (step width : Nat) (F : List X → List Y) (xs : List X) : List Y :=
  (List.range ((xs.length + step - 1) / step)).flatMap fun k => F ((xs.drop (k * step)).take width)

/-- Kernel expansion of a leaf: `Σ_i α_i · k(x, c_i)`. -/
def kexp {α : Type} [Add α] [Mul α] [OfNat α 0] (k : X → X → α) (centers : List X) (alpha : List α) (x : X) : α :=
  (centers.zip alpha).foldl (fun s ca => s + ca.2 * k x ca.1) 0

end Xrfmv.HardRoute
