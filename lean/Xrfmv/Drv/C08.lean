/- Driver ops for C08: one split node – masks of the rank split and the prediction routing rule. -/
import Xrfmv.Drv.C07
import Xrfmv.Model.RouteAgree

open Lean Xrfmv.Drv

namespace Xrfmv.Drv.C08
open Xrfmv.BuildIndex Xrfmv.Gen.Split Xrfmv.Gen.Route

/-- `{"op":"node","proj":[bits..],"sorted":[..],"thr":bits,"r":int,"val":[bits..]}` →
contract flags, the two masks the model derives from `sorted`, the prediction-rule decision per training
position and the validation-rule decision per validation projection. -/
def opNode : Handler := fun j => do
  let proj ← getFs j "proj"
  let sorted ← j.getObjValAs? (List Nat) "sorted"
  let thr ← getF j "thr"
  let r ← j.getObjValAs? Int "r"
  let vals ← getFs j "val"
  let n := proj.size
  if proj.any Float.isNaN ∨ thr.isNaN then throw "bad-op: NaN projection"
  -- Large nodes (tens of thousands of rows): the model's definitions are quadratic (`List.contains` per position), so
  -- the masks are computed by scattering the selected positions into an array; on every node of at most 512 rows the
  -- result is cross-checked against the model's own `sideMask`, and a difference is reported as an error.
  let sortedA := sorted.toArray
  let seen := sortedA.foldl (fun (a : Array Bool) i => a.setIfInBounds i true) (Array.replicate n false)
  let isPerm := decide (sorted.length = n) && seen.all id
  let spA := sortedA.map fun i => proj.getD i 0.0
  let asc := (List.range (n - 1)).all fun k => decide (spA.getD k 0.0 ≤ spA.getD (k + 1) 0.0)
  let med := spA.getD ((n - 1) / 2) 0.0
  let scatter (sel : List Nat) : List Bool :=
    (sel.foldl (fun (a : Array Bool) i => a.setIfInBounds i true) (Array.replicate n false)).toList
  let left := scatter (maskSel n sorted r leftMaskParts)
  let right := scatter (maskSel n sorted r rightMaskParts)
  if n ≤ 512 then
    if left != (List.range n).map (sideMask n sorted r .left) || right != (List.range n).map (sideMask n sorted r .right) then
      throw "driver-self-check: scattered mask differs from the model's sideMask"
  let goes := (List.range n).map fun i => goesLeft (proj.getD i 0.0) thr
  let vgoes := vals.toList.map fun v => valGoesLeft v thr
  let pgoes := vals.toList.map fun v => goesLeft v thr
  pure <| Json.mkObj [("isPerm", toJson isPerm), ("ascending", toJson asc), ("medianIsLower", toJson (med == thr)),
    ("left", toJson left), ("right", toJson right), ("goesLeft", toJson goes),
    ("valGoesLeft", toJson vgoes), ("valPredGoesLeft", toJson pgoes)]

def ops : List (String × Handler) := Xrfmv.Drv.C07.ops ++ [("node", opNode)]

end Xrfmv.Drv.C08
