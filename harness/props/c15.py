"""
C15 — categorical fast path equals dense evaluation on one-hot inputs.

Proof: lean/Xrfmv/Props/C15.lean (block additivity of ||.||_p^p, one-hot table lookup, hence fast = dense
for transforms that do not mix blocks; categorical AGOP = dense AGOP masked to the blocks).

Correspondence (float64, CPU): for every generated case
  real fast path   K.set_categorical_indices(num, groups, [eye(k)], device='cpu'); K.get_kernel_matrix(x, z, mat)
  real dense path  a second kernel object of the same class without categorical indices, same one-hot x, z
  Lean driver      ops `kernel` (fastMatrix / denseMatrix of Model/Categorical.lean), `agop`, `mask`
PROPERTY ORACLE = real fast vs real dense (kernels), real categorical AGOP vs real dense AGOP masked to
the blocks, RFM(fast_categorical=True) vs RFM(fast_categorical=False) - all independent of the driver.
All comparisons go through a computed per-entry rounding allowance (`allowance_kernel`, `allowance_agop`).
An exception inside the implementation is a failing input `C15:raises:<Type>` (the product kernel's fast
path used to raise on CPU; it is exercised in every run).
"""
import itertools
import random

from harness import core

MOD = 'harness.props.c15'
EPS = 2.220446049250313e-16
KINDS = ['l2', 'product', 'lpq']
QS = [0.5, 0.7, 1.0, 1.3, 1.7, 2.0]
LAYOUTS = ['contiguous', 'cat-first', 'interleaved', 'shuffled']


# ------------------------------------------------------------------------------------------------
# case construction (everything derives from the json-able params, so a case replays exactly)
# ------------------------------------------------------------------------------------------------
def make_layout(p, r):
    """-> d, num (list), groups (list of lists): positions of every block among the d columns"""
    nnum, levels = p['nnum'], p['levels']
    sizes = [nnum] + list(levels)
    d = sum(sizes)
    owner = [b for b, k in enumerate(sizes) for _ in range(k)]
    kind = p['layout']
    if kind == 'cat-first':
        owner = owner[nnum:] + owner[:nnum]
    elif kind == 'interleaved':
        left = list(sizes)
        owner = []
        b = 0
        while len(owner) < d:
            if left[b % len(sizes)] > 0:
                owner.append(b % len(sizes))
                left[b % len(sizes)] -= 1
            b += 1
    elif kind == 'shuffled':
        r.shuffle(owner)
    blocks = [[c for c in range(d) if owner[c] == b] for b in range(len(sizes))]
    if kind == 'shuffled':
        for b in blocks:
            r.shuffle(b)     # index groups need not be sorted either
    return d, blocks[0], blocks[1:]


def make_transform(p, d, num, groups, g):
    import torch
    kind = p['transform']
    if kind == 'none':
        return None
    if kind == 'diag':
        v = torch.rand(d, generator=g, dtype=torch.float64) * 2.0
        if p.get('zero_weight'):
            v[torch.randint(0, d, (1,), generator=g)] = 0.0
        return v
    mat = torch.zeros(d, d, dtype=torch.float64)
    blocks = [num] + groups if kind == 'block' else [list(range(d))]   # 'mix': one block over all columns
    for b in blocks:
        k = len(b)
        if k == 0:
            continue
        rank = max(1, k - 1) if p.get('rank_deficient') else k
        a = torch.randn(k, rank, generator=g, dtype=torch.float64) * p.get('tscale', 0.7)
        idx = torch.tensor(b, dtype=torch.long)
        if p.get('nonsym'):                    # a general (non-symmetric) block: x @ mat and x @ mat.T differ
            a2 = torch.randn(k, rank, generator=g, dtype=torch.float64) * p.get('tscale', 0.7)
            mat[idx[:, None], idx] = a @ a2.T
        else:
            mat[idx[:, None], idx] = a @ a.T   # symmetric PSD per block, exact zeros across blocks
    return mat


def make_rows(p, d, num, groups, g):
    import torch
    levels = [len(b) for b in groups]
    sc = p.get('scale', 1.0)

    def fill(cats, numeric):
        n = len(cats)
        x = torch.zeros(n, d, dtype=torch.float64)
        if num:
            x[:, torch.tensor(num)] = numeric
        for i, row in enumerate(cats):
            for b, a in zip(groups, row):
                x[i, b[a]] = 1.0
        return x

    if p.get('rows') == 'all':
        cats = list(itertools.product(*[range(k) for k in levels]))
        xn = torch.randn(len(cats), len(num), generator=g, dtype=torch.float64) * sc
        zn = torch.randn(len(cats), len(num), generator=g, dtype=torch.float64) * sc
        zn[::2] = xn[::2]                     # every other z row coincides with the x row (distance exactly 0)
        return fill(cats, xn), fill(cats, zn)
    nx, nz = p['nx'], p['nz']
    cx = [[int(torch.randint(0, k, (1,), generator=g)) for k in levels] for _ in range(nx)]
    cz = [[int(torch.randint(0, k, (1,), generator=g)) for k in levels] for _ in range(nz)]
    xn = torch.randn(nx, len(num), generator=g, dtype=torch.float64) * sc
    zn = torch.randn(nz, len(num), generator=g, dtype=torch.float64) * sc
    if p.get('grid'):                         # numerical values on a coarse grid: many exact coordinate ties
        xn, zn = torch.round(xn * 2) / 2, torch.round(zn * 2) / 2
    for j in range(min(nx, nz)):
        if j % 4 == 0 and p.get('dups', True):   # duplicates across x and z
            cz[j] = list(cx[j])
            zn[j] = xn[j]
    return fill(cx, xn), fill(cz, zn)


def mk_kernel(p):
    from xrfm.rfm_src.kernels import LaplaceKernel, ProductLaplaceKernel, LpqLaplaceKernel
    kw = {'bandwidth_mode': 'adaptive'} if p.get('pending') else {}
    if p['kernel'] == 'l2':
        return LaplaceKernel(bandwidth=p['L'], exponent=p['q'], **kw)
    if p['kernel'] == 'product':
        return ProductLaplaceKernel(bandwidth=p['L'], exponent=p['q'], **kw)
    return LpqLaplaceKernel(bandwidth=p['L'], p=p['p'], q=p['q'], **kw)


def declare(K, num, groups):
    import torch
    K.set_categorical_indices(torch.tensor(num, dtype=torch.long),
                              [torch.tensor(b, dtype=torch.long) for b in groups],
                              [torch.eye(len(b), dtype=torch.float64) for b in groups], device='cpu')
    return K


def build(p):
    import torch
    r = random.Random(p['seed'])
    g = torch.Generator().manual_seed(p['seed'])
    d, num, groups = make_layout(p, r)
    mat = make_transform(p, d, num, groups, g)
    x, z = make_rows(p, d, num, groups, g)
    return d, num, groups, mat, x, z


# ------------------------------------------------------------------------------------------------
# rounding allowances (DESIGN 4.3): interval image of the kernel profile over the distance error
# ------------------------------------------------------------------------------------------------
def norm_p(p):
    return 2.0 if p['kernel'] == 'l2' else (p['q'] if p['kernel'] == 'product' else p['p'])


def profile(p):
    """K as a function of the accumulated distance A = sum |diff|^P (monotone decreasing)."""
    import numpy as np
    P, q, L = norm_p(p), p['q'], p['L']
    e = {'l2': q / 2.0, 'product': 1.0, 'lpq': q / P}[p['kernel']]
    return lambda A: np.exp(-(np.maximum(A, 0.0) ** e) / L ** q), e


def allowance_kernel(p, x, z, mat):
    """Per-entry bound on |computed K - exact K| valid for the fast path, the dense path and the Float
    model: forward error of the transformed coordinate differences, pushed through |.|^P, the sum, the
    `mm` expansion of Euclidean cdist above 25 rows, and the kernel profile."""
    import numpy as np
    x, z = x.numpy(), z.numpy()
    d = x.shape[1]
    P = norm_p(p)
    if mat is None:
        xt, zt, ex, ez = x, z, 0.0 * x, 0.0 * z
    elif mat.dim() == 1:
        v = mat.numpy()
        xt, zt = x * v, z * v
        ex, ez = 2 * EPS * np.abs(xt), 2 * EPS * np.abs(zt)
    else:
        m = mat.numpy()
        xt, zt = x @ m, z @ m
        ex, ez = (d + 2) * EPS * (np.abs(x) @ np.abs(m)), (d + 2) * EPS * (np.abs(z) @ np.abs(m))
    ad = np.abs(xt[:, None, :] - zt[None, :, :])
    e = ex[:, None, :] + ez[None, :, :] + 2 * EPS * ad
    up = (ad + e) ** P - ad ** P
    dn = ad ** P - np.maximum(ad - e, 0.0) ** P
    A = (ad ** P).sum(-1)
    dA = np.maximum(up, dn).sum(-1) + 8 * (d + 8) * EPS * A
    expansion = P == 2.0 and (x.shape[0] > 25 or z.shape[0] > 25)
    if expansion:                                  # measured: |cdist^2 - exact| <= 6 eps (|x|^2+|z|^2)
        dA = dA + 32 * EPS * ((xt ** 2).sum(-1)[:, None] + (zt ** 2).sum(-1)[None, :])
    g, expo = profile(p)
    K = g(A)
    t = (A ** expo) / p['L'] ** p['q']
    allow = np.maximum(g(A - dA) - K, K - g(A + dA)) + 32 * EPS * K * t + 8 * EPS
    return allow, K, expansion


def allowance_agop(G):
    """sum_r g_ri g_rj computed in two summation orders differs by <= ~rows*eps*sum_r |g_ri||g_rj|
    (computed from |G| itself: products of tiny gradients underflow, the diagonal is no safe proxy)."""
    aG = G.abs()
    return 16 * (G.shape[0] + 4) * EPS * (aG.T @ aG) + 1e-290


def block_mask(d, num, groups):
    import torch
    m = torch.zeros(d, d, dtype=torch.bool)
    for b in [num] + groups:
        if b:
            idx = torch.tensor(b, dtype=torch.long)
            m[idx[:, None], idx] = True
    return m


# ------------------------------------------------------------------------------------------------
# one case
# ------------------------------------------------------------------------------------------------
def guarded(res, what, fn):
    """Run a call into the implementation; an exception is a failing input of the property."""
    try:
        return fn()
    except Exception as e:
        res['failures'].append({'signature': f'C15:raises:{type(e).__name__}', 'detail': f'{what}: {e}'[:300]})
        return None


def exceeds(a, b, allow):
    """entries where |a-b| <= allow does NOT hold (NaN counts as exceeding)"""
    import numpy as np
    return ~(np.abs(a - b) <= allow)


def worst(a, b, allow):
    import numpy as np
    bad = exceeds(a, b, allow)
    ij = np.unravel_index(np.argmax(np.where(np.isnan(a - b), np.inf, np.abs(a - b) - allow)), a.shape)
    return bad, (int(ij[0]), int(ij[1]))


def layout_query(d, num, groups):
    return {'d': d, 'num': num, 'groups': groups}


def transform_query(mat):
    if mat is None:
        return {'transform': 'none'}
    if mat.dim() == 1:
        return {'transform': 'diag', 'mat': core.fl(mat)}
    return {'transform': 'full', 'mat': core.fl(mat)}


def run_kernel(p, drv, res):
    import numpy as np
    import torch
    d, num, groups, mat, x, z = build(p)
    mixing = p['transform'] == 'mix'
    fast = guarded(res, f'{p["kernel"]} fast path get_kernel_matrix',
                   lambda: declare(mk_kernel(p), num, groups).get_kernel_matrix(x, z, mat))
    dense = guarded(res, f'{p["kernel"]} dense get_kernel_matrix', lambda: mk_kernel(p).get_kernel_matrix(x, z, mat))
    if fast is None or dense is None:
        return
    fast, dense = fast.numpy(), dense.numpy()
    allow, Kref, expansion = allowance_kernel(p, x, z, mat)
    # ---- property oracle: fast vs dense on the implementation ---------------------------------
    bad, (i, j) = worst(fast, dense, 2 * allow)
    if mixing:
        # outside the property's proviso: the two paths are EXPECTED to differ (documents the check's power)
        res['dist']['negative_control'] = 'paths differ' if (np.abs(fast - dense) > 1e-6).any() else 'paths equal'
    elif bad.any():
        res['failures'].append({'signature': 'C15:fast-ne-dense', 'detail':
                                f'{p["kernel"]} transform={p["transform"]}: fast[{i},{j}]={fast[i, j]!r} dense={dense[i, j]!r} '
                                f'allowance={2 * allow[i, j]:.3g}; {int(bad.sum())} of {bad.size} entries'})
    # ---- correspondence: both real paths vs the Lean model (also under a mixing transform) -----
    q = {'op': 'kernel', 'kernel': p['kernel'], 'p': core.f2b(p.get('p', 2.0)), 'q': core.f2b(p['q']),
         'L': core.f2b(p['L']), 'x': core.fl(x), 'z': core.fl(z)}
    q.update(layout_query(d, num, groups))
    q.update(transform_query(mat))
    m = drv.ask(q)
    if 'error' in m:
        res['disagreements'].append({'detail': f'model rejects the case: {m["error"]}'})
    else:
        mf, md = np.array(core.unfl(m['fast'])).reshape(fast.shape), np.array(core.unfl(m['dense'])).reshape(fast.shape)
        for name, a, b in (('fast', fast, mf), ('dense', dense, md)):
            bad2, (i2, j2) = worst(a, b, 2 * allow)
            if bad2.any():
                res['disagreements'].append({'detail': f'{name} path {p["kernel"]} transform={p["transform"]}: impl[{i2},{j2}]='
                                             f'{a[i2, j2]!r} model={b[i2, j2]!r} allowance={2 * allow[i2, j2]:.3g}'})
        # arg-max categories seen by the model = the categories the rows were built from
        xc = [x[:, torch.tensor(b, dtype=torch.long)].argmax(dim=-1).tolist() for b in groups]
        if m['xcat'] != xc:
            res['disagreements'].append({'detail': 'arg-max categories differ between torch and model'})
    spread = float(dense.max() - dense.min())
    res['nontrivial'] = p if (spread > 1e-6 and dense.max() > 1e-200) else None
    ratio = float(np.nanmax(np.abs(fast - dense) / (2 * allow))) if not mixing else 0.0
    res['dist'].update({'kernel': p['kernel'], 'transform': p['transform'], 'layout': p['layout'], 'nnum': p['nnum'],
                        'groups': len(p['levels']), 'cdist_mode': 'mm-expansion' if expansion else 'exact',
                        'rows': 'le25' if max(x.shape[0], z.shape[0]) <= 25 else 'gt25',
                        'diff_over_allowance': 'le0.1' if ratio <= 0.1 else 'le0.5' if ratio <= 0.5 else 'le1' if ratio <= 1 else 'gt1',
                        'allowance_max': next(b for b in ('1e-13', '1e-11', '1e-9', '1e-6', '1') if 2 * allow.max() <= float(b)),
                        'q': p['q'], 'spread': 'flat' if spread <= 1e-6 else 'varied'})
    res['sample'] = {'params': p, 'shape': list(fast.shape), 'max_abs_fast_minus_dense': float(np.nanmax(np.abs(fast - dense))),
                     'max_allowance': float(2 * allow.max()), 'K_range': [float(dense.min()), float(dense.max())]}


def run_history(p, drv, res):
    """One kernel object with the fast path declared, used for a sequence of evaluations: the transform's values change
    while its storage stays (in-place rescale, `copy_` of a new estimate - what an iterated fit does to `M`), then `None`,
    then a fresh tensor, then other rows.  After every step the fast path must equal the dense evaluation (fresh object)."""
    import numpy as np
    import torch
    d, num, groups, mat, x, z = build(p)
    g2 = torch.Generator().manual_seed(p['seed'] + 1)
    mat2 = make_transform(p, d, num, groups, g2)
    x2, z2 = make_rows(p, d, num, groups, g2)
    try:
        K = declare(mk_kernel(p), num, groups)
    except Exception as e:  # noqa: BLE001
        res['failures'].append({'signature': f'C15:raises:{type(e).__name__}', 'detail': f'declaring the fast path: {str(e)[:200]}'})
        return
    steps = [('first evaluation', lambda m: m, x, z)]
    if mat is not None:
        steps += [('transform rescaled in place', lambda m: m.mul_(0.37), x, z),
                  ('new estimate copied into the same tensor', lambda m: m.copy_(mat2), x, z),
                  ('same tensor, other rows', lambda m: m, x2, z2)]
    steps += [('no transform', lambda m: None, x, z), ('fresh transform tensor', lambda m: None if mat2 is None else mat2.clone(), x2, z)]
    cur = mat
    worst_ratio = 0.0
    for name, upd, xs, zs in steps:
        cur = upd(cur)
        fast = guarded(res, f'{p["kernel"]} fast path, {name}', lambda: K.get_kernel_matrix(xs, zs, cur))
        dense = guarded(res, f'{p["kernel"]} dense, {name}', lambda: mk_kernel(p).get_kernel_matrix(xs, zs, None if cur is None else cur.clone()))
        if fast is None or dense is None:
            return
        fast, dense = fast.numpy(), dense.numpy()
        allow, _, _ = allowance_kernel(p, xs, zs, cur)
        bad, (i, j) = worst(fast, dense, 2 * allow)
        worst_ratio = max(worst_ratio, float(np.nanmax(np.abs(fast - dense) / (2 * allow))))
        if bad.any():
            res['failures'].append({'signature': 'C15:fast-ne-dense:history', 'detail':
                                    f'{p["kernel"]} transform={p["transform"]}, step "{name}" on one kernel object: fast[{i},{j}]={fast[i, j]!r} '
                                    f'dense={dense[i, j]!r} allowance={2 * allow[i, j]:.3g}; {int(bad.sum())} of {bad.size} entries'})
            break
    res['nontrivial'] = p
    res['dist'].update({'kernel': p['kernel'], 'transform': p['transform'], 'history_steps': len(steps),
                        'diff_over_allowance': 'le0.1' if worst_ratio <= 0.1 else 'le0.5' if worst_ratio <= 0.5 else 'le1' if worst_ratio <= 1 else 'gt1'})
    res['sample'] = {'params': p, 'steps': [s[0] for s in steps], 'worst_diff_over_allowance': worst_ratio}


def run_pending(p, drv, res):
    """Adaptive mode with a pending adaptation: the first Gram-matrix call of either path adapts the bandwidth (base x median
    distance of the transformed rows) and uses it; both paths must arrive at the same bandwidth and the same matrix."""
    import numpy as np
    d, num, groups, mat, x, _ = build(p)
    try:
        Kf = declare(mk_kernel(p), num, groups)
        Kd = mk_kernel(p)
        Kf._reset_adaptive_bandwidth()
        Kd._reset_adaptive_bandwidth()
    except Exception as e:  # noqa: BLE001
        res['failures'].append({'signature': f'C15:raises:{type(e).__name__}', 'detail': f'adaptive kernel objects: {str(e)[:200]}'})
        return
    fast = guarded(res, f'{p["kernel"]} fast path, pending adaptation', lambda: Kf.get_kernel_matrix(x, x, mat))
    dense = guarded(res, f'{p["kernel"]} dense, pending adaptation', lambda: Kd.get_kernel_matrix(x, x, None if mat is None else mat.clone()))
    if fast is None or dense is None:
        return
    bf, bd = float(Kf.bandwidth), float(Kd.bandwidth)
    if abs(bf - bd) > 1e-9 * abs(bd):
        res['failures'].append({'signature': 'C15:fast-ne-dense:adapted-bandwidth', 'detail':
                                f'{p["kernel"]} q={p["q"]} transform={p["transform"]}: the fast path adapted the bandwidth to {bf!r}, the dense path to {bd!r} (base {p["L"]})'})
    else:
        allow, _, _ = allowance_kernel(dict(p, L=bd), x, x, mat)
        bad, (i, j) = worst(fast.numpy(), dense.numpy(), 2 * allow)
        if bad.any():
            res['failures'].append({'signature': 'C15:fast-ne-dense:pending-adaptation', 'detail':
                                    f'{p["kernel"]} transform={p["transform"]}: fast[{i},{j}]={float(fast[i, j])!r} dense={float(dense[i, j])!r} after adaptation to {bd!r}'})
    res['nontrivial'] = p if abs(bd / p['L'] - 1.0) > 1e-3 else None
    res['dist'].update({'kernel': p['kernel'], 'transform': p['transform'], 'q': p['q'], 'pending_adaptation': True})
    res['sample'] = {'params': p, 'adapted_bandwidth': [bf, bd]}


def run_agop(p, drv, res):
    import numpy as np
    import torch
    d, num, groups, mat, x, z = build(p)
    g = torch.Generator().manual_seed(p['seed'] + 1)
    coefs = torch.randn(p['f'], x.shape[0], generator=g, dtype=torch.float64)
    Kd = mk_kernel(p)
    cg = bool(p.get('center_grads', False))
    A_fast = guarded(res, f'{p["kernel"]} categorical get_agop',
                     lambda: declare(mk_kernel(p), num, groups).get_agop(x, z, coefs, mat, center_grads=cg))
    A_dense = guarded(res, f'{p["kernel"]} dense get_agop', lambda: Kd.get_agop(x, z, coefs, mat, center_grads=cg))
    G = guarded(res, 'get_function_grads', lambda: Kd.get_function_grads(x, z, coefs, mat))
    if A_fast is None or A_dense is None or G is None:
        return
    G = G.reshape(-1, d)
    if cg:      # single batch: centring over the merged (output x point) rows, as the dense path documents
        G = G - G.mean(dim=0, keepdim=True)
    res['dist']['center_grads'] = cg
    mask = block_mask(d, num, groups)
    finite = bool(torch.isfinite(A_dense).all())
    res['dist'].update({'kernel': p['kernel'], 'transform': p['transform'], 'layout': p['layout'], 'agop_outputs': p['f'],
                        'agop_dense_finite': finite})
    if not finite:     # gradients themselves are C04's subject; the restriction is still checked on the pattern
        if not bool((torch.isfinite(A_fast) | mask).all()):
            res['failures'].append({'signature': 'C15:agop-not-block-restricted', 'detail': 'non-finite entry outside the blocks'})
        return
    allow = allowance_agop(G).numpy()
    want = (A_dense * mask).numpy()
    bad, (i, j) = worst(A_fast.numpy(), want, allow)
    offblock = A_fast[~mask]
    if bad.any() or bool((offblock != 0).any()):
        res['failures'].append({'signature': 'C15:agop-not-block-restricted', 'detail':
                                f'{p["kernel"]} transform={p["transform"]}: agop_cat[{i},{j}]={float(A_fast[i, j])!r}, masked dense='
                                f'{float(want[i, j])!r}, allowance={allow[i, j]:.3g}; off-block non-zeros: {int((offblock != 0).sum())}'})
    # ---- correspondence with the model ----------------------------------------------------------
    q = {'op': 'agop', 'G': core.fl(G)}
    q.update(layout_query(d, num, groups))
    m = drv.ask(q)
    q2 = {'op': 'mask', 'A': core.fl(A_dense)}
    q2.update(layout_query(d, num, groups))
    m2 = drv.ask(q2)
    if 'error' in m or 'error' in m2:
        res['disagreements'].append({'detail': f'model rejects the case: {m.get("error") or m2.get("error")}'})
    else:
        mc, mdn = np.array(core.unfl(m['cat'])), np.array(core.unfl(m['dense']))
        mm = np.array(core.unfl(m2['masked']))
        if exceeds(A_fast.numpy(), mc, allow).any():
            res['disagreements'].append({'detail': 'categorical AGOP: implementation vs model agopCat beyond allowance'})
        if exceeds(A_dense.numpy(), mdn, allow).any():
            res['disagreements'].append({'detail': 'dense AGOP: implementation vs model gram beyond allowance'})
        if not np.array_equal(mm, want):     # same floats pass through the mask: exact
            res['disagreements'].append({'detail': 'block mask of the dense AGOP: model mask differs from the index-set mask'})
        if exceeds(A_fast.numpy(), mm, allow).any():
            res['disagreements'].append({'detail': 'categorical AGOP vs model mask of the dense AGOP beyond allowance'})
    nz_off = bool(((A_dense * ~mask).abs() > 1e-12 * float(A_dense.abs().max() + 1e-300)).any())
    res['nontrivial'] = p if nz_off else None      # the mask really removes something
    res['dist']['agop_offblock_mass'] = 'present' if nz_off else 'absent'
    res['sample'] = {'params': p, 'd': d, 'num': num, 'groups': groups,
                     'max_abs_cat_minus_masked_dense': float(np.abs(A_fast.numpy() - want).max()),
                     'max_allowance': float(allow.max()), 'dense_abs_max': float(A_dense.abs().max())}


def run_model(p, drv, res):
    """RFM(..., categorical_info=..., fast_categorical=True/False).kernel(x, z)"""
    import numpy as np
    import torch
    from xrfm.rfm_src import RFM
    d, num, groups, mat, x, z = build(p)
    info = lambda: {'numerical_indices': torch.tensor(num, dtype=torch.long),
                    'categorical_indices': [torch.tensor(b, dtype=torch.long) for b in groups],
                    'categorical_vectors': [torch.eye(len(b), dtype=torch.float64) for b in groups]}
    name = {'l2': p.get('alias', 'l2'), 'product': p.get('alias', 'l1'), 'lpq': p.get('alias', 'lpq')}[p['kernel']]

    def make(fast):
        m = RFM(kernel=name, bandwidth=p['L'], exponent=p['q'], norm_p=p.get('p', 2.0), device='cpu', verbose=False,
                categorical_info=info(), fast_categorical=fast)
        m.sqrtM = mat
        m.M = mat
        return m
    mf = guarded(res, 'RFM(fast_categorical=True)', lambda: make(True))
    md = guarded(res, 'RFM(fast_categorical=False)', lambda: make(False))
    if mf is None or md is None:
        return
    kf = guarded(res, f'RFM.kernel fast {name}', lambda: mf.kernel(x, z))
    kd = guarded(res, f'RFM.kernel dense {name}', lambda: md.kernel(x, z))
    if kf is None or kd is None:
        return
    allow, _, _ = allowance_kernel(p, x, z, mat)
    bad, (i, j) = worst(kf.numpy(), kd.numpy(), 2 * allow)
    if bad.any():
        res['failures'].append({'signature': 'C15:model-fast-ne-dense', 'detail':
                                f'RFM kernel={name} transform={p["transform"]}: [{i},{j}] fast={float(kf[i, j])!r} dense={float(kd[i, j])!r}'})
    if not (mf.kernel_obj.handle_categorical and not md.kernel_obj.handle_categorical):
        res['disagreements'].append({'detail': 'fast_categorical flag does not select the path as modelled '
                                     f'(handle_categorical fast={mf.kernel_obj.handle_categorical}, dense={md.kernel_obj.handle_categorical})'})
    direct = declare(mk_kernel(p), num, groups).get_kernel_matrix(x, z, mat)
    if not torch.equal(direct, kf):    # same code on the same tensors: bit-exact
        res['disagreements'].append({'detail': 'RFM.kernel differs from the kernel object it delegates to'})
    res['nontrivial'] = p if float(kd.max() - kd.min()) > 1e-6 else None
    res['dist'].update({'kernel': p['kernel'], 'transform': p['transform'], 'model_alias': name})
    res['sample'] = {'params': p, 'max_abs_fast_minus_dense': float((kf - kd).abs().max())}


RUNNERS = {'kernel': run_kernel, 'agop': run_agop, 'model': run_model, 'history': run_history, 'pending': run_pending}


def execute(chunk):
    drv = core.Driver('C15')
    out = []
    try:
        for p in chunk['cases']:
            res = {'family': p['family'], 'params': p, 'disagreements': [], 'failures': [], 'dist': {}, 'nontrivial': None}
            RUNNERS[p['what']](p, drv, res)
            if p['kernel'] == 'product' and p['what'] in ('kernel', 'model'):
                res['dist']['product_fast_path'] = 'raised' if any(f['signature'].startswith('C15:raises') for f in res['failures']) else 'ran'
            out.append(res)
    finally:
        drv.close()
    return out


# ------------------------------------------------------------------------------------------------
# generators
# ------------------------------------------------------------------------------------------------
def exponents(r, kind, k):
    q = QS[k % len(QS)] if r.random() < 0.7 else r.choice(QS)
    if kind != 'lpq':
        return q, 2.0
    c = r.random()
    p = q if c < 0.2 else 2.0 if c < 0.4 else 1.0 if (c < 0.5 and q <= 1.0) else round(r.uniform(q, 2.0), 3)
    return q, p


def bandwidth(r):
    return round(0.3 * (10.0 / 0.3) ** r.random(), 4)


def random_case(r, k, what, family, transforms=('none', 'diag', 'block')):
    kind = KINDS[k % 3]                     # round-robin: the product kernel is exercised in every run
    q, p = exponents(r, kind, k // 3)
    big = r.random() < 0.2
    c = dict(family=family, what=what, seed=r.randint(0, 2 ** 31 - 1), kernel=kind, q=q, p=p, L=bandwidth(r),
             nnum=r.randint(0, 4), levels=[r.randint(2, 6) for _ in range(r.randint(1, 4))],
             layout=LAYOUTS[(k // 3) % 4] if r.random() < 0.5 else r.choice(LAYOUTS),
             transform=transforms[(k // 9) % len(transforms)] if r.random() < 0.6 else r.choice(transforms),
             nx=r.randint(26, 40) if big else r.randint(1, 25), nz=r.randint(1, 40) if big else r.randint(1, 25),
             scale=r.choice([0.05, 0.5, 1.0, 3.0]), tscale=r.choice([0.3, 0.7, 1.5]),
             grid=r.random() < 0.2, rank_deficient=r.random() < 0.2, zero_weight=r.random() < 0.2)
    if what in ('kernel', 'agop') and c['transform'] == 'block':
        c['nonsym'] = (k % 2 == 1)             # every other block-diagonal transform is not symmetric
    if what == 'agop':
        c['f'] = 1 + k % 3
        c['center_grads'] = (k % 4 >= 2)
        c['nx'], c['nz'] = min(c['nx'], 30), min(c['nz'], 30)
    return c


def exhaustive_cases(max_groups, max_levels):
    cases = []
    k = 0
    for ng in range(1, max_groups + 1):
        for levels in itertools.product(range(2, max_levels + 1), repeat=ng):
            for nnum in (0, 1):
                for kind in KINDS:
                    for tr in ('none', 'diag', 'block'):
                        q = QS[k % len(QS)]
                        p = [q, 2.0, round((q + 2.0) / 2, 3)][k % 3] if kind == 'lpq' else 2.0
                        cases.append(dict(family='exhaustive-onehot-rows', what='kernel', seed=1000 + k, kernel=kind, q=q, p=p,
                                          L=[0.5, 1.5, 4.0][k % 3], nnum=nnum, levels=list(levels),
                                          layout=LAYOUTS[k % 4], transform=tr, rows='all', scale=1.0, tscale=0.7,
                                          nonsym=(tr == 'block' and (k // 3) % 2 == 1)))
                        k += 1
    return cases


def gen_cases(run):
    r = run.rng
    quick = run.tier == 'quick'
    cases = exhaustive_cases(2, 3) if quick else exhaustive_cases(3, 4)
    n_kernel, n_agop, n_model, n_neg = (180, 90, 18, 12) if quick else (2000, 1000, 120, 60)
    cases += [random_case(r, k, 'kernel', 'kernel-random') for k in range(n_kernel)]
    cases += [random_case(r, k, 'agop', 'agop-random') for k in range(n_agop)]
    for k in range(n_model):
        c = random_case(r, k, 'model', 'model-level-rfm')
        if c['kernel'] == 'product' and k % 2:
            c['alias'] = 'product_laplace'
        if c['kernel'] == 'l2' and k % 2:
            c['alias'] = 'laplace'
        cases.append(c)
    # very tall x: crosses the internal row-block sizes of the categorical fast paths (5,000 / 10,000 rows)
    for k, nx in enumerate([5001, 10003] if quick else [5001, 5001, 10003, 10003, 15007, 20011]):
        c = random_case(r, k, 'kernel', 'kernel-tall')
        c.update(kernel=['product', 'product', 'l2', 'lpq', 'product', 'product'][k % 6], nx=nx, nz=r.randint(2, 5), rank_deficient=False)
        if c['kernel'] == 'lpq' and c.get('p') is None:
            c['p'] = 1.5
        c['q'] = min(c['q'], c['p']) if c['kernel'] == 'lpq' else c['q']
        cases.append(c)
    # adaptive bandwidth with a pending adaptation (first Gram-matrix call adapts): both paths adapt alike
    for k in range(18 if quick else 180):
        c = random_case(r, k, 'pending', 'pending-adaptation')
        c.update(pending=True, nx=r.randint(4, 30), nz=1, rank_deficient=False, zero_weight=False)
        cases.append(c)
    # histories on one kernel object (the transform changes in place between evaluations)
    for k in range(24 if quick else 240):
        c = random_case(r, k, 'history', 'kernel-object-history', transforms=('diag', 'block', 'diag', 'none'))
        c['nx'], c['nz'] = min(c['nx'], 25), min(c['nz'], 25)
        cases.append(c)
    for k in range(n_neg):       # at least two blocks, moderate distances: a mixing transform must be visible
        c = random_case(r, k, 'kernel', 'negative-control-mixing-transform', transforms=('mix',))
        c['levels'] = (c['levels'] + [3])[:max(2, len(c['levels']))]
        c.update(L=max(c['L'], 3.0), tscale=0.3, scale=0.5, rank_deficient=False)
        cases.append(c)
    return cases


def check(run):
    quick = run.tier == 'quick'
    bounds = '<= 2 groups of <= 3 levels' if quick else '<= 3 groups of <= 4 levels'
    run.rule = ('float64 on CPU: real fast path (set_categorical_indices with identity code vectors) vs real dense path (same '
                'class, no categorical indices, same one-hot expanded rows) vs the Lean model; 0..4 numerical columns, 1..4 '
                'groups of 2..6 levels, contiguous / categorical-first / interleaved / shuffled column layouts (unsorted index '
                'groups), L2 / product / Lpq round-robin, q in {0.5,0.7,1,1.3,1.7,2}, p in [q,2] incl. p=q, p=1, p=2, bandwidth '
                '0.3..10, transforms None / diagonal (with zero weights) / block-diagonal symmetric PSD (also rank deficient) and general non-symmetric blocks, '
                '1..40 rows (cdist exact mode and mm-expansion mode), duplicate rows and grid-valued numerical columns; AGOP '
                'with 1..3 outputs; RFM(fast_categorical=True/False).kernel; a case is non-trivial when its kernel matrix is '
                'not flat (AGOP: the dense AGOP has mass outside the blocks). Every comparison uses a computed per-entry '
                'allowance (interval image of the kernel profile over the forward error of the distances).')
    run.assumptions = ['rows are one-hot on every declared group and code vectors are identity matrices (the property\'s proviso)',
                       'the feature transform does not mix blocks (None, diagonal, block-diagonal); a mixing transform is run only '
                       'as a negative control where the paths are expected to differ',
                       'index groups and numerical indices partition the columns',
                       'constant bandwidth (the adaptive-bandwidth hook is not triggered); center_grads False and True (single batch)',
                       'exact real arithmetic in the theorems; float64 rounding absorbed by the allowance']
    run.trusted.append('torch.cdist / matmul / autograd (numerics of both real paths)')
    run.lean()
    cases = gen_cases(run)
    run.extra['exhaustive'] = True
    run.extra['exhaustive_part'] = (f'family exhaustive-onehot-rows: ALL one-hot rows (x = z = every level combination) for every '
                                    f'layout with {bounds}, 0-1 numerical columns, each of L2/product/Lpq x None/diag/block-diagonal')
    if run.driver_ok:
        results = core.pmap(MOD, [{'cases': c} for c in core.chunks(cases, 64)])
        run.absorb('c15', results)
        neg = run.dist.get('negative_control', {})
        run.extra['negative_control'] = {'what': 'full symmetric PSD transform over ALL columns (mixes groups): outside the '
                                         'proviso, fast and dense paths are expected to differ; both still match the model',
                                         'outcome': neg}
        prod = run.dist.get('product_fast_path', {})
        run.extra['product_fast_path_runs'] = prod
        if not prod.get('ran') and not prod.get('raised'):
            run.internal.append({'internal_error': 'product kernel fast path was not exercised', 'trace': ''})


def replay(run, payload):
    run.lean()
    results = core.pmap(MOD, [{'cases': [payload['params']]}], workers=1)
    run.absorb('replay', results)
