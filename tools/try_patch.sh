#!/bin/bash
# usage: tools_try.sh <patch.diff> <prop> [tier]   -- apply a seeded change to /repo, run one check, undo
set -u
P=$1; PROP=$2; TIER=${3:-quick}
git -C /repo apply "$P" || { echo "patch does not apply"; exit 3; }
( cd /verif && ./check "$PROP" --tier "$TIER" ); RC=$?
git -C /repo checkout -- .
echo "exit=$RC"
exit $RC
