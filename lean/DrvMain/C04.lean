import Xrfmv.Drv.C04

def main : IO Unit := Xrfmv.Drv.runDriver Xrfmv.Drv.C04.ops
