import Xrfmv.Props.C20
#print axioms Xrfmv.Props.C20.coerce_canonical_features
#print axioms Xrfmv.Props.C20.coerce_canonical_targets
#print axioms Xrfmv.Props.C20.outputs_documented
#print axioms Xrfmv.Props.C20.coerce_canonical
#print axioms Xrfmv.Props.C20.outside_interface
#print axioms Xrfmv.Props.C20.coerce_canonical_float_class
