"""
Translator recipes: Gen.FwdOps <- the `forward_func` closures of `ProductLaplaceKernel`, `LpqLaplaceKernel` and
`SumPowerLaplaceKernel._get_function_grad_impl` (xrfm/rfm_src/kernels.py) - the functions that `torch.autograd` differentiates.
Every assignment of the closure becomes a binding of an entry-wise tensor expression (`Xrfmv.FwdProg.TE`), scalars are translated
as expressions over the kernel's attributes; the reduction over the feature axis of the sum-power kernel splits the bindings in two
stages; the returned `coefs @ (...).sum(over the query points)` is recorded.  `Props/C04.lean` proves that the regenerated closure
evaluates the closed-form kernel away from its masks and a constant on a masked pair / coordinate.
"""
import ast

import py2lean
from py2lean import U, Unsupported, strip_doc
from gen_kernelops import Scalar, TX, TZ

K_PY = 'xrfm/rfm_src/kernels.py'

HEADER = '''open Xrfmv Xrfmv.KernelOps Xrfmv.FwdProg
variable {α : Type} [Add α] [Sub α] [Mul α] [Div α] [Neg α] [OfNat α 0] [OfNat α 1] [OfNat α 2] [BEq α] [HasRpow α]'''


class Fwd:
    def __init__(self, cls, param):
        self.cls, self.param = cls, param
        self.tensors = set()
        self.scalars = {}
        self.init = self.base = None
        self.coord, self.lets = [], []
        self.reduced = None
        self.stage = 'pair'
        self.result = None
        self.summed_over_queries = False

    def sc(self, node):
        env = {'self.eps': 'P.eps', 'x.shape[-1]': 'P.dim', 'x.shape[1]': 'P.dim'}
        env.update(self.scalars)
        if any(isinstance(m, ast.Name) and m.id in self.tensors for m in ast.walk(node)):
            raise Unsupported('tensor inside a scalar')
        return Scalar(env).expr(node)

    def te(self, n):
        try:
            return f'(.sc {self.sc(n)})'
        except Unsupported:
            pass
        if isinstance(n, ast.Name) and n.id in self.tensors:
            return f'(.var "{n.id}")'
        if isinstance(n, ast.BinOp):
            if isinstance(n.op, ast.Pow):
                return f'(.powS {self.te(n.left)} {self.sc(n.right)})'
            op = {ast.Add: 'add', ast.Sub: 'sub', ast.Mult: 'mul', ast.Div: 'div'}.get(type(n.op))
            if op:
                return f'(.{op} {self.te(n.left)} {self.te(n.right)})'
        if isinstance(n, ast.Compare) and len(n.ops) == 1 and isinstance(n.ops[0], ast.GtE):
            return f'(.ge {self.te(n.left)} {self.sc(n.comparators[0])})'
        if isinstance(n, ast.Call):
            fn = U(n.func)
            if fn in ('torch.exp', 'torch.abs') and len(n.args) == 1 and not n.keywords:
                return f'(.{fn[6:]} {self.te(n.args[0])})'
            if fn == 'torch.where' and len(n.args) == 3 and U(n.args[2]).startswith('torch.zeros_like('):
                return f'(.whereZero {self.te(n.args[0])} {self.te(n.args[1])})'
            if isinstance(n.func, ast.Attribute):
                recv, meth = n.func.value, n.func.attr
                if meth == 'pow' and len(n.args) == 1 and not n.keywords:
                    return f'(.powS {self.te(recv)} {self.sc(n.args[0])})'
                if meth == 'clamp_min' and len(n.args) == 1 and not n.keywords:
                    return f'(.clampMin {self.te(recv)} {self.sc(n.args[0])})'
                if meth == 'sum' and not n.args and [(k.arg, U(k.value)) for k in n.keywords] == [('dim', '-1')] \
                        and isinstance(recv, ast.Name) and recv.id in self.tensors and self.stage == 'coord':
                    # reduction over the feature axis: from here on the bindings live on (center, query) pairs
                    self.reduced, self.stage = recv.id, 'pair'
                    self.tensors.add('Σ')
                    return '(.var "Σ")'
        raise Unsupported(f'{self.cls}.forward_func: expression `{U(n)[:80]}`')

    def bind(self, name, term):
        (self.coord if self.stage == 'coord' else self.lets).append(f'("{name}", {term})')
        self.tensors.add(name)

    def stmt(self, s):
        txt = U(s)
        if isinstance(s, ast.Return):
            v = s.value
            if not (isinstance(v, ast.BinOp) and isinstance(v.op, ast.MatMult) and U(v.left) == 'coefs'):
                raise Unsupported(f'{self.cls}.forward_func: returns `{txt[:80]}`')
            r = v.right
            if isinstance(r, ast.Call) and isinstance(r.func, ast.Attribute) and r.func.attr == 'sum' \
                    and [(k.arg, U(k.value)) for k in r.keywords] == [('dim', '1')] and not self.summed_over_queries:
                inner = r.func.value
                if isinstance(inner, ast.Name) and inner.id in self.tensors:
                    self.result = inner.id
                else:
                    self.bind('result', self.te(inner))
                    self.result = 'result'
                self.summed_over_queries = True
            elif isinstance(r, ast.Name) and r.id in self.tensors and self.summed_over_queries:
                self.result = r.id
            else:
                raise Unsupported(f'{self.cls}.forward_func: returns `{txt[:80]}`')
            return
        if not (isinstance(s, ast.Assign) and len(s.targets) == 1 and isinstance(s.targets[0], ast.Name)):
            raise Unsupported(f'{self.cls}.forward_func: statement `{txt[:80]}`')
        tgt, v = s.targets[0].id, s.value
        if self.base is None:
            if isinstance(v, ast.Call) and U(v.func) == 'torch.cdist' and [U(a) for a in v.args] == ['xm', self.param] \
                    and all(k.arg == 'p' for k in v.keywords):
                p = [k.value for k in v.keywords]
                self.init = '.cdist ' + (Scalar({}).expr(p[0]) if p else '(2 : α)')
                self.base = tgt
                self.tensors.add(tgt)
                return
            if U(v) == f'torch.abs(xm[:, None, :] - {self.param}[None, :, :])':
                self.init, self.base, self.stage = '.coordDiff', 'Δ', 'coord'
                self.tensors.add('Δ')
                self.bind(tgt, '(.abs (.var "Δ"))')
                return
            raise Unsupported(f'{self.cls}.forward_func: `{txt[:80]}` before the base tensor exists')
        # the sum over the query points of the pair-level tensor (`sum = sum.sum(dim=-1)` after the feature axis is gone)
        if isinstance(v, ast.Call) and isinstance(v.func, ast.Attribute) and v.func.attr == 'sum' and self.stage == 'pair' \
                and self.reduced is not None and isinstance(v.func.value, ast.Name) and v.func.value.id == tgt \
                and [(k.arg, U(k.value)) for k in v.keywords] == [('dim', '-1')] and not self.summed_over_queries:
            self.summed_over_queries = True
            return
        try:
            self.scalars[tgt] = self.sc(v)
            return
        except Unsupported:
            pass
        if self.summed_over_queries:
            raise Unsupported(f'{self.cls}.forward_func: `{txt[:80]}` after the sum over the query points')
        self.bind(tgt, self.te(v))


def fwd(cls, lean_name):
    def recipe(src):
        f = src.func(K_PY, cls, '_get_function_grad_impl')
        body = strip_doc(f.body)
        names = {}
        inner = None
        diff = None
        for s in body:
            if isinstance(s, ast.FunctionDef):
                inner = s
            elif isinstance(s, ast.Assign) and isinstance(s.targets[0], ast.Name):
                names[s.targets[0].id] = U(s.value)
            elif isinstance(s, ast.Return):
                diff = U(s.value)
            else:
                raise Unsupported(f'{cls}._get_function_grad_impl: `{U(s)[:70]}`')
        if inner is None or names.get('xm') != TX or names.get('zm') != TZ:
            raise Unsupported(f'{cls}._get_function_grad_impl: preamble {names}')
        if diff not in (f'torch.autograd.functional.jacobian({inner.name}, zm)', f'torch.func.jacrev({inner.name})(zm)'):
            raise Unsupported(f'{cls}._get_function_grad_impl: returns `{diff}`')
        if len(inner.args.args) != 1:
            raise Unsupported(f'{cls}.forward_func: parameters')
        w = Fwd(cls, inner.args.args[0].arg)
        for s in strip_doc(inner.body):
            w.stmt(s)
        if w.result is None or w.base is None:
            raise Unsupported(f'{cls}.forward_func: nothing returned')
        red = 'none' if w.reduced is None else f'some "{w.reduced}"'
        return (f'/-- `forward_func` of `{cls}._get_function_grad_impl`, binding by binding; differentiated at `zm` by '
                f'`{diff.split("(")[0]}`. -/\n'
                f'def {lean_name} (P : Params α) : Prog α :=\n'
                f'  {{ init := {w.init}\n    base := "{w.base}"\n'
                f'    coordLets := [{", ".join(w.coord)}]\n    reduced := {red}\n'
                f'    lets := [{", ".join(w.lets)}]\n    result := "{w.result}"\n'
                f'    coefsTimesSumOverQueries := {"true" if w.summed_over_queries else "false"} }}')
    return recipe


py2lean.register('FwdOps', K_PY, ['Xrfmv.Model.FwdProg'], [
    ('header', py2lean.const(HEADER)),
    ('product', fwd('ProductLaplaceKernel', 'product')),
    ('lpq', fwd('LpqLaplaceKernel', 'lpq')),
    ('sumPower', fwd('SumPowerLaplaceKernel', 'sumPower')),
])
