/- Driver ops for C18 (none yet). -/
import Xrfmv.Drv.Common

namespace Xrfmv.Drv.C18

def ops : List (String × Handler) := []

end Xrfmv.Drv.C18
