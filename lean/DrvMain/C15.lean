import Xrfmv.Drv.C15

def main : IO Unit := Xrfmv.Drv.runDriver Xrfmv.Drv.C15.ops
