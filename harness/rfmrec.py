"""
Outside-the-repo recorder for `RFM.fit`: scripted validation scores, per-iterate snapshots of the
four pieces of state, and tag identification of what `fit` returned.  No repo hook is needed: the
methods are wrapped on the instance only.
"""
import torch


def is_identity(t):
    """a materialised identity feature matrix: ones (diagonal mode) or eye (full mode)"""
    if t.dim() == 1:
        return bool((t == 1).all())
    return t.dim() == 2 and t.shape[0] == t.shape[1] and torch.equal(t, torch.eye(t.shape[0], dtype=t.dtype))


def teq(a, b):
    """Same feature matrix / weights, bit for bit.  `None` denotes the identity (`_transform_m` applies nothing), and
    `update_M` materialises it as ones / eye when an AGOP is computed from the first iterate (`get_agop_best_model`), so
    `None` and a materialised identity are the same matrix."""
    if a is None or b is None:
        other = b if a is None else a
        return other is None or is_identity(other)
    return a.shape == b.shape and torch.equal(a, b)


class ScriptedFit:
    """Run the real `RFM.fit` with validation scores taken from `scores` (one per evaluation)."""

    def __init__(self, model, scores=None):
        self.model = model
        self.scores = scores
        self.iterates = []   # state right after each solve: (weights, M, sqrtM, bandwidth)
        self.n_evals = 0
        self.real_scores = []
        m = model
        orig_fp = m.fit_predictor
        orig_cv = m._compute_validation_metrics
        rec = self

        def fit_predictor(*a, **k):
            out = orig_fp(*a, **k)
            rec.iterates.append((
                m.weights.clone(),
                None if m.M is None else m.M.clone(),
                None if m.sqrtM is None else m.sqrtM.clone(),
                float(m.kernel_obj.bandwidth),
            ))
            return out

        def compute_validation_metrics(*a, **k):
            idx = rec.n_evals
            rec.n_evals += 1
            if rec.scores is None:
                out = orig_cv(*a, **k)
                rec.real_scores.append(float(out[m.tuning_metric]))
                return out
            return {m.tuning_metric: rec.scores[idx]}

        m.fit_predictor = fit_predictor
        m._compute_validation_metrics = compute_validation_metrics

    def tags(self):
        """Sets of iterate indices whose recorded state equals the final attribute, bit for bit."""
        m = self.model
        w = [k for k, it in enumerate(self.iterates) if teq(it[0], m.weights)]
        M = [k for k, it in enumerate(self.iterates) if teq(it[1], m.M)]
        sq = [k for k, it in enumerate(self.iterates) if teq(it[2], m.sqrtM)]
        bw = [k for k, it in enumerate(self.iterates) if it[3] == float(m.kernel_obj.bandwidth)]
        return {'w': w, 'm': M, 'sq': sq, 'bw': bw}
