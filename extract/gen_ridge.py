"""
Translator recipe: Gen.Ridge <- RFM.fit_predictor_lstsq (xrfm/rfm_src/recursive_feature_machine.py): which matrix the closed-form
solvers factorise and which right-hand side they get.  The walker follows the function body: the Gram matrix of the centers with
themselves, the in-place addition of `self.reg` to its diagonal (and its guard), then one branch per solver name; for every branch
the matrix handed to the factorisation, whether the factor that is solved with is the one just computed, the right-hand side, and
any further in-place change of the diagonal inside the branch.  The `except` fallback (a retry with a large extra diagonal after a
failed factorisation) is recorded, not modelled.  `Props/C02.lean` proves over this plan that every solver branch returns a solution
of `(K + reg·I) α = Y` and hence, by uniqueness, the same `α`.
"""
import ast

import py2lean
from py2lean import U, Unsupported, strip_doc

RFM_PY = 'xrfm/rfm_src/recursive_feature_machine.py'

DECL = '''/-- One `self.solver == name` branch of `fit_predictor_lstsq`. -/
structure Branch where
  name : String
  factorisesTheSystemMatrix : Bool   -- the matrix handed to solve / cholesky / lu_factor is the (regularised) Gram matrix
  solvesWithItsOwnFactor : Bool      -- cholesky_solve / lu_solve receive the factor computed in this branch (trivially true for `solve`)
  rhsIsTargets : Bool
  extraDiagonalChange : Bool         -- a further `.diagonal().add_(…)` inside the branch
  deriving DecidableEq, Repr

structure Plan where
  gramOfCentersWithThemselves : Bool   -- `K = self.kernel(centers, centers)`
  regAddedToDiagonal : Bool            -- `K.diagonal().add_(self.reg)` before the solvers
  regGuardIsPositive : Bool            -- under `if self.reg > 0` (a no-op for reg = 0)
  branches : List Branch
  fallbackAddsExtraDiagonal : Bool     -- the `except` retry (not the ridge system; outside the property)
  deriving DecidableEq, Repr'''


def ridge_plan(src):
    f = src.func(RFM_PY, 'RFM', 'fit_predictor_lstsq')
    body = strip_doc(f.body)
    gram = None
    reg_added = guard_pos = False
    branches, fallback = [], False
    seen_try = False
    for s in body:
        txt = U(s)
        if isinstance(s, ast.Assert) or (isinstance(s, ast.If) and 'centers.device != self.device' in U(s.test)):
            continue
        if isinstance(s, ast.Assign) and isinstance(s.value, ast.Call) and U(s.value.func) == 'self.kernel':
            if [U(a) for a in s.value.args] != ['centers', 'centers'] or s.value.keywords:
                raise Unsupported(f'fit_predictor_lstsq: Gram matrix is `{txt}`')
            gram = U(s.targets[0])
            continue
        if isinstance(s, ast.If) and gram and not seen_try and not s.orelse and len(s.body) == 1 \
                and U(s.body[0]) == f'{gram}.diagonal().add_(self.reg)':
            reg_added = True
            guard_pos = U(s.test) == 'self.reg > 0'
            if not guard_pos:
                raise Unsupported(f'fit_predictor_lstsq: regularisation guard `{U(s.test)}`')
            continue
        if isinstance(s, ast.Expr) and gram and not seen_try and U(s) == f'{gram}.diagonal().add_(self.reg)':
            reg_added, guard_pos = True, True     # unguarded: adds reg for every reg >= 0
            continue
        if isinstance(s, ast.Try) and gram:
            seen_try = True
            if len(s.body) != 1 or not isinstance(s.body[0], ast.If):
                raise Unsupported('fit_predictor_lstsq: try body is not one if-chain')
            node = s.body[0]
            while True:
                t = node.test
                if not (isinstance(t, ast.Compare) and U(t.left) == 'self.solver' and len(t.ops) == 1 and isinstance(t.ops[0], ast.Eq)
                        and isinstance(t.comparators[0], ast.Constant)):
                    raise Unsupported(f'fit_predictor_lstsq: branch test `{U(t)}`')
                branches.append(_branch(t.comparators[0].value, node.body, gram))
                if len(node.orelse) == 1 and isinstance(node.orelse[0], ast.If):
                    node = node.orelse[0]
                elif not node.orelse:
                    break
                else:
                    raise Unsupported('fit_predictor_lstsq: else branch of the solver chain')
            for h in s.handlers:
                fallback = fallback or any('.diagonal().add_(' in U(x) for x in ast.walk(h) if isinstance(x, ast.Expr))
            continue
        if isinstance(s, ast.Return) and U(s) == 'return out':
            continue
        raise Unsupported(f'fit_predictor_lstsq: statement `{txt[:80]}`')
    if gram is None or not branches:
        raise Unsupported('fit_predictor_lstsq: no Gram matrix / no solver branch')
    b = lambda v: 'true' if v else 'false'  # noqa: E731
    rows = ',\n'.join(f'    {{ name := "{n}", factorisesTheSystemMatrix := {b(m)}, solvesWithItsOwnFactor := {b(o)}, rhsIsTargets := {b(r)}, '
                      f'extraDiagonalChange := {b(x)} }}' for n, m, o, r, x in branches)
    return ('/-- `RFM.fit_predictor_lstsq`, as written. -/\n'
            'def plan : Plan :=\n'
            f'  {{ gramOfCentersWithThemselves := true\n    regAddedToDiagonal := {b(reg_added)}\n    regGuardIsPositive := {b(guard_pos)}\n'
            f'    branches := [\n{rows}]\n    fallbackAddsExtraDiagonal := {b(fallback)} }}')


def _branch(name, stmts, gram):
    mat_ok = own = rhs = True
    extra = False
    factor = None
    solved = False
    for s in stmts:
        txt = U(s)
        if isinstance(s, ast.Expr) and '.diagonal().add_(' in txt:
            extra = True
            continue
        if not isinstance(s, ast.Assign) or not isinstance(s.value, ast.Call):
            raise Unsupported(f'fit_predictor_lstsq[{name}]: `{txt[:80]}`')
        fn, args = U(s.value.func), [U(a) for a in s.value.args]
        if fn == 'torch.linalg.solve':
            mat_ok, rhs, solved = mat_ok and args[:1] == [gram], rhs and args[1:] == ['targets'], True
        elif fn == 'torch.linalg.cholesky':
            mat_ok = mat_ok and args[:1] == [gram] and all(k.arg == 'out' and U(k.value) == gram for k in s.value.keywords)
            factor = [U(s.targets[0])]
        elif fn == 'torch.cholesky_solve':
            rhs, own, solved = rhs and args[:1] == ['targets'], own and args[1:] == (factor or ['?']), True
        elif fn == 'torch.linalg.lu_factor':
            mat_ok = mat_ok and args == [gram] and not s.value.keywords
            factor = [U(e) for e in s.targets[0].elts] if isinstance(s.targets[0], ast.Tuple) else ['?']
        elif fn == 'torch.linalg.lu_solve':
            own, rhs, solved = own and args[:2] == (factor or ['?', '?']), rhs and args[2:] == ['targets'], True
            if s.value.keywords:
                raise Unsupported(f'fit_predictor_lstsq[{name}]: lu_solve keywords')
        else:
            raise Unsupported(f'fit_predictor_lstsq[{name}]: call `{fn}`')
        if solved and U(s.targets[0]) != 'out':
            raise Unsupported(f'fit_predictor_lstsq[{name}]: solution bound to `{U(s.targets[0])}`')
    if not solved:
        raise Unsupported(f'fit_predictor_lstsq[{name}]: no solve call')
    return name, mat_ok, own, rhs, extra


py2lean.register('Ridge', RFM_PY, [], [
    ('decl', py2lean.const(DECL)),
    ('plan', ridge_plan),
])
