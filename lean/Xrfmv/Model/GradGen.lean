/-
Function gradients of the two closed-form kernels (L2 and memory-light) computed through the **regenerated** weight programs
of `Xrfmv.Gen.GradOps` (translated on every run from `LaplaceKernel._get_function_grad_impl` and
`LightLaplaceKernel.get_function_grads`).  `Props/C04.lean` proves that they are the closed-form gradients of
`Model/Grad.lean` (`gen_grad_l2_eq`, `gen_grad_light_eq`); `Drv/C04.lean` runs them at `Float`.
-/
import Xrfmv.Model.Grad
import Xrfmv.Gen.GradOps

namespace Xrfmv.GradGen
open Xrfmv Xrfmv.Grad Xrfmv.TensorProg

section
variable {α : Type} [Add α] [Sub α] [Mul α] [Div α] [Neg α] [OfNat α 0] [OfNat α 1] [OfNat α 2]
  [Max α] [LT α] [DecidableLT α] [BEq α] [HasExp α] [HasRpow α] [HasAbs α] [HasSqrt α]

/-- attributes of the kernel object read by the weight programs -/
def toOps (P : Grad.Params α) : KernelOps.Params α :=
  { bandwidth := P.L, exponent := P.q, p := P.p, constMix := P.cmix, power := P.power, dim := 0, eps := P.eps,
    baseBandwidth := 0 }

/-- `∇_v k(u, v)` of the L2 kernel through the regenerated program: `W · (v − u)` with `W` computed from
`torch.cdist(xm, zm)` (the Euclidean distance of the transformed points). -/
def gradL2 (P : Grad.Params α) (u v : List α) : List α :=
  let W := weight (Gen.GradOps.laplaceGrad (toOps P)) (sqrt (sqDist u v))
  (vsub v u).map fun t => W * t

/-- `∇_z k(x, z)` of the memory-light kernel through the regenerated program: `W · ((z − x)M)` with `W` computed from the
quadratic form `(z−x) M (z−x)ᵀ`. -/
def gradLight (P : Grad.Params α) (M : Grad.Transform α) (x z : List α) : List α :=
  let Δ := vsub z x
  let W := weight (Gen.GradOps.lightGrad (toOps P)) (dot Δ (applyT M Δ))
  (applyT M Δ).map fun t => W * t

/-- `get_function_grads(x, z, coefs, mat)` of the two closed-form kernels through the regenerated programs. -/
def fgrad (light : Bool) (P : Grad.Params α) (T : Grad.Transform α) (xs zs : List (List α)) (coefs : List (List α)) :
    List (List (List α)) :=
  if light then coefs.map fun c => zs.map fun z => rowGrad (gradLight P T) c xs z
  else
    let us := xs.map (applyT T)
    coefs.map fun c => zs.map fun z => applyT T (rowGrad (gradL2 P) c us (applyT T z))

end
end Xrfmv.GradGen
