#!/bin/bash
# usage: tools/harmless_check.sh   -- every behaviour-preserving rewrite under harmless/ must leave its check at exit 0
# (file name: <name>_<Cnn>.diff; extra properties to run can be appended after the name: tools/harmless_check.sh C02)
HERE=$(cd "$(dirname "$0")/.." && pwd); EXTRA="$@"; FAIL=0
for f in "$HERE"/harmless/*.diff; do
  b=$(basename "$f" .diff); P=${b##*_}
  for Q in $P $EXTRA; do
    out=$("$HERE/tools/try_patch.sh" "$f" "$Q" 2>&1 | grep -a "VIOLATION\|exit=" | tr '\n' ' ')
    echo "$b $Q: $out"
    case "$out" in *"exit=0"*) ;; *) FAIL=1;; esac
  done
done
exit $FAIL
