/- Driver ops for C10: the temperature-tuning fold on Float scores and temperatures. -/
import Xrfmv.Drv.Common
import Xrfmv.Model.Tune

open Lean Xrfmv.Drv

namespace Xrfmv.Drv.C10
open Xrfmv.Tune Xrfmv.Gen.Temp

/-- `{"op":"tune","maximizing":b,"current":null|bits,"cands":[bits],"scores":[bits]}`; `scores[i]` is the score of
candidate `i` (the harness guarantees candidates with the same attribute carry the same score). -/
def opTune : Handler := fun j => do
  let mx ← j.getObjValAs? Bool "maximizing"
  let cands ← getFs j "cands"
  let scores ← getFs j "scores"
  if scores.size ≠ cands.size then throw "bad-op: one score per candidate"
  if scores.any Float.isNaN ∨ cands.any Float.isNaN then throw "bad-op: NaN"
  let current : Option Float := match getF j "current" with
    | .ok x => some x
    | .error _ => none
  -- score as a function of the attribute: look the attribute up among the candidates
  let table : List (Option Float × Float) := (cands.toList.zip scores.toList).map fun (c, sc) => (attrOf c, sc)
  let score : Option Float → Float := fun a =>
    match table.find? (fun e => match e.1, a with
        | none, none => true
        | some x, some y => x == y
        | _, _ => false) with
    | some e => e.2
    | none => 0.0
  let r := tune mx current cands.toList score
  let attrJ : Json := match r.bestAttr with | some t => fJson t | none => Json.null
  pure <| Json.mkObj [("bestAttr", attrJ), ("bestScore", fJson r.bestScore),
    ("results", toJson (r.results.map fun e => [floatToBits e.1, floatToBits e.2]))]

def ops : List (String × Handler) := [("tune", opTune)]

end Xrfmv.Drv.C10
