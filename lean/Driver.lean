/-
Line-protocol driver: one JSON object per input line ({"op": name, ...}), one JSON object per output
line ({"error": msg} on failure). Floats travel as IEEE-754 bit patterns, never as decimal fractions.
Imports only the Mathlib-free models and the regenerated Gen modules; ops live in Xrfmv/Drv/Cnn.lean.
-/
import Xrfmv.Drv.C01
import Xrfmv.Drv.C02
import Xrfmv.Drv.C03
import Xrfmv.Drv.C04
import Xrfmv.Drv.C05
import Xrfmv.Drv.C06
import Xrfmv.Drv.C07
import Xrfmv.Drv.C08
import Xrfmv.Drv.C09
import Xrfmv.Drv.C10
import Xrfmv.Drv.C11
import Xrfmv.Drv.C12
import Xrfmv.Drv.C13
import Xrfmv.Drv.C14
import Xrfmv.Drv.C15
import Xrfmv.Drv.C16
import Xrfmv.Drv.C17
import Xrfmv.Drv.C18
import Xrfmv.Drv.C19
import Xrfmv.Drv.C20

open Lean Xrfmv Xrfmv.Drv

def allOps : List (String × Handler) :=
  C01.ops ++ C02.ops ++ C03.ops ++ C04.ops ++ C05.ops ++ C06.ops ++ C07.ops ++ C08.ops ++ C09.ops ++ C10.ops ++
  C11.ops ++ C12.ops ++ C13.ops ++ C14.ops ++ C15.ops ++ C16.ops ++ C17.ops ++ C18.ops ++ C19.ops ++ C20.ops

def dispatch (j : Json) : Except String Json := do
  let op ← j.getObjValAs? String "op"
  if op == "ping" then return Json.mkObj [("pong", toJson true)]
  match allOps.lookup op with
  | some h => h j
  | none => throw s!"bad-op: unknown op {op}"

partial def loop (h : IO.FS.Stream) (out : IO.FS.Stream) : IO Unit := do
  let line ← h.getLine
  if line.isEmpty then return ()
  let res := match Json.parse line with
    | .ok j => dispatch j
    | .error e => .error s!"bad-json: {e}"
  match res with
  | .ok r => out.putStrLn (Json.compress r)
  | .error e => out.putStrLn (Json.compress (Json.mkObj [("error", toJson e)]))
  out.flush
  loop h out

def main : IO Unit := do loop (← IO.getStdin) (← IO.getStdout)
