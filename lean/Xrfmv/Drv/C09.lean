/- Driver ops for C09 (none yet). -/
import Xrfmv.Drv.Common

namespace Xrfmv.Drv.C09

def ops : List (String × Handler) := []

end Xrfmv.Drv.C09
