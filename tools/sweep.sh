#!/bin/bash
# usage: tools/sweep.sh "<seeds>" "<props>" [tier]   -- run checks for several seeds on the clean tree, log exit codes
SEEDS=${1:-"0 1 2"}; HERE=$(cd "$(dirname "$0")/.." && pwd); PROPS=${2:-$(python3 -c "import json;print(' '.join(c['property_id'] for c in json.load(open('$HERE/MANIFEST.json'))['checks']))")}; TIER=${3:-quick}
cd "$HERE"
for s in $SEEDS; do for p in $PROPS; do
  t0=$(date +%s); VERIF_SEED=$s ./check $p --tier $TIER > /tmp/sweep_out_$$.txt 2>&1; rc=$?
  echo "seed=$s $p rc=$rc $(( $(date +%s) - t0 ))s $(grep -E 'VIOLATION|INTERNAL|TIMEOUT' /tmp/sweep_out_$$.txt | head -2 | tr '\n' ' ')"
done; done
