"""
C04 — function gradients are the true gradients of the kernel predictor.

Proof: lean/Xrfmv/Props/C04.lean (closed-form gradients of Model/Grad.lean are the derivatives, at R).
Correspondence (float64): the real `Kernel.get_function_grads`, `RFM.get_grads`, `xRFM.get_grads` versus the
same closed forms executed on Float by the Lean driver (`fgrad`).
Property oracle (independent of the model): Richardson-extrapolated central finite differences of the real
kernel matrix / the real `predict`; at points coinciding with a center the finite differences are taken of the
function with that center's term removed.
"""
import math

from harness import core

MOD = 'harness.props.c04'
KINDS = ['l2', 'light', 'prod', 'lpq', 'sumpower']
QS = [0.5, 0.7, 1.0, 1.3, 1.7, 2.0]
EPS64 = 2.220446049250313e-16
EPS32 = 1.1920928955078125e-07
KERNEL_EPS = 1e-10


# ------------------------------------------------------------------------------------------------
# building blocks
# ------------------------------------------------------------------------------------------------
def make_kernel(k):
    from xrfm.rfm_src import kernels as K
    kind = k['kind']
    if kind == 'l2':
        return K.LaplaceKernel(bandwidth=k['L'], exponent=k['q'])
    if kind == 'light':
        return K.LightLaplaceKernel(bandwidth=k['L'], exponent=k['q'])
    if kind == 'prod':
        return K.ProductLaplaceKernel(bandwidth=k['L'], exponent=k['q'])
    if kind == 'lpq':
        return K.LpqLaplaceKernel(bandwidth=k['L'], p=k['p'], q=k['q'])
    if kind == 'sumpower':
        return K.SumPowerLaplaceKernel(bandwidth=k['L'], exponent=k['q'], const_mix=k['cmix'], power=k['power'])
    raise ValueError(kind)


def kind_of(kernel_obj):
    from xrfm.rfm_src import kernels as K
    for cls, name in ((K.LightLaplaceKernel, 'light'), (K.LaplaceKernel, 'l2'), (K.ProductLaplaceKernel, 'prod'),
                      (K.LpqLaplaceKernel, 'lpq'), (K.SumPowerLaplaceKernel, 'sumpower')):
        if type(kernel_obj) is cls:
            return name
    raise ValueError(type(kernel_obj))


def kernel_desc(kernel_obj):
    kind = kind_of(kernel_obj)
    return {'kind': kind, 'L': float(kernel_obj.bandwidth), 'q': float(kernel_obj.exponent),
            'p': float(getattr(kernel_obj, 'p', kernel_obj.exponent)), 'cmix': float(getattr(kernel_obj, 'const_mix', 0.0)),
            'power': float(getattr(kernel_obj, 'power', 1.0)), 'eps': float(kernel_obj.eps)}


def driver_query(k, T, x, z, coefs, op='fgrad'):
    """JSON request for the Lean driver; all tensors float64."""
    q = {'op': op, 'kind': k['kind'], 'L': core.f2b(k['L']), 'q': core.f2b(k['q']), 'eps': core.f2b(k.get('eps', KERNEL_EPS)),
         'x': core.fl(x), 'z': core.fl(z), 'coefs': core.fl(coefs)}
    if k['kind'] == 'lpq':
        q['p'] = core.f2b(k['p'])
    if k['kind'] == 'sumpower':
        q['cmix'] = core.f2b(k['cmix'])
        q['power'] = core.f2b(k['power'])
    if T is None:
        q['mat'] = 'none'
    elif T.dim() == 1:
        q['mat'] = 'diag'
        q['matD'] = core.fl(T)
    else:
        q['mat'] = 'full'
        q['matF'] = core.fl(T)
    return q


def transform(a, T):
    if T is None:
        return a
    return a * T[None, :] if T.dim() == 1 else a @ T


def tnorm(T, d):
    """infinity-norm of the map g -> g @ T (row sums of |T| transposed = column abs sums)."""
    if T is None:
        return 1.0
    if T.dim() == 1:
        return float(T.abs().max())
    return float(T.abs().sum(dim=0).max())


def impl_l2_factor(kobj, kind, x, z, T):
    """|M_ij| exactly as the implementation forms it (same torch ops => same computed distances), and the
    points it multiplies: used for the cancellation term of the allowance (the code computes
    Σ c M z_j − Σ c M x_i as two separate sums, so an unmasked near-zero distance leaks eps·|c||M|(|z|+|x|))."""
    import torch
    xm, zm = transform(x, T), transform(z, T)
    if kind == 'light':
        d2 = (xm * x).sum(-1)[:, None] - 2 * xm @ z.T + (zm * z).sum(-1)[None, :]
        dist = d2.clamp(min=0).sqrt()
    else:
        dist = torch.cdist(xm, zm).clamp(min=0)
    q, L, eps = kobj.exponent, kobj.bandwidth, kobj.eps
    k = torch.exp(-dist ** q / L ** q)
    M = (q / L ** q) * k * dist.clamp(min=eps) ** (q - 2) * (dist >= eps)
    return M, dist, xm, zm


def coincident(x, z):
    """bool (n_x, n_z): center i equals point j in every coordinate."""
    return (x[:, None, :] == z[None, :, :]).all(dim=-1)


def fd_kernel(kmat, x, z, h):
    """Richardson central differences of the real kernel matrix, per center.
    kmat(x, Z) -> (n_x, n_Z).  Returns gK[i, j, a] ≈ ∂/∂z_{j,a} k(x_i, z_j)."""
    import torch
    nz, d = z.shape
    E = torch.eye(d, dtype=z.dtype)
    pts = []
    for s in (h, -h, h / 2, -h / 2):
        pts.append((z[:, None, :] + s * E[None, :, :]).reshape(nz * d, d))
    Z = torch.cat(pts, dim=0)
    # chunks of <= 20 rows keep torch.cdist in its exact (non-expansion) mode when n_x <= 25
    cols = [kmat(x, Z[s:s + 20]) for s in range(0, Z.shape[0], 20)]
    Kp = torch.cat(cols, dim=1)
    n = nz * d
    D1 = (Kp[:, :n] - Kp[:, n:2 * n]) / (2 * h)
    D2 = (Kp[:, 2 * n:3 * n] - Kp[:, 3 * n:]) / h
    kmax = Kp.abs().reshape(x.shape[0], 4, nz, d).amax(dim=(1, 3))       # (n_x, n_z): |k| over the stencil
    return ((4 * D2 - D1) / 3).reshape(x.shape[0], nz, d), kmax


def kink_clear(kind, k, x, z, T, h, ignore_exact=False):
    """bool (n_x, n_z): the finite-difference stencil around z_j (raw step h per coordinate) stays well away (200 steps)
    from the non-smooth set of center i's kernel term: the hyperplanes Δ_d = 0 (transformed coordinates) for the
    coordinate-wise kernels, the center itself for the radial ones.  With `ignore_exact` an exactly vanishing
    difference counts as clear (central differences of an even function are exact there)."""
    import torch
    d = x.shape[1]
    u, v = transform(x, T), transform(z, T)
    diff = (v[None, :, :] - u[:, None, :]).abs()      # (n_x, n_z, d) in transformed coordinates
    if kind == 'light':
        dl = z[None, :, :] - x[:, None, :]
        dist = (dl * transform(dl.reshape(-1, d), T).reshape(dl.shape)).sum(-1).clamp(min=0).sqrt()
        mdiag = 1.0 if T is None else float((T if T.dim() == 1 else T.diagonal()).abs().max())
        ok = dist >= 200 * h * math.sqrt(mdiag)
        return ok | (dist == 0) if ignore_exact else ok
    if kind == 'l2':
        dist = diff.pow(2).sum(-1).sqrt()
        rownorm = 1.0 if T is None else float(T.abs().max()) if T.dim() == 1 else float(T.norm(dim=1).max())
        ok = dist >= 200 * h * rownorm
        return ok | (dist == 0) if ignore_exact else ok
    if T is None:
        colmax = torch.ones(d, dtype=x.dtype)
    elif T.dim() == 1:
        colmax = T.abs()
    else:
        colmax = T.abs().max(dim=0).values
    shift = colmax * h                                 # largest move of transformed coordinate d under a raw step h
    ok = diff >= 200 * shift
    if ignore_exact:
        ok = ok | (diff == 0)
    return ok.all(dim=-1)


def exact_coordinate_hit(x, z, T):
    """bool (n_x, n_z): some transformed coordinate of z_j equals that of center i exactly, but not the whole row."""
    u, v = transform(x, T), transform(z, T)
    eq = (v[None, :, :] == u[:, None, :])
    return eq.any(dim=-1) & ~eq.all(dim=-1)


def l2_leak_terms(kobj, kind, x, z, T, coefs_abs, eps_mach):
    """(cancel, expand, leak) each (f, n_z) float64 for the L2-type kernels, zeros otherwise.
    cancel: 16·eps·Σ_i|c_li||M_ij|(|zm_j|+|xm_i|)·|T|  — the code forms Σ c M z_j − Σ c M x_i as two sums
    expand: error of the computed distance (expansion forms) amplified through d^{q-2}·exp
    leak:   the part of `cancel` that comes from centers coinciding with z_j (unmasked self term)."""
    import torch
    f, nz = coefs_abs.shape[0], z.shape[0]
    zero = torch.zeros(f, nz, dtype=torch.float64)
    # Lpq with p = 2 goes through the same torch.cdist(p=2) (expansion mode above 25 rows, whose backward also forms
    # x·Σ(g/d) − Σ(g/d)·z as two sums): same factor k·(q/L^q)·D^{q-2}, same cancellation
    # ... and so does the product kernel with exponent 2 (cdist(p=q) with q = 2: the same function exp(-d^2/L^2))
    l2like = kind in ('l2', 'light') or (kind == 'lpq' and float(getattr(kobj, 'p', 0.0)) == 2.0) or \
        (kind == 'prod' and float(kobj.exponent) == 2.0)
    if not l2like:
        return zero, zero, zero
    d = x.shape[1]
    tn = tnorm(T, d) if kind != 'light' else 1.0
    M, dist, xm, zm = [t.double() for t in impl_l2_factor(kobj, kind, x, z, T)]
    ac = coefs_abs.double()
    co = coincident(x, z)
    q, L = float(kobj.exponent), float(kobj.bandwidth)
    # A coinciding center: the expansion forms (‖x‖²−2x·z+‖z‖²; always for the light kernel, above 25 rows for cdist)
    # return a self-distance that is either 0 or about sqrt(ulp(‖x‖²)) ≈ 1e-8·‖x‖ > eps, depending on the rounding of
    # the particular batch shape - then the mask does not fire.  Bound the factor by its value at the smallest
    # non-zero distance the expansion can produce, whatever this particular evaluation returned.
    nx2 = ((xm * (x.double() if kind == 'light' else xm)).sum(-1)).abs()
    d_floor = (eps_mach / 8 * nx2).sqrt().clamp(min=float(kobj.eps))[:, None].expand_as(M)
    M_floor = (q / L ** q) * d_floor ** (q - 2) if q < 2 else torch.zeros_like(M)
    M = torch.where(co, torch.maximum(M, M_floor), M)
    pts = zm.abs().amax(dim=-1)[None, :] + xm.abs().amax(dim=-1)[:, None]
    term = M * pts * tn
    cancel = 16 * eps_mach * (ac @ term)
    u2 = (xm * xm).sum(-1)[:, None] + (zm * zm).sum(-1)[None, :]
    amp = (abs(q - 2) + q * dist ** q / L ** q) * 8 * eps_mach * u2 / dist.clamp(min=1e-300) ** 2
    amp = torch.where(dist >= kobj.eps, amp.clamp(max=1.0), torch.zeros_like(amp))
    dl = (zm[None, :, :] - xm[:, None, :]).abs().amax(dim=-1)
    expand = ac @ (torch.where(co, torch.zeros_like(M), M * dl * amp) * tn)
    leak = 16 * eps_mach * (ac @ torch.where(co, term, torch.zeros_like(term)))
    return cancel, expand, leak


def compare_blocks(kobj, k, T, x, z, coefs, gi, gm, S, eps_mach, rel_floor):
    """Correspondence: implementation gradients `gi` (f, n_z, d) vs model `gm`, under the computed allowance
        rel_floor·(S + max(|gi|,|gm|)) + cancel + expand,
    S[l, j] = Σ_i |c_li|·max_a|∂_a k(x_i, z_j)| measured by finite differences of the real kernel matrix.
    Returns (worst err/allowance, detail or None, relative self-term leak)."""
    import torch
    gi, gm, S = gi.double(), gm.double(), S.double()
    scale = torch.maximum(gi.abs().amax(dim=-1), gm.abs().amax(dim=-1))        # (f, n_z)
    cancel, expand, leak = l2_leak_terms(kobj, k['kind'], x, z, T, coefs.abs(), eps_mach)
    allow = rel_floor * (S + scale) + cancel + expand + 1e-300
    err = (gi - gm).abs().amax(dim=-1)
    bad = err > allow
    ratio = float((err / allow).max()) if err.numel() else 0.0
    den = S + scale
    big = den >= 1e-6 * float(den.max()) if den.numel() else den > 0
    leak_rel = float(torch.where(big & (den > 0), leak / den.clamp(min=1e-300), torch.zeros_like(den)).max()) if leak.numel() else 0.0
    detail = None
    if bool(bad.any()):
        l, j = [int(t[0]) for t in torch.nonzero(bad, as_tuple=True)]
        detail = (f'gradient of output {l} at point {j}: impl {gi[l, j].tolist()} model {gm[l, j].tolist()} '
                  f'|diff| {float(err[l, j]):.3e} allowance {float(allow[l, j]):.3e}')
    return ratio, detail, leak_rel


# ------------------------------------------------------------------------------------------------
# family 1: Kernel.get_function_grads on generated blocks
# ------------------------------------------------------------------------------------------------
def build_block(p):
    import torch
    g = torch.Generator().manual_seed(p['seed'])
    dt = torch.float64
    d, nx, nz, f, s = p['d'], p['nx'], p['nz'], p['f'], p['scale']
    x = s * torch.randn(nx, d, generator=g, dtype=dt)
    c = torch.randn(f, nx, generator=g, dtype=dt) * torch.tensor([1.0, 3.0, 0.3, 10.0], dtype=dt)[:f, None]
    if p['tm'] == 'none':
        T = None
    elif p['tm'] == 'diag':
        T = torch.rand(d, generator=g, dtype=dt) * 0.9 + 0.1
        if p.get('zero_diag'):
            T[int(torch.randint(0, d, (1,), generator=g))] = 0.0
    else:
        A = torch.randn(d, d + 1, generator=g, dtype=dt)
        T = A @ A.T
        T = T / T.abs().max()
        T = (T + T.T) / 2
    k = p['kernel']
    h = 1e-4 * s
    z = None
    for _ in range(60):  # general position: redraw until the FD stencils are clear of every kink
        z = s * torch.randn(nz, d, generator=g, dtype=dt)
        if bool(kink_clear(k['kind'], k, x, z, T, h).all()):
            break
    co_rows, co_coords = [], []
    mode = p['mode']
    if mode in ('row', 'row+dup'):
        i = int(torch.randint(0, nx, (1,), generator=g))
        j = int(torch.randint(0, nz, (1,), generator=g))
        z[j] = x[i]
        co_rows.append((i, j))
        if mode == 'row+dup' and nx >= 2:
            i2 = (i + 1) % nx
            x[i2] = x[i]
            co_rows.append((i2, j))
    if mode == 'self':      # z is a batch of the centers themselves (what fit_M does)
        z = x[:min(nz, nx)].clone()
    if mode == 'coord':
        for _ in range(p.get('ncoord', 1)):
            i = int(torch.randint(0, nx, (1,), generator=g))
            j = int(torch.randint(0, nz, (1,), generator=g))
            a = int(torch.randint(0, d, (1,), generator=g))
            z[j, a] = x[i, a]
            co_coords.append((i, j, a))
    if mode == 'near':
        # a point a tiny, exactly representable step away from a center, in one coordinate: the step is chosen so
        # that the two readings of a coincidence mask (on the distance / on its q-th power) differ there.  Centers
        # are put on a 2^-10 grid so that z - x is exact; no expansion-mode distance is involved (n <= 25, p != 2).
        i = int(torch.randint(0, nx, (1,), generator=g))
        j = int(torch.randint(0, nz, (1,), generator=g))
        a = int(torch.randint(0, d, (1,), generator=g))
        x[i] = torch.round(x[i] * 1024) / 1024
        z[j] = x[i]
        z[j, a] = x[i, a] + (1.0 if p['seed'] % 2 else -1.0) * 2.0 ** (-p['near_exp'])
    return x, z, c, T, h


def fd_check(res, kind_sig, gi, g_fd, S, leak, rows_ok, co_any, nondiff, label, rel=1e-5):
    """Property oracle: returned gradients vs finite differences. gi, g_fd: (f, n_z, d); S, leak: (f, n_z).
    Appends at most one failure per point; returns worst err/tolerance over the checked points."""
    tol = rel * S + leak + 1e-300
    err = (gi - g_fd).abs().amax(dim=-1)
    worst = 0.0
    for j in range(gi.shape[1]):
        if not bool(rows_ok[j]):
            continue
        r = err[:, j] / tol[:, j]
        l = int(r.argmax())
        worst = max(worst, float(r[l]))
        if float(r[l]) > 1.0:
            if bool(co_any[j]):
                sig = f'C04:self-term-not-zero:{kind_sig}'
            elif bool(nondiff[j]):
                sig = f'C04:symmetric-derivative-mismatch:{kind_sig}'
            else:
                sig = f'C04:gradient-not-derivative:{kind_sig}'
            res['failures'].append({'signature': sig, 'detail':
                                    f'{label} output {l}, point {j}: returned {gi[l, j].tolist()} finite differences '
                                    f'{g_fd[l, j].tolist()} |diff| {float(err[l, j]):.3e} tolerance {float(tol[l, j]):.3e}'})
    return worst


def value_rounding(k, x, z, T):
    """(n_x, n_z) float64 tensor: entrywise bound of |K_impl - K_exact| (harness/refkernels.kernel_allowance)."""
    import torch
    from harness import refkernels
    kind = {'l2': 'l2', 'light': 'l2_light', 'prod': 'l1', 'lpq': 'lpq', 'sumpower': 'sum_power'}[k['kind']]
    kw = {}
    if kind == 'lpq':
        kw['p'] = float(k['p'])
    if kind == 'sum_power':
        kw.update(const_mix=float(k.get('cmix', 0.0)), power=k.get('power', 2))
    E = refkernels.kernel_allowance(kind, z.double().numpy(), x.double().numpy(), float(k['L']), float(k['q']),
                                    None if T is None else T.double().numpy(), **kw)
    return torch.from_numpy(E).T.contiguous()


def near_fd_check(res, kobj, k, T, x, z, c, gi, p):
    """Property oracle at a point 2^-30 away from a center (not coinciding, distance >= eps: the true derivative is
    required there).  One-sided-safe central differences with step δ/4 along the coordinate that differs, of the real
    kernel matrix; tolerance = 1e-3·Σ_i|c_li||∂_a k_i| + the rounding of the differenced values 32·eps/h·Σ_i|c_li||k_i|."""
    import torch
    delta = 2.0 ** (-p['near_exp'])
    h = delta / 4
    near = ((z[None, :, :] - x[:, None, :]).abs().amax(dim=-1) == delta)          # (n_x, n_z)
    worst = 0.0
    for j in range(z.shape[0]):
        cols = torch.nonzero(near[:, j]).flatten().tolist()
        if not cols:
            continue
        i = cols[0]
        a = int((z[j] - x[i]).abs().argmax())
        # the implementation's own coincidence rule works in transformed coordinates: with a diagonal transform the
        # step may shrink below eps there, the center then counts as coinciding (its term is masked by design)
        dt = delta * (float(T[a].abs()) if (T is not None and T.dim() == 1) else 1.0)
        if dt < 2 * float(kobj.eps):
            continue
        e = torch.zeros_like(z[j]); e[a] = 1.0
        Z = torch.stack([z[j] + h * e, z[j] - h * e, z[j] + h / 2 * e, z[j] - h / 2 * e])
        Kp = kobj.get_kernel_matrix(x, Z, T)                                       # (n_x, 4)
        gK = (4 * (Kp[:, 2] - Kp[:, 3]) / h - (Kp[:, 0] - Kp[:, 1]) / (2 * h)) / 3
        g_fd = c @ gK
        tol = 1e-3 * (c.abs() @ gK.abs()) + 32 * EPS64 / h * (c.abs() @ Kp.abs().amax(dim=1)) + 1e-300
        err = (gi[:, j, a] - g_fd).abs()
        r = err / tol
        l = int(r.argmax())
        worst = max(worst, float(r[l]))
        if float(r[l]) > 1.0:
            res['failures'].append({'signature': f'C04:gradient-not-derivative:near:{k["kind"]}', 'detail':
                                    f'point {j} is 2^-{p["near_exp"]} from center {i} in coordinate {a} (q={k["q"]}): returned '
                                    f'{float(gi[l, j, a]):.9e}, central differences (step δ/4) {float(g_fd[l]):.9e}, '
                                    f'|diff| {float(err[l]):.3e} tolerance {float(tol[l]):.3e}'})
    return worst


def exec_block(p, drv):
    import torch
    res = {'family': p['family'], 'params': p, 'disagreements': [], 'failures': []}
    k = p['kernel']
    x, z, c, T, h = build_block(p)
    kobj = make_kernel(k)
    try:
        gi = kobj.get_function_grads(x, z, c, T)
    except Exception as e:
        res['failures'].append({'signature': f'C04:raises:{type(e).__name__}', 'detail': str(e)[:300]})
        return res
    f, nz, d = c.shape[0], z.shape[0], x.shape[1]
    if tuple(gi.shape) != (f, nz, d):
        res['failures'].append({'signature': 'C04:wrong-shape', 'detail': f'shape {tuple(gi.shape)} expected {(f, nz, d)}'})
        return res
    finite = bool(torch.isfinite(gi).all())
    if not finite:
        res['failures'].append({'signature': f'C04:nonfinite-gradient:{k["kind"]}',
                                'detail': f'non-finite entries in get_function_grads, mode {p["mode"]}, q={k["q"]}'})
    # ---- property oracle: finite differences of the real kernel matrix -------------------------------------
    co = coincident(x, z)
    gK, kmax = fd_kernel(lambda a, b: kobj.get_kernel_matrix(a, b, T), x, z, h)      # (n_x, n_z, d)
    noise = 16 * EPS64 / h * (c.abs() @ kmax)                                         # rounding of f(z±h) / h
    # ... plus the rounding of the kernel values themselves: a relative eps for distances computed from differences, but an
    # absolute sqrt(eps)-size distance error for the expansion forms (light kernel always, cdist(p=2) above 25 rows), which
    # matters where the true distance is ~0 although the rows differ (zero transform weight on the differing coordinate)
    noise = noise + 8.0 / h * (c.abs() @ value_rounding(k, x, z, T))
    gK = torch.where(co[:, :, None], torch.zeros_like(gK), gK)                        # coinciding center removed
    g_fd = torch.einsum('li,ijd->ljd', c, gK)
    S = torch.einsum('li,ij->lj', c.abs(), gK.abs().amax(dim=-1))                     # Σ_i |c_li| max_a |∂_a k_i|
    rows_ok = kink_clear(k['kind'], k, x, z, T, h, ignore_exact=True).all(dim=0)
    smooth = (k['kind'] in ('l2', 'light') or (k['kind'] in ('prod', 'sumpower') and k['q'] > 1)
              or (k['kind'] == 'lpq' and k['p'] > 1))
    nondiff = exact_coordinate_hit(x, z, T).any(dim=0) & (not smooth)
    worst_fd = 0.0
    if finite:
        cancel, _, _ = l2_leak_terms(kobj, k['kind'], x, z, T, c.abs(), EPS64)
        worst_fd = fd_check(res, k['kind'], gi, g_fd, S, cancel + noise, rows_ok, co.any(dim=0), nondiff,
                            f'get_function_grads (mode {p["mode"]}, q={k["q"]}, transform {p["tm"]})')
    if finite and p['mode'] == 'near' and p.get('near_exp') == 30:
        worst_fd = max(worst_fd, near_fd_check(res, kobj, k, T, x, z, c, gi, p))
    # ---- correspondence with the Lean closed forms ------------------------------------------------------------
    m = drv.ask(driver_query(k, T, x, z, c))
    ratio = leak_rel = 0.0
    if 'error' in m:
        res['disagreements'].append({'detail': f'model rejects the case: {m["error"]}'})
    elif finite:
        gm = torch.tensor(core.unfl(m['grads']), dtype=torch.float64).reshape(f, nz, d)
        ratio, detail, leak_rel = compare_blocks(kobj, k, T, x, z, c, gi, gm, S, EPS64, 1e-9)
        if detail:
            res['disagreements'].append({'detail': detail})
        if 'grads_gen' in m:
            # L2 / memory-light: the weight program regenerated from the gradient routine (Gen.GradOps), run at Float by the driver,
            # against the closed-form model (two Float evaluations of the same real number: operation order only)
            gg = torch.tensor(core.unfl(m['grads_gen']), dtype=torch.float64).reshape(f, nz, d)
            tolg = 1e-9 * (gm.abs().amax() + S.amax() + 1e-300)
            if not bool(((gg - gm).abs() <= tolg).all()):
                res['disagreements'].append({'detail': f'regenerated gradient program (Gen.GradOps) differs from the closed-form model by '
                                                       f'{float((gg - gm).abs().max()):.3e} (tolerance {float(tolg):.3e}), kernel {k["kind"]} q={k["q"]}'})
            res.setdefault('dist', {})
        if 'fval_gen' in m and p['mode'] != 'near':
            # product / Lpq / sum-power: the `forward_func` closure regenerated from the gradient routine (Gen.FwdOps), run at Float,
            # against the closed-form predictor of the model and against the real kernel matrix
            vg = torch.tensor(core.unfl(m['fval_gen']), dtype=torch.float64).reshape(f, nz)
            vm = torch.tensor(core.unfl(m['fval_model']), dtype=torch.float64).reshape(f, nz)
            vi = c @ kobj.get_kernel_matrix(x, z, T)
            tolv = 1e-9 * (c.abs().sum(dim=1, keepdim=True) + 1e-300)
            if not bool(((vg - vm).abs() <= tolv).all()):
                res['disagreements'].append({'detail': f'regenerated forward closure (Gen.FwdOps) differs from the closed-form model by '
                                                       f'{float((vg - vm).abs().max()):.3e}, kernel {k["kind"]} q={k["q"]} mode {p["mode"]}'})
            # ... against the real kernel matrix only in general position (a coinciding pair computed through the expansion-mode
            # `cdist` carries a sqrt(eps)-size distance, i.e. a kernel value off by up to ~1e-3 for small exponents), with the
            # rounding of the real kernel values in the tolerance
            tol_i = 1e-6 * (c.abs().sum(dim=1, keepdim=True) + 1e-300) + 8.0 * (c.abs() @ value_rounding(k, x, z, T))
            if p['mode'] == 'general' and not bool(((vg - vi).abs() <= tol_i).all()):
                res['disagreements'].append({'detail': f'regenerated forward closure (Gen.FwdOps) differs from coefs @ get_kernel_matrix by '
                                                       f'{float((vg - vi).abs().max()):.3e}, kernel {k["kind"]} q={k["q"]} mode {p["mode"]}'})
    nz_grad = bool((gi.abs() > 0).any()) if finite else False
    res['nontrivial'] = [p['seed'], k['kind'], k['q'], p['mode'], p['tm']] if nz_grad else None
    res['dist'] = {'kind': k['kind'], 'q': k['q'], 'mode': p['mode'], 'transform': p['tm'], 'outputs': f,
                   'regenerated_gradient_program': 'compared' if isinstance(m, dict) and 'grads_gen' in m else 'n/a',
                   'regenerated_forward_closure': 'compared' if isinstance(m, dict) and 'fval_gen' in m and p['mode'] != 'near' else 'n/a',
                   'kind_x_mode': f'{k["kind"]}/{p["mode"]}',
                   'multi_output_autograd': (f >= 2 and k['kind'] in ('prod', 'lpq', 'sumpower')),
                   'q_lt_1_coordinate_coincidence': (k['q'] < 1 and p['mode'] == 'coord'),
                   'fd_rows_checked': int(rows_ok.sum())}
    res['sample'] = {'kernel': k, 'mode': p['mode'], 'transform': p['tm'], 'shape': [f, nz, d],
                     'corr_err_over_allowance': ratio, 'fd_err_over_tolerance': worst_fd, 'self_term_leak_rel': leak_rel}
    res['metrics'] = {'corr': ratio, 'fd': worst_fd, 'leak': leak_rel}
    return res


def gen_kernel(r, kind=None, q=None):
    kind = kind or r.choice(KINDS)
    q = q if q is not None else r.choice(QS)
    k = {'kind': kind, 'q': q, 'L': r.choice([0.3, 0.5, 1.0, 2.0, 3.0, 5.0, 10.0]), 'eps': KERNEL_EPS}
    if kind == 'lpq':
        k['p'] = r.choice([q, 2.0, round(r.uniform(q, 2.0), 3), round(r.uniform(q, 2.0), 3)])
    if kind == 'sumpower':
        k['cmix'] = r.choice([0.0, 0.0, 0.2, 0.5])
        k['power'] = r.choice([1, 2, 2, 3])
    return k


def gen_blocks(r, n):
    cases = []
    for t in range(n):
        kind = KINDS[t % len(KINDS)]
        k = gen_kernel(r, kind, QS[(t // len(KINDS)) % len(QS)])
        tm = r.choice(['none', 'diag', 'full'])
        modes = ['general', 'general', 'row', 'row', 'row+dup', 'self'] + (['coord', 'coord'] if tm != 'full' else [])
        mode = r.choice(modes)
        big = r.random() < 0.12
        nx = r.randint(26, 40) if big else r.randint(1, 12)
        cases.append({'family': 'kernel-grads', 'kernel': k, 'd': r.randint(1, 5), 'nx': nx, 'nz': r.randint(1, 6),
                      'f': r.choice([1, 2, 2, 3, 3, 4]), 'mode': mode, 'tm': tm, 'scale': r.choice([0.3, 1.0, 1.0, 3.0]),
                      'ncoord': r.randint(1, 3), 'zero_diag': r.random() < 0.1, 'seed': r.randint(0, 2 ** 31 - 1)})
    # the two repaired defects stay guarded: multi-output autograd kernels, coordinate coincidences for q < 1
    for t in range(max(20, n // 8)):
        kind = ['prod', 'lpq', 'sumpower'][t % 3]
        k = gen_kernel(r, kind, r.choice([0.5, 0.7]) if t % 2 else None)
        tm = r.choice(['none', 'diag'])
        cases.append({'family': 'kernel-grads-guards', 'kernel': k, 'd': r.randint(2, 5), 'nx': r.randint(2, 10),
                      'nz': r.randint(2, 6), 'f': r.choice([2, 3, 4]), 'mode': 'coord' if t % 2 else r.choice(['general', 'row']),
                      'tm': tm, 'scale': 1.0, 'ncoord': r.randint(1, 3), 'zero_diag': False, 'seed': r.randint(0, 2 ** 31 - 1)})
    # near-coincidences between the two readings of the masks: the step 2^-30 has ‖Δ‖ >= eps but ‖Δ‖^q < eps for
    # q >= 1.2; the step 2^-40 has ‖Δ‖ < eps but ‖Δ‖^q >= eps for q <= 0.7 (eps = 1e-10)
    for t in range(max(12, n // 12)):
        kind = ['prod', 'lpq', 'sumpower', 'prod'][t % 4]
        q = [1.5, 0.5, 2.0, 0.7, 1.2, 1.0][t % 6]
        k = gen_kernel(r, kind, q)
        if kind == 'lpq':
            k['p'] = r.choice([q, round(r.uniform(max(q, 0.3), 1.9), 3)]) if q < 2 else 1.7
            k['q'] = min(k['q'], k['p'])
        cases.append({'family': 'kernel-grads-near', 'kernel': k, 'd': r.randint(1, 4), 'nx': r.randint(1, 8),
                      'nz': r.randint(1, 4), 'f': r.choice([1, 2, 3]), 'mode': 'near', 'tm': r.choice(['none', 'none', 'diag']),
                      'scale': 1.0, 'near_exp': 30 if k['q'] > 1.1 else r.choice([30, 40]), 'zero_diag': False,
                      'seed': r.randint(0, 2 ** 31 - 1)})
    return cases


# ------------------------------------------------------------------------------------------------
# family 2: RFM.get_grads after a real fit
# ------------------------------------------------------------------------------------------------
def fit_rfm(p):
    import torch
    from xrfm.rfm_src import RFM
    g = torch.Generator().manual_seed(p['seed'])
    dt = torch.float64
    n, d, o = p['n'], p['d'], p['outputs']
    X = torch.randn(n, d, generator=g, dtype=dt)
    W = torch.randn(d, o, generator=g, dtype=dt)
    y = torch.tanh(X @ W) + 0.1 * torch.randn(n, o, generator=g, dtype=dt)
    nv = max(4, n // 3)
    Xv = torch.randn(nv, d, generator=g, dtype=dt)
    yv = torch.tanh(Xv @ W) + 0.1 * torch.randn(nv, o, generator=g, dtype=dt)
    model = RFM(kernel=make_kernel(p['kernel']), iters=p['iters'], device='cpu', verbose=False, diag=p['diag'],
                bandwidth_mode=p.get('bandwidth_mode', 'constant'), tuning_metric='mse')
    model.fit((X, y), (Xv, yv), iters=p['iters'], reg=p['reg'], verbose=False, early_stop_rfm=False,
              return_best_params=p.get('return_best', True), M_batch_size=p.get('M_batch_size'))
    return model, X, g


def query_points(model, X, g, k, h, n_new, n_train):
    """new points in general position w.r.t. the centers (rejection sampling) + some training points."""
    import torch
    T = model.sqrtM if model.use_sqrtM else model.M
    d = X.shape[1]
    rows = []
    for _ in range(4000):
        if len(rows) >= n_new:
            break
        zc = torch.randn(1, d, generator=g, dtype=X.dtype)
        if bool(kink_clear(k['kind'], k, model.centers, zc, T, h).all()):
            rows.append(zc)
    idx = torch.randperm(X.shape[0], generator=g)[:n_train]
    return torch.cat(rows + [X[idx]], dim=0) if rows else X[idx]


def exec_rfm(p, drv):
    import torch
    res = {'family': p['family'], 'params': p, 'disagreements': [], 'failures': []}
    try:
        model, X, g = fit_rfm(p)
    except Exception as e:
        res['failures'].append({'signature': f'C04:fit-raises:{type(e).__name__}', 'detail': str(e)[:300]})
        return res
    k = kernel_desc(model.kernel_obj)
    T = model.sqrtM if model.use_sqrtM else model.M
    h = 1e-4
    Z = query_points(model, X, g, k, h, 5, 3)
    try:
        G = model.get_grads(Z)                                       # (n, outputs, d)
    except Exception as e:
        res['failures'].append({'signature': f'C04:raises:{type(e).__name__}', 'detail': str(e)[:300]})
        return res
    o, d = model.weights.shape[1], X.shape[1]
    if tuple(G.shape) != (Z.shape[0], o, d):
        res['failures'].append({'signature': 'C04:wrong-shape', 'detail': f'RFM.get_grads shape {tuple(G.shape)}'})
        return res
    gi = G.permute(1, 0, 2).contiguous()
    finite = bool(torch.isfinite(gi).all())
    if not finite:
        res['failures'].append({'signature': f'C04:nonfinite-gradient:{k["kind"]}', 'detail': 'RFM.get_grads not finite'})
    centers, W = model.centers, model.weights
    C = W.T.contiguous()
    co = coincident(centers, Z)
    gK, kmax = fd_kernel(lambda a, b: model.kernel(a, b), centers, Z, h)
    noise = 16 * EPS64 / h * (C.abs() @ kmax)
    gK = torch.where(co[:, :, None], torch.zeros_like(gK), gK)
    S = torch.einsum('li,ij->lj', C.abs(), gK.abs().amax(dim=-1))
    # ---- oracle: finite differences of the real predict (a coinciding center's weight set to 0) --------------------
    worst_fd = 0.0
    if finite:
        def predict_without(removed, pts):
            keep = model.weights
            if removed:
                w2 = keep.clone()
                w2[removed] = 0
                model.weights = w2
            try:
                return model.predict(pts)
            finally:
                model.weights = keep
        E = torch.eye(d, dtype=Z.dtype)
        rows_ok = kink_clear(k['kind'], k, centers, Z, T, h, ignore_exact=True).all(dim=0)
        g_fd = torch.zeros_like(gi)
        for j in range(Z.shape[0]):
            if not bool(rows_ok[j]):
                continue
            removed = [int(i) for i in torch.nonzero(co[:, j]).flatten()]
            pts = torch.cat([Z[j][None, :] + s * E for s in (h, -h, h / 2, -h / 2)], dim=0)
            P = predict_without(removed, pts)                       # (4d, outputs)
            D1 = (P[:d] - P[d:2 * d]) / (2 * h)
            D2 = (P[2 * d:3 * d] - P[3 * d:]) / h
            g_fd[:, j, :] = ((4 * D2 - D1) / 3).T
        cancel, _, _ = l2_leak_terms(model.kernel_obj, k['kind'], centers, Z, T, C.abs(), EPS64)
        smooth = (k['kind'] in ('l2', 'light') or (k['kind'] in ('prod', 'sumpower') and k['q'] > 1)
                  or (k['kind'] == 'lpq' and k['p'] > 1))
        nondiff = exact_coordinate_hit(centers, Z, T).any(dim=0) & (not smooth)
        worst_fd = fd_check(res, 'rfm:' + k['kind'], gi, g_fd, S, cancel + noise, rows_ok, co.any(dim=0), nondiff,
                            'RFM.get_grads vs finite differences of RFM.predict,')
    # ---- correspondence ---------------------------------------------------------------------------------------------
    m = drv.ask(driver_query(k, T, centers, Z, C))
    ratio = leak_rel = 0.0
    if 'error' in m:
        res['disagreements'].append({'detail': f'model rejects the case: {m["error"]}'})
    elif finite:
        gm = torch.tensor(core.unfl(m['grads']), dtype=torch.float64).reshape(o, Z.shape[0], d)
        ratio, detail, leak_rel = compare_blocks(model.kernel_obj, k, T, centers, Z, C, gi, gm, S, EPS64, 1e-9)
        if detail:
            res['disagreements'].append({'detail': 'RFM.get_grads: ' + detail})
    res['nontrivial'] = [p['seed'], k['kind'], p['iters'], p['diag']] if finite and bool((gi.abs() > 0).any()) else None
    res['dist'] = {'rfm_kind': k['kind'], 'rfm_iters': p['iters'], 'rfm_diag': p['diag'], 'rfm_outputs': o,
                   'rfm_transform': 'none' if T is None else ('diag' if T.dim() == 1 else 'full')}
    res['sample'] = {'kernel': k, 'n': p['n'], 'd': d, 'outputs': o, 'iters': p['iters'], 'diag': p['diag'],
                     'corr_err_over_allowance': ratio, 'fd_err_over_tolerance': worst_fd, 'self_term_leak_rel': leak_rel}
    res['metrics'] = {'corr': ratio, 'fd': worst_fd, 'leak': leak_rel}
    return res


def gen_rfm(r, n):
    cases = []
    for t in range(n):
        kind = KINDS[t % len(KINDS)]
        k = gen_kernel(r, kind)
        k['L'] = r.choice([1.0, 2.0, 3.0, 5.0, 10.0])
        adaptive = kind != 'sumpower' and r.random() < 0.25
        cases.append({'family': 'rfm-grads', 'kernel': k, 'n': r.randint(10, 40), 'd': r.randint(2, 5),
                      'outputs': r.randint(1, 3), 'iters': (t // len(KINDS)) % 3, 'diag': bool((t // (3 * len(KINDS))) % 2) if n >= 30 else r.random() < 0.5,
                      'reg': r.choice([1e-3, 1e-2, 1e-1]), 'bandwidth_mode': 'adaptive' if adaptive else 'constant',
                      'return_best': r.random() < 0.7, 'seed': r.randint(0, 2 ** 31 - 1)})
    return cases


# ------------------------------------------------------------------------------------------------
# family 3: xRFM.get_grads on hard-routed regressions (float32 by construction of xRFM.fit)
# ------------------------------------------------------------------------------------------------
def kernel_str(k):
    return {'l2': 'l2', 'light': 'l2_high_dim', 'prod': 'l1', 'lpq': 'lpq', 'sumpower': 'sum_power_laplace'}[k['kind']]


def route(ptree, rtree, xrow):
    """Leaf of the stored param tree (and of the live tree, walked in parallel) for one row, by the stored split
    directions / thresholds; also the smallest relative margin and the smallest |projection − threshold| / ‖v‖₁
    met on the way (how far the row can move per coordinate without crossing a split)."""
    rel_min = float('inf')
    abs_min = float('inf')
    while ptree['type'] != 'leaf':
        v = ptree['split_direction'].double()
        b = float(ptree['split_point'])
        pr = float(xrow.double() @ v)
        rel_min = min(rel_min, abs(pr - b) / (float(v.norm()) * float(xrow.double().norm()) + abs(b) + 1e-300))
        abs_min = min(abs_min, abs(pr - b) / (float(v.abs().sum()) + 1e-300))
        side = 'left' if pr <= b else 'right'
        ptree, rtree = ptree[side], rtree[side]
    return ptree, rtree, rel_min, abs_min


def exec_xrfm(p, drv):
    import torch
    from xrfm import xRFM
    res = {'family': p['family'], 'params': p, 'disagreements': [], 'failures': []}
    g = torch.Generator().manual_seed(p['seed'])
    torch.manual_seed(p['seed'])
    n, d = p['n'], p['d']
    X = torch.randn(n, d, generator=g)
    w = torch.randn(d, generator=g)
    y = (torch.tanh(X @ w) + 0.3 * X[:, 0] ** 2 + 0.05 * torch.randn(n, generator=g)).unsqueeze(1)
    Xv = torch.randn(max(20, n // 3), d, generator=g)
    yv = (torch.tanh(Xv @ w) + 0.3 * Xv[:, 0] ** 2).unsqueeze(1)
    k = p['kernel']
    model_params = {'kernel': kernel_str(k), 'exponent': k['q'], 'bandwidth': k['L'], 'diag': p['diag'], 'bandwidth_mode': 'constant'}
    if k['kind'] == 'lpq':
        model_params['norm_p'] = k['p']
    if k['kind'] == 'sumpower':
        model_params['const_mix'] = k['cmix']
        model_params['power'] = k['power']
    rfm_params = {'model': model_params,
                  'fit': {'reg': p['reg'], 'iters': p['iters'], 'return_best_params': True, 'early_stop_rfm': False, 'verbose': False}}
    try:
        model = xRFM(rfm_params=rfm_params, max_leaf_size=p['max_leaf_size'], split_temperature=None,
                     use_temperature_tuning=False, device='cpu', verbose=False, random_state=p['seed'] % 1000,
                     n_trees=p.get('n_trees', 1))
        model.fit(X, y, Xv, yv)
        if len(model.trees) != 1:
            raise RuntimeError('harness: this family expects a single built tree')
    except Exception as e:
        res['failures'].append({'signature': f'C04:fit-raises:{type(e).__name__}', 'detail': str(e)[:300]})
        return res
    ptree = model.get_state_dict()['param_trees'][0]
    rtree = model.trees[0]
    h = 1e-2
    # query points: fresh points and a few training rows (which coincide with a center of their leaf)
    Zq = torch.cat([torch.randn(p['n_query'], d, generator=g), X[torch.randperm(n, generator=g)[:4]]], dim=0)
    try:
        G = model.get_grads(Zq)                                     # (n, 1, d)
    except Exception as e:
        res['failures'].append({'signature': f'C04:raises:{type(e).__name__}', 'detail': str(e)[:300]})
        return res
    if tuple(G.shape) != (Zq.shape[0], 1, d):
        res['failures'].append({'signature': 'C04:wrong-shape', 'detail': f'xRFM.get_grads shape {tuple(G.shape)}'})
        return res
    G = G.double()
    if not bool(torch.isfinite(G).all()):
        res['failures'].append({'signature': f'C04:nonfinite-gradient:{k["kind"]}', 'detail': 'xRFM.get_grads not finite'})
        return res
    n_leaves = len(model._collect_leaf_nodes(rtree))
    E = torch.eye(d)
    worst_fd = worst_corr = 0.0
    skipped_thr = checked_fd = 0
    by_leaf = {}
    for j in range(Zq.shape[0]):
        pleaf, rleaf, rel, am = route(ptree, rtree, Zq[j])
        if rel <= 1e-3:
            skipped_thr += 1
            continue
        by_leaf.setdefault(id(pleaf), (pleaf, rleaf, []))[2].append((j, am))
    for pleaf, rleaf, rows in by_leaf.values():
        centers = X[pleaf['train_indices']]
        W = pleaf['weights']
        kd = dict(k, L=float(pleaf['bandwidth']), eps=KERNEL_EPS)
        T = pleaf['sqrtM'] if k['kind'] != 'light' else pleaf['M']
        js = [j for j, _ in rows]
        Z = Zq[js]
        c64, Z64, C64 = centers.double(), Z.double(), W.double().T.contiguous()
        T64 = None if T is None else T.double()
        gi = G[js].permute(1, 0, 2).contiguous()                  # (1, m, d)
        leafmodel = rleaf['model']
        co = coincident(centers, Z)
        # magnitude scale from the real (float32) kernel of the live leaf model, step h
        gK, kmax = fd_kernel(lambda a, b: leafmodel.kernel(a, b), centers, Z, h)
        gK = gK.double()
        noise32 = 16 * EPS32 / h * (C64.abs() @ kmax.double())                  # rounding of the float32 predict / h
        gK = torch.where(co[:, :, None], torch.zeros_like(gK), gK)
        S = torch.einsum('li,ij->lj', C64.abs(), gK.abs().amax(dim=-1))
        # correspondence: driver's gradient of the stored leaf function (float64 evaluation of float32 parameters)
        m = drv.ask(driver_query(kd, T64, c64, Z64, C64))
        if 'error' in m:
            # model unavailable: recorded, the finite-difference oracle below still runs
            res['disagreements'].append({'detail': f'model rejects the case: {m["error"]}'})
        else:
            gm = torch.tensor(core.unfl(m['grads']), dtype=torch.float64).reshape(1, len(js), d)
            ratio, detail, _ = compare_blocks(make_kernel(kd), kd, T, centers, Z, W.T.contiguous(), gi, gm, S, EPS32, 5e-3)
            worst_corr = max(worst_corr, ratio)
            if detail:
                res['disagreements'].append({'detail': f'xRFM.get_grads (leaf of {len(centers)} centers): ' + detail})
        # oracle: central differences of the real xRFM.predict, stencil at least 5 steps from every kink / center / split
        clear = kink_clear(k['kind'], kd, c64, Z64, T64, h / 40).all(dim=0)
        for r_, (j, am) in enumerate(rows):
            if bool(co[:, r_].any()) or not bool(clear[r_]) or am <= 2 * h:
                continue
            pts = torch.cat([Zq[j][None, :] + s * E for s in (h, -h)], dim=0)
            P = torch.as_tensor(model.predict(pts)).double().reshape(2 * d)
            fd = (P[:d] - P[d:]) / (2 * h)
            tol = 2e-2 * max(float(S[0, r_]), float(gi[0, r_].abs().max())) + float(noise32[0, r_]) + 1e-6
            err = float((gi[0, r_] - fd).abs().max())
            checked_fd += 1
            worst_fd = max(worst_fd, err / tol)
            if err > tol:
                res['failures'].append({'signature': f'C04:xrfm-gradient-not-jacobian-of-predict:{k["kind"]}', 'detail':
                                        f'row {j}: get_grads {gi[0, r_].tolist()} finite differences of predict {fd.tolist()} '
                                        f'|diff| {err:.3e} tolerance {tol:.3e}'})
    # batches that leave some leaves empty: the rows of one leaf only, and single rows - the Jacobian of predict at a row
    # does not depend on which other rows are in the batch (the full-batch values are the ones checked above)
    sub_checked = 0
    # fresh rows only: a row that coincides with a center carries the self-term leak of the expansion-distance kernels,
    # whose size depends on the batch shape (float32, amplified for q < 1; see l2_leak_terms) - not a routing effect
    fresh = lambda rows: [j for j, _ in rows if j < p['n_query']]    # noqa: E731
    subs = [fresh(rows) for _, _, rows in by_leaf.values()] + [[j] for _, _, rows in by_leaf.values() for j in fresh(rows)[:2]]
    subs = [js for js in subs if js]
    for js in subs:
        try:
            Gs = model.get_grads(Zq[js]).double()
        except Exception as e:
            res['failures'].append({'signature': f'C04:raises:{type(e).__name__}', 'detail': f'get_grads on a batch of {len(js)} row(s) of one leaf: {str(e)[:300]}'})
            break
        sub_checked += 1
        ref = G[js]
        # float32: the full batch (> 25 rows) goes through the expansion-mode distances, a small sub-batch through the exact
        # ones; the factor dist^(q-2) amplifies that difference (same 5e-3 relative floor as the float32 correspondence)
        tol = 1e-2 * float(ref.abs().max()) + 1e-6
        err = float((Gs - ref).abs().max()) if Gs.shape == ref.shape else float('inf')
        if err > tol:
            res['failures'].append({'signature': f'C04:xrfm-gradient-not-jacobian-of-predict:sub-batch:{k["kind"]}', 'detail':
                                    f'get_grads of rows {js[:6]} alone (all routed to one of {n_leaves} leaves) differs from their values in the '
                                    f'full batch (checked against finite differences of predict) by {err:.3e}, tolerance {tol:.3e}'})
            break
    res['nontrivial'] = [p['seed'], k['kind'], n_leaves] if bool((G.abs() > 0).any()) else None
    res['dist'] = {'xrfm_kind': k['kind'], 'xrfm_sub_batches': sub_checked if sub_checked < 8 else '8+', 'xrfm_leaves': n_leaves if n_leaves < 5 else '5+', 'xrfm_diag': p['diag'],
                   'xrfm_fd_rows_checked': checked_fd}
    res['sample'] = {'kernel': k, 'n': n, 'd': d, 'leaves': n_leaves, 'fd_rows_checked': checked_fd,
                     'rows_skipped_near_threshold': skipped_thr, 'corr_err_over_allowance': worst_corr,
                     'fd_err_over_tolerance': worst_fd}
    res['metrics'] = {'corr32': worst_corr, 'fd32': worst_fd}
    return res


def gen_xrfm(r, n):
    cases = []
    for t in range(n):
        kind = KINDS[t % len(KINDS)]
        k = gen_kernel(r, kind, r.choice([0.7, 1.0, 1.3, 1.7, 2.0]))
        k['L'] = r.choice([2.0, 3.0, 5.0, 10.0])
        multi = t % 4 != 0
        leaf = r.randint(12, 30)
        cases.append({'family': 'xrfm-grads-multi-leaf' if multi else 'xrfm-grads-single-leaf', 'kernel': k,
                      'n': r.randint(leaf * 2 + 2, leaf * 6) if multi else r.randint(12, 40), 'd': r.randint(2, 4),
                      'max_leaf_size': leaf if multi else 1000, 'iters': r.randint(0, 2), 'diag': r.random() < 0.4,
                      'reg': r.choice([1e-3, 1e-2]), 'n_query': 24, 'seed': r.randint(0, 2 ** 31 - 1),
                      # an ensemble cut short: several trees requested, the data fit one leaf, one tree is built
                      'n_trees': 1 if multi else r.choice([1, 3])})
    if not any(c['n_trees'] > 1 for c in cases) and cases:
        cases[0]['n_trees'] = 3
    return cases


# ------------------------------------------------------------------------------------------------
def exec_large(p):
    """A query set so large that x-by-z-by-d intermediates cross 2^24 entries (internal blocking of the gradient code): the
    gradient at a point is a function of that point, so the rows of the big call must equal those of a small call."""
    import numpy as np
    import torch
    res = {'family': p['family'], 'params': p, 'disagreements': [], 'failures': [], 'dist': {}}
    g = torch.Generator().manual_seed(p['seed'])
    dt = torch.float64
    d, nx, nz, f = p['d'], p['nx'], p['nz'], p['f']
    x = torch.randn(nx, d, generator=g, dtype=dt)
    z = torch.randn(nz, d, generator=g, dtype=dt) * 1.5
    c = torch.randn(f, nx, generator=g, dtype=dt)
    T = None
    if p['tm'] == 'diag':
        T = torch.rand(d, generator=g, dtype=dt) * 0.9 + 0.1
    kobj = make_kernel(p['kernel'])
    sel = sorted(set(list(range(4)) + list(range(nz - 8, nz)) + [int(i) for i in torch.randint(4, nz - 8, (4,), generator=g)]))
    try:
        big = kobj.get_function_grads(x, z, c, T)
        small = make_kernel(p['kernel']).get_function_grads(x, z[sel].clone(), c, T)
    except Exception as e:
        res['failures'].append({'signature': f'C04:raises:{type(e).__name__}', 'detail': f'get_function_grads on {nz} points: {str(e)[:200]}'})
        return res
    big, small = big.double().numpy(), small.double().numpy()
    if big.shape != (f, nz, d):
        res['failures'].append({'signature': 'C04:wrong-shape', 'detail': f'gradient of shape {big.shape} for {f} outputs, {nz} points, d={d}'})
        return res
    err = np.abs(big[:, sel] - small)
    tol = 1e-5 * max(1e-12, float(np.abs(small).max()))
    if not (err <= tol).all():
        l, j, a = np.unravel_index(int(np.argmax(err)), err.shape)
        res['failures'].append({'signature': f'C04:large-query-set:{p["kernel"]["kind"]}',
                                'detail': f'{type(kobj).__name__}: gradient of output {int(l)} at point {sel[int(j)]} of {nz} is {big[l, sel[j], a]!r} in the big call and '
                                          f'{small[l, j, a]!r} when the point is evaluated in a batch of {len(sel)} (coordinate {int(a)})'})
    res['nontrivial'] = ['large', p['kernel']['kind'], p['seed']] if float(np.abs(small).max()) > 0 else None
    res['dist'] = {'kind': p['kernel']['kind'], 'points': 'above 2^24 x-z-d entries', 'transform': p['tm']}
    res['sample'] = {'kernel': p['kernel'], 'nx': nx, 'nz': nz, 'd': d, 'outputs': f, 'max_row_difference': float(err.max())}
    return res


def gen_small_scale(r, quick):
    """features recorded in small units (1e-6, bandwidth to match) and in large ones (1e4): thresholds like `eps` are absolute, so a
    mask applied to the wrong power of the distance swallows every pair at small scales"""
    cases = []
    for t in range(15 if quick else 90):
        kind = KINDS[t % len(KINDS)]
        k = gen_kernel(r, kind, [1.0, 1.3, 0.7, 2.0, 1.7][(t // len(KINDS)) % 5])
        if kind == 'lpq':
            k['q'] = min(k['q'], k['p'])
        s = [1e-6, 1e-6, 1e4][(t // len(KINDS)) % 3]
        k['L'] = k['L'] * s
        cases.append({'family': 'kernel-grads-small-scale', 'kernel': k, 'd': r.randint(1, 4), 'nx': r.randint(2, 10), 'nz': r.randint(1, 5),
                      'f': r.choice([1, 2, 3]), 'mode': 'general', 'tm': r.choice(['none', 'diag', 'full']), 'scale': s, 'ncoord': 1,
                      'zero_diag': False, 'seed': r.randint(0, 2 ** 31 - 1)})
    return cases


def gen_large(r, quick):
    cases = []
    for t, kind in enumerate(KINDS if quick else list(KINDS) * 2):
        k = gen_kernel(r, kind, [1.0, 1.3, 0.7][t % 3])
        nx, d = 48, 4
        nz = (2 ** 24) // (nx * d) + 1 + r.randint(3, 40)       # crosses 2^24 entries ...
        nz += (5 - nz) % 6                                      # ... and leaves a remainder for blocks of one half or one third
        cases.append({'family': 'kernel-grads-large', 'kernel': k, 'd': d, 'nx': nx, 'nz': nz, 'f': 1 + t % 2, 'tm': ['none', 'diag'][t % 2],
                      'seed': r.randint(0, 2 ** 31 - 1)})
    return cases


def execute(chunk):
    drv = core.Driver('C04')
    out = []
    try:
        for p in chunk['cases']:
            fam = p['family']
            if fam == 'kernel-grads-large':
                out.append(exec_large(p))
            elif fam.startswith('kernel-grads'):
                out.append(exec_block(p, drv))
            elif fam == 'rfm-grads':
                out.append(exec_rfm(p, drv))
            else:
                out.append(exec_xrfm(p, drv))
    finally:
        drv.close()
    return out


def check(run):
    run.rule = ('real Kernel.get_function_grads / RFM.get_grads / xRFM.get_grads versus the Lean closed forms (computed allowance) '
                'and versus Richardson central finite differences of the real kernel matrix / predict (coinciding center removed); '
                'a case is non-trivial when the returned gradient has a non-zero entry')
    run.assumptions = ['inputs finite; transforms symmetric (None / diagonal / symmetric PSD), as produced by fit_M',
                       'points either in general position or coinciding exactly with a center / a center coordinate '
                       '(near-coincidences 0 < |Δ| ~ eps are generated only for the cdist(p≠2) and coordinate-wise kernels, family kernel-grads-near)',
                       'CPU kernels only; xRFM level runs in float32 (xRFM.fit casts targets), finite differences there use '
                       'step 1e-2 and 2e-2 relative tolerance, rows within 1e-3 relative distance of a split threshold skipped']
    run.lean()
    quick = run.tier == 'quick'
    r = run.rng
    cases = gen_blocks(r, 500 if quick else 5000) + gen_rfm(r, 30 if quick else 150) + gen_xrfm(r, 8 if quick else 40) + gen_large(r, quick) + gen_small_scale(r, quick)
    if run.driver_ok:
        # fitted models first (slowest), blocks spread evenly
        cases.sort(key=lambda p: 0 if p['family'].startswith('xrfm') or p['family'] == 'kernel-grads-large' else 1 if p['family'] == 'rfm-grads' else 2)
        nchunks = 48 if quick else 128
        groups = [cases[i::nchunks] for i in range(nchunks)]
        results = core.pmap(MOD, [{'cases': c} for c in groups if c])
        worst = {}
        for res in results:
            for key, v in (res.get('metrics') or {}).items():
                worst[key] = max(worst.get(key, 0.0), v)
        run.extra['worst_ratios'] = {'correspondence_err_over_allowance': worst.get('corr'),
                                     'fd_err_over_tolerance': worst.get('fd'),
                                     'float32_correspondence_err_over_allowance': worst.get('corr32'),
                                     'float32_fd_err_over_tolerance': worst.get('fd32'),
                                     'max_self_term_cancellation_allowance_relative': worst.get('leak')}
        run.extra['allowances'] = {'correspondence': '1e-9·max(|g_impl|,|g_model|) + 1e-9·Σ|c||M||Δ| + 16·eps·Σ|c||M|(|z|+|x|) '
                                                     '(two-sum cancellation of the L2 kernels) + expansion-mode distance error term',
                                   'fd_oracle': '1e-5·Σ_i|c_li|·max_a|∂_a k_i| (per-center finite differences) + the same cancellation term + 16·eps/h·Σ_i|c_li||k_i| (rounding of the differenced values)',
                                   'float32': '5e-3 relative (correspondence), 2e-2 relative (finite differences, step 1e-2)'}
        run.absorb('c04', results)


def replay(run, payload):
    run.lean()
    # two chunks / two workers: core.pmap runs a single chunk in-process, where core._worker redirects sys.stdout to
    # /dev/null and the verdict lines of finish() would be lost
    results = core.pmap(MOD, [{'cases': [payload['params']]}, {'cases': []}], workers=2)
    run.absorb('replay', results)
