/-
Homogeneity of the closed-form gradients (C19): rescaling the centers, the evaluation points and the bandwidth by the
same `c > 0` divides every gradient of the Laplace-family predictors by `c` — provided the coincidence masks
(`‖Δ‖ < eps`, a degree-1 quantity for every kernel since the product-kernel mask was repaired) fire for the same pairs
at both scales.  This is the half of C19's AGOP contract that was only stated before.
-/
import Xrfmv.Lemmas.Grad

namespace Xrfmv.Grad

/-- `c · v` -/
abbrev sm (c : ℝ) (v : List ℝ) : List ℝ := v.map (c * ·)

def Params.withL (P : Params ℝ) (L : ℝ) : Params ℝ := { P with L := L }

@[simp] theorem withL_L (P : Params ℝ) (L : ℝ) : (P.withL L).L = L := rfl
@[simp] theorem withL_q (P : Params ℝ) (L : ℝ) : (P.withL L).q = P.q := rfl
@[simp] theorem withL_p (P : Params ℝ) (L : ℝ) : (P.withL L).p = P.p := rfl
@[simp] theorem withL_eps (P : Params ℝ) (L : ℝ) : (P.withL L).eps = P.eps := rfl

/-! ### vectors -/

theorem vsub_sm (c : ℝ) (v u : List ℝ) : vsub (sm c v) (sm c u) = sm c (vsub v u) := by
  unfold vsub sm
  rw [List.zipWith_map, List.map_zipWith]
  congr 1
  funext a b
  ring

theorem vsum_sm (c : ℝ) (l : List ℝ) : vsum (sm c l) = c * vsum l := by
  induction l with
  | nil => simp
  | cons a l ih => simp only [List.map_cons, vsum_cons, ih]; ring

theorem sm_sm (a b : ℝ) (l : List ℝ) : sm a (sm b l) = sm (a * b) l := by
  simp only [List.map_map]; congr 1; funext x; simp only [Function.comp]; ring

theorem sm_one (l : List ℝ) : sm 1 l = l := by
  induction l with
  | nil => rfl
  | cons a l ih => simp only [sm, List.map_cons, one_mul] at ih ⊢; rw [ih]

theorem sqDist_sm (c : ℝ) (u v : List ℝ) : sqDist (sm c u) (sm c v) = c ^ 2 * sqDist u v := by
  unfold sqDist
  rw [vsub_sm, ← vsum_sm]
  congr 1
  simp only [List.map_map]
  congr 1; funext t; simp only [Function.comp]; ring

theorem sqDist_nonneg (u v : List ℝ) : 0 ≤ sqDist u v := by
  unfold sqDist
  generalize vsub v u = l
  induction l with
  | nil => simp
  | cons a l ih => simp only [List.map_cons, vsum_cons]; nlinarith [mul_self_nonneg a]

theorem dist_sm {c : ℝ} (hc : 0 < c) (u v : List ℝ) :
    Real.sqrt (sqDist (sm c u) (sm c v)) = c * Real.sqrt (sqDist u v) := by
  rw [sqDist_sm, Real.sqrt_mul (sq_nonneg c), Real.sqrt_sq hc.le]

theorem pSum_sm {c : ℝ} (hc : 0 < c) (a : ℝ) (Δ : List ℝ) : pSum a (sm c Δ) = c ^ a * pSum a Δ := by
  unfold pSum
  rw [← vsum_sm]
  congr 1
  simp only [List.map_map]
  congr 1; funext t
  simp only [Function.comp, rpow_real, abs_real, abs_mul, abs_of_pos hc]
  rw [Real.mul_rpow hc.le (abs_nonneg t)]

theorem pSum_nonneg (a : ℝ) (Δ : List ℝ) : 0 ≤ pSum a Δ := by
  unfold pSum
  induction Δ with
  | nil => simp
  | cons t l ih =>
    simp only [List.map_cons, vsum_cons, rpow_real, abs_real] at ih ⊢
    have := Real.rpow_nonneg (abs_nonneg t) a
    linarith

theorem pNorm_sm {c : ℝ} (hc : 0 < c) {p : ℝ} (hp : p ≠ 0) (Δ : List ℝ) : pNorm p (sm c Δ) = c * pNorm p Δ := by
  unfold pNorm
  simp only [rpow_real]
  rw [pSum_sm hc, Real.mul_rpow (Real.rpow_nonneg hc.le p) (pSum_nonneg p Δ), ← Real.rpow_mul hc.le,
    mul_one_div_cancel hp, Real.rpow_one]

theorem pNorm_nonneg (p : ℝ) (Δ : List ℝ) : 0 ≤ pNorm p Δ := by
  unfold pNorm; simp only [rpow_real]; exact Real.rpow_nonneg (pSum_nonneg p Δ) _

theorem sgnPow_sm {c : ℝ} (hc : 0 < c) (a t : ℝ) : sgnPow a (c * t) = c ^ a * sgnPow a t := by
  rw [sgnPow_eq, sgnPow_eq, abs_mul, abs_of_pos hc, Real.mul_rpow hc.le (abs_nonneg t), sign_mul, sign_pos hc]
  simp only [SignType.coe_mul, SignType.coe_one]
  ring

/-! ### kernel values are unchanged -/

theorem div_rpow_scale {c : ℝ} (hc : 0 < c) (q : ℝ) {L d : ℝ} (hL : 0 ≤ L) (hd : 0 ≤ d) :
    (c * d) ^ q / (c * L) ^ q = d ^ q / L ^ q := by
  rw [Real.mul_rpow hc.le hd, Real.mul_rpow hc.le hL]
  have : c ^ q ≠ 0 := (Real.rpow_pos_of_pos hc q).ne'
  field_simp

theorem kL2_scale {c : ℝ} (hc : 0 < c) (P : Params ℝ) (hL : 0 ≤ P.L) (u v : List ℝ) :
    kL2 (P.withL (c * P.L)) (sm c u) (sm c v) = kL2 P u v := by
  simp only [kL2, radial, withL_L, withL_q, sqrt_real, rpow_real, exp_real, dist_sm hc]
  rw [neg_div, neg_div, div_rpow_scale hc _ hL (Real.sqrt_nonneg _)]

theorem kProd_scale {c : ℝ} (hc : 0 < c) (P : Params ℝ) (hL : 0 ≤ P.L) (u v : List ℝ) :
    kProd (P.withL (c * P.L)) (sm c u) (sm c v) = kProd P u v := by
  simp only [kProd, withL_L, withL_q, rpow_real, exp_real, vsub_sm, pSum_sm hc]
  rw [Real.mul_rpow hc.le hL, neg_div, neg_div]
  have : c ^ P.q ≠ 0 := (Real.rpow_pos_of_pos hc _).ne'
  congr 2
  field_simp

theorem kLpq_scale {c : ℝ} (hc : 0 < c) (P : Params ℝ) (hL : 0 ≤ P.L) (hp : P.p ≠ 0) (u v : List ℝ) :
    kLpq (P.withL (c * P.L)) (sm c u) (sm c v) = kLpq P u v := by
  simp only [kLpq, withL_L, withL_q, withL_p, rpow_real, exp_real, vsub_sm, pNorm_sm hc hp]
  rw [neg_div, neg_div, div_rpow_scale hc _ hL (pNorm_nonneg _ _)]

/-! ### gradients of one kernel term are divided by `c` -/

theorem l2Factor_scale {c : ℝ} (hc : 0 < c) (P : Params ℝ) (hL : 0 ≤ P.L) {d : ℝ} (hd : 0 ≤ d) :
    l2Factor (P.withL (c * P.L)) (c * d) = c⁻¹ * c⁻¹ * l2Factor P d := by
  simp only [l2Factor, withL_L, withL_q, rpow_real, exp_real]
  have hexp : -(c * d) ^ P.q / (c * P.L) ^ P.q = -d ^ P.q / P.L ^ P.q := by
    rw [neg_div, neg_div, div_rpow_scale hc _ hL hd]
  rw [hexp, Real.mul_rpow hc.le hL, Real.mul_rpow hc.le hd, Real.rpow_sub hc, Real.rpow_two]
  have h1 : c ^ P.q ≠ 0 := (Real.rpow_pos_of_pos hc _).ne'
  have h2 : c ≠ 0 := hc.ne'
  field_simp

/-- The degree-1 quantity each coincidence mask compares with `eps`. -/
noncomputable def maskQ (k : Kind) (P : Params ℝ) (u v : List ℝ) : ℝ :=
  match k with
  | .l2 | .light => Real.sqrt (sqDist u v)
  | .prod => pNorm P.q (vsub v u)
  | .lpq => pNorm P.p (vsub v u)
  | .sumPower => 0

/-- The mask of kernel `k` fires for the pair `(u, v)` at scale `c` exactly when it fires at scale 1. -/
def MaskStable (c : ℝ) (k : Kind) (P : Params ℝ) (u v : List ℝ) : Prop :=
  maskQ k P u v < P.eps ↔ c * maskQ k P u v < P.eps

theorem map_zero_sm (a : ℝ) (l : List ℝ) : sm a (l.map fun _ => (0 : ℝ)) = l.map fun _ => (0 : ℝ) := by
  simp only [sm, List.map_map]; congr 1; funext x; simp

theorem gradL2_scale {c : ℝ} (hc : 0 < c) (P : Params ℝ) (hL : 0 ≤ P.L) (u v : List ℝ)
    (hm : MaskStable c .l2 P u v) :
    gradL2 (P.withL (c * P.L)) (sm c u) (sm c v) = sm c⁻¹ (gradL2 P u v) := by
  simp only [MaskStable, maskQ] at hm
  simp only [gradL2, sqrt_real, withL_eps, dist_sm hc, vsub_sm]
  by_cases h : Real.sqrt (sqDist u v) < P.eps
  · rw [if_pos h, if_pos (hm.mp h)]
    simp only [sm, List.map_map]; congr 1; funext x; simp
  · rw [if_neg h, if_neg (fun h' => h (hm.mpr h'))]
    rw [l2Factor_scale hc P hL (Real.sqrt_nonneg _)]
    simp only [sm, List.map_map]; congr 1; funext t
    simp only [Function.comp]
    have h2 : c ≠ 0 := hc.ne'
    field_simp

theorem gradProd_scale {c : ℝ} (hc : 0 < c) (P : Params ℝ) (hL : 0 ≤ P.L) (hq : P.q ≠ 0) (u v : List ℝ)
    (hm : MaskStable c .prod P u v) :
    gradProd (P.withL (c * P.L)) (sm c u) (sm c v) = sm c⁻¹ (gradProd P u v) := by
  simp only [MaskStable, maskQ] at hm
  simp only [gradProd, withL_eps, withL_q, withL_L, vsub_sm, pNorm_sm hc hq, kProd_scale hc P hL, rpow_real]
  by_cases h : pNorm P.q (vsub v u) < P.eps
  · rw [if_pos h, if_pos (hm.mp h)]
    simp only [sm, List.map_map]; congr 1; funext x; simp
  · rw [if_neg h, if_neg (fun h' => h (hm.mpr h'))]
    simp only [sm, List.map_map]; congr 1; funext t
    simp only [Function.comp]
    rw [sgnPow_sm hc, Real.mul_rpow hc.le hL, Real.rpow_sub hc, Real.rpow_one]
    have h1 : c ^ P.q ≠ 0 := (Real.rpow_pos_of_pos hc _).ne'
    have h2 : c ≠ 0 := hc.ne'
    field_simp

theorem gradLpq_scale {c : ℝ} (hc : 0 < c) (P : Params ℝ) (hL : 0 ≤ P.L) (hp : P.p ≠ 0) (u v : List ℝ)
    (hm : MaskStable c .lpq P u v) :
    gradLpq (P.withL (c * P.L)) (sm c u) (sm c v) = sm c⁻¹ (gradLpq P u v) := by
  simp only [MaskStable, maskQ] at hm
  simp only [gradLpq, withL_eps, withL_q, withL_p, withL_L, vsub_sm, pNorm_sm hc hp, kLpq_scale hc P hL hp, rpow_real]
  by_cases h : pNorm P.p (vsub v u) < P.eps
  · rw [if_pos h, if_pos (hm.mp h)]
    simp only [sm, List.map_map]; congr 1; funext x; simp
  · rw [if_neg h, if_neg (fun h' => h (hm.mpr h'))]
    simp only [sm, List.map_map]; congr 1; funext t
    simp only [Function.comp]
    rw [sgnPow_sm hc, Real.mul_rpow hc.le hL, Real.mul_rpow hc.le (pNorm_nonneg _ _), Real.rpow_sub hc, Real.rpow_sub hc,
      Real.rpow_one]
    have h1 : c ^ P.q ≠ 0 := (Real.rpow_pos_of_pos hc _).ne'
    have h3 : c ^ P.p ≠ 0 := (Real.rpow_pos_of_pos hc _).ne'
    have h2 : c ≠ 0 := hc.ne'
    field_simp

/-! ### transform, weighted sums -/

theorem sm_length (c : ℝ) (v : List ℝ) : (sm c v).length = v.length := by simp

theorem applyT_sm (c : ℝ) (T : Transform ℝ) (x : List ℝ) : applyT T (sm c x) = sm c (applyT T x) := by
  cases T with
  | none => rfl
  | diag t =>
    simp only [applyT, sm]
    rw [List.zipWith_map_left, List.map_zipWith]
    congr 1; funext a b; ring
  | full T =>
    simp only [applyT, sm_length]
    simp only [sm, List.map_map]
    apply List.map_congr_left
    intro e _
    simp only [Function.comp]
    rw [List.zipWith_map_left, ← vsum_sm]
    simp only [sm, List.map_zipWith]
    congr 1
    congr 1; funext a row; ring

theorem vadd_sm (a : ℝ) (x y : List ℝ) : vadd (sm a x) (sm a y) = sm a (vadd x y) := by
  unfold vadd sm
  rw [List.zipWith_map, List.map_zipWith]
  congr 1; funext p q; ring

theorem vzero_sm (a : ℝ) (n : ℕ) : sm a (vzero n) = (vzero n : List ℝ) := by
  simp [vzero, sm]

theorem sumRows_sm (a : ℝ) (n : ℕ) (rows : List (List ℝ)) :
    sumRows n (rows.map (sm a)) = sm a (sumRows n rows) := by
  unfold sumRows
  induction rows with
  | nil => simp only [List.map_nil, List.foldr_nil]; exact (vzero_sm a n).symm
  | cons r rows ih => simp only [List.map_cons, List.foldr_cons, ih, vadd_sm]

theorem vscale_sm (ci a : ℝ) (g : List ℝ) : vscale ci (sm a g) = sm a (vscale ci g) := by
  simp only [vscale, sm, List.map_map]; congr 1; funext x; simp only [Function.comp]; ring

/-- If every per-center gradient is divided by `c`, so is their coefficient-weighted sum. -/
theorem rowGrad_scale (a c : ℝ) (pg pg' : List ℝ → List ℝ → List ℝ) (coef : List ℝ) (us : List (List ℝ)) (v : List ℝ)
    (h : ∀ u ∈ us, pg' (sm c u) (sm c v) = sm a (pg u v)) :
    rowGrad pg' coef (us.map (sm c)) (sm c v) = sm a (rowGrad pg coef us v) := by
  unfold rowGrad
  rw [sm_length, ← sumRows_sm]
  congr 1
  induction us generalizing coef with
  | nil => simp
  | cons u us ih =>
    cases coef with
    | nil => simp
    | cons ci coef =>
      simp only [List.map_cons, List.zipWith_cons_cons]
      rw [h u (List.mem_cons_self), vscale_sm, ih coef fun u' hu' => h u' (List.mem_cons_of_mem _ hu')]

/-! ### the memory-light kernel (works with `M` on raw points) -/

theorem dot_sm_left (c : ℝ) (x y : List ℝ) : dot (sm c x) y = c * dot x y := by
  unfold dot
  rw [← vsum_sm]
  simp only [sm, List.zipWith_map_left, List.map_zipWith]
  congr 1; congr 1; funext a b; ring

theorem dot_sm_right (c : ℝ) (x y : List ℝ) : dot x (sm c y) = c * dot x y := by
  unfold dot
  rw [← vsum_sm]
  simp only [sm, List.zipWith_map_right, List.map_zipWith]
  congr 1; congr 1; funext a b; ring

theorem lightSq_sm (c : ℝ) (M : Transform ℝ) (x z : List ℝ) :
    lightSq M (sm c x) (sm c z) = c ^ 2 * lightSq M x z := by
  simp only [lightSq, vsub_sm, applyT_sm, dot_sm_left, dot_sm_right]
  have hc2 : 0 ≤ c ^ 2 := sq_nonneg c
  by_cases h : dot (vsub z x) (applyT M (vsub z x)) < 0
  · have h' : c * (c * dot (vsub z x) (applyT M (vsub z x))) ≤ 0 := by nlinarith
    rcases h'.lt_or_eq with h'' | h''
    · simp [h, h'']
    · simp only [h, if_true, h'', lt_irrefl, if_false, mul_zero]
  · have h' : ¬ c * (c * dot (vsub z x) (applyT M (vsub z x))) < 0 := by
      have := not_lt.mp h
      intro hh; nlinarith
    simp only [h, h', if_false]; ring

theorem lightSq_nonneg (M : Transform ℝ) (x z : List ℝ) : 0 ≤ lightSq M x z := by
  simp only [lightSq]; split_ifs with h
  · exact le_rfl
  · exact not_lt.mp h

theorem lightDist_sm {c : ℝ} (hc : 0 < c) (M : Transform ℝ) (x z : List ℝ) :
    Real.sqrt (lightSq M (sm c x) (sm c z)) = c * Real.sqrt (lightSq M x z) := by
  rw [lightSq_sm, Real.sqrt_mul (sq_nonneg c), Real.sqrt_sq hc.le]

/-- Mask of the memory-light kernel: on `√(Δ M Δᵀ)`. -/
def LightMaskStable (c : ℝ) (P : Params ℝ) (M : Transform ℝ) (x z : List ℝ) : Prop :=
  Real.sqrt (lightSq M x z) < P.eps ↔ c * Real.sqrt (lightSq M x z) < P.eps

theorem gradLight_scale {c : ℝ} (hc : 0 < c) (P : Params ℝ) (hL : 0 ≤ P.L) (M : Transform ℝ) (x z : List ℝ)
    (hm : LightMaskStable c P M x z) :
    gradLight (P.withL (c * P.L)) M (sm c x) (sm c z) = sm c⁻¹ (gradLight P M x z) := by
  simp only [LightMaskStable] at hm
  simp only [gradLight, sqrt_real, withL_eps, lightDist_sm hc, vsub_sm, applyT_sm]
  by_cases h : Real.sqrt (lightSq M x z) < P.eps
  · rw [if_pos h, if_pos (hm.mp h)]
    simp only [sm, List.map_map]; congr 1; funext t; simp
  · rw [if_neg h, if_neg (fun h' => h (hm.mpr h'))]
    rw [l2Factor_scale hc P hL (Real.sqrt_nonneg _)]
    simp only [sm, List.map_map]; congr 1; funext t
    simp only [Function.comp]
    have h2 : c ≠ 0 := hc.ne'
    field_simp

/-! ### all Laplace-family kernels, the whole gradient tensor -/

/-- Parameter guards under which the kernel is a Laplace-family kernel with a scalable bandwidth. -/
def ScaleOK (k : Kind) (P : Params ℝ) : Prop :=
  0 ≤ P.L ∧ match k with
  | .l2 | .light => True
  | .prod => P.q ≠ 0
  | .lpq => P.p ≠ 0
  | .sumPower => False

theorem pairGrad_scale {c : ℝ} (hc : 0 < c) (k : Kind) (P : Params ℝ) (hk : ScaleOK k P) (u v : List ℝ)
    (hm : MaskStable c k P u v) :
    pairGrad k (P.withL (c * P.L)) (sm c u) (sm c v) = sm c⁻¹ (pairGrad k P u v) := by
  obtain ⟨hL, hk⟩ := hk
  cases k with
  | l2 => exact gradL2_scale hc P hL u v hm
  | light => exact gradL2_scale hc P hL u v hm
  | prod => exact gradProd_scale hc P hL hk u v hm
  | lpq => exact gradLpq_scale hc P hL hk u v hm
  | sumPower => exact absurd hk id

/-- Masks stable for every (center, point) pair the gradient tensor is built from. -/
def AllMaskStable (c : ℝ) (k : Kind) (P : Params ℝ) (T : Transform ℝ) (xs zs : List (List ℝ)) : Prop :=
  ∀ x ∈ xs, ∀ z ∈ zs, match k with
    | .light => LightMaskStable c P T x z
    | _ => MaskStable c k P (applyT T x) (applyT T z)

/-- **Gradient homogeneity.**  `get_function_grads` on centers, points and bandwidth all rescaled by `c > 0`
returns the gradient tensor divided by `c` (every kernel of the Laplace family, every transform, every output). -/
theorem fgrad_scale {c : ℝ} (hc : 0 < c) (k : Kind) (P : Params ℝ) (hk : ScaleOK k P) (T : Transform ℝ)
    (xs zs : List (List ℝ)) (coefs : List (List ℝ)) (hm : AllMaskStable c k P T xs zs) :
    fgrad k (P.withL (c * P.L)) T (xs.map (sm c)) (zs.map (sm c)) coefs =
      (fgrad k P T xs zs coefs).map fun perOut => perOut.map (sm c⁻¹) := by
  have key : ∀ (coef : List ℝ) (z : List ℝ), z ∈ zs →
      (match k with
        | .light => rowGrad (gradLight (P.withL (c * P.L)) T) coef (xs.map (sm c)) (sm c z)
        | _ => applyT T (rowGrad (pairGrad k (P.withL (c * P.L))) coef (xs.map (applyT T ∘ sm c)) (applyT T (sm c z)))) =
      sm c⁻¹ (match k with
        | .light => rowGrad (gradLight P T) coef xs z
        | _ => applyT T (rowGrad (pairGrad k P) coef (xs.map (applyT T)) (applyT T z))) := by
    intro coef z hz
    cases k with
    | light =>
      exact rowGrad_scale c⁻¹ c _ _ coef xs z fun x hx => gradLight_scale hc P hk.1 T x z (hm x hx z hz)
    | l2 | prod | lpq | sumPower =>
      simp only []
      rw [← applyT_sm, applyT_sm c T z]
      congr 1
      have hmap : xs.map (applyT T ∘ sm c) = (xs.map (applyT T)).map (sm c) := by
        rw [List.map_map]; apply List.map_congr_left; intro x _; exact applyT_sm c T x
      rw [hmap]
      apply rowGrad_scale
      intro u hu
      obtain ⟨x, hx, rfl⟩ := List.mem_map.1 hu
      exact pairGrad_scale hc _ P hk _ _ (hm x hx z hz)
  cases k with
  | light =>
    simp only [fgrad, List.map_map]
    apply List.map_congr_left; intro coef _
    simp only [Function.comp]
    rw [List.map_map]
    apply List.map_congr_left; intro z hz
    exact key coef z hz
  | l2 | prod | lpq | sumPower =>
    simp only [fgrad, List.map_map]
    apply List.map_congr_left; intro coef _
    simp only [Function.comp]
    rw [List.map_map]
    apply List.map_congr_left; intro z hz
    exact key coef z hz

end Xrfmv.Grad
