/-
The kernel matrix computed through the **regenerated** pipelines of `Xrfmv.Gen.KernelOps` (translated on every run from
`_get_kernel_matrix_impl` of the five CPU kernel classes): which pipeline belongs to which kernel object and which attribute
values it reads.  `Props/C05.lean` (`gen_pipeline_eq_model`) proves at `ℝ` that this is the closed form of
`Model/Kernel.lean`; `Drv/C05.lean` runs it at `Float` against torch.
-/
import Xrfmv.Gen.KernelOps

namespace Xrfmv.KernelOps
open Xrfmv Xrfmv.Kernel

section
variable {α : Type} [Add α] [Sub α] [Mul α] [Div α] [Neg α] [OfNat α 0] [OfNat α 1] [OfNat α 2] [BEq α] [HasRpow α]

/-- attribute values of the kernel object `K`; `dim` = number of columns of the transformed points
(`x.shape[1]` inside the sum-power kernel).  Attributes a class does not have are never read by its pipeline. -/
def paramsOf (K : Spec α) (dim : α) : Params α :=
  match K with
  | .laplace q L | .light q L | .product q L =>
      { bandwidth := L, exponent := q, p := 0, constMix := 0, power := 0, dim := dim, eps := 0, baseBandwidth := 0 }
  | .lpq p q L => { bandwidth := L, exponent := q, p := p, constMix := 0, power := 0, dim := dim, eps := 0, baseBandwidth := 0 }
  | .sumPower q L c P => { bandwidth := L, exponent := q, p := 0, constMix := c, power := P, dim := dim, eps := 0, baseBandwidth := 0 }

/-- the regenerated `_get_kernel_matrix_impl` of the class of `K` -/
def pipelineOf (K : Spec α) (dim : α) : Pipeline α :=
  match K with
  | .laplace .. => Gen.KernelOps.laplace (paramsOf K dim)
  | .light .. => Gen.KernelOps.light (paramsOf K dim)
  | .product .. => Gen.KernelOps.product (paramsOf K dim)
  | .lpq .. => Gen.KernelOps.lpq (paramsOf K dim)
  | .sumPower .. => Gen.KernelOps.sumPower (paramsOf K dim)

/-- the regenerated bandwidth-use records, all five -/
def bandwidthUses : List BandwidthUse :=
  [Gen.KernelOps.laplaceBandwidthUse, Gen.KernelOps.lightBandwidthUse, Gen.KernelOps.productBandwidthUse,
   Gen.KernelOps.lpqBandwidthUse, Gen.KernelOps.sumPowerBandwidthUse]

end

section
variable {α : Type} [Add α] [Sub α] [Mul α] [Div α] [Neg α] [OfNat α 0] [OfNat α 1] [OfNat α 2] [BEq α]
  [Max α] [HasExp α] [HasRpow α] [HasAbs α] [HasSqrt α]

/-- `get_kernel_matrix(x, z, mat)` through the regenerated pipeline (`dim` as in `paramsOf`). -/
def genEntry (K : Spec α) (T : Transform α) (x z : List α) : α :=
  entry (pipelineOf K (count (applyT T x))) T x z

def genMatrix (K : Spec α) (T : Transform α) (xs zs : List (List α)) : List (List α) :=
  xs.map fun x => zs.map fun z => genEntry K T x z

end
end Xrfmv.KernelOps
