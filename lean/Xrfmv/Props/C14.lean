/-
C14 — Learned feature matrix is the normalised AGOP with a consistent square root.

Statements are about `Xrfmv.Agop` (`Model/Agop.lean`), the model the driver executes on `Float` and the correspondence
check compares with `RFM.fit_M` / `model.M` / `model.sqrtM` / `agop_best_model`.  `G` is the list of gradient rows
(outputs × points merged); a batching is a list of lists of rows.  Exact real arithmetic; the `1e-30` regulariser of the
normalisation is idealised to `0` and the `1e-8·I` jitter of the SVD is part of the check's allowance, not of the model.
The eigen-decomposition is an oracle `(U, s)` with contract `UᵀU = I`, `s ≥ 0`.
-/
import Xrfmv.Lemmas.Agop
import Xrfmv.Gen.FitM
import Mathlib.Tactic.NormNum
import Mathlib.Algebra.Order.Field.Rat

namespace Xrfmv.Props.C14
open Xrfmv.Agop Xrfmv.Grad

/-! ### batch accumulation -/

/-- **C14 `agop_batch_additive`** (full mode): without centring, accumulating the per-batch matrices over any
batching gives the AGOP of all rows — so any two partitions of the same rows into consecutive batches agree. -/
theorem agop_batch_additive (d : ℕ) (b₁ b₂ : List (List (List ℝ))) (h : b₁.flatten = b₂.flatten) :
    accumFull d false b₁ = agopFull d b₁.flatten ∧ accumFull d false b₁ = accumFull d false b₂ := by
  refine ⟨accumFull_uncentred d b₁, ?_⟩
  rw [accumFull_uncentred, accumFull_uncentred, h]

/-- **C14 `agop_batch_additive`, permutations**: the AGOP does not depend on the order of the rows either (hence
not on which points share a batch). -/
theorem agop_perm_invariant (d : ℕ) (G₁ G₂ : List (List ℝ)) (h : G₁.Perm G₂) :
    agopFull d G₁ = agopFull d G₂ ∧ agopDiag d G₁ = agopDiag d G₂ :=
  ⟨agopFull_perm d h, agopDiag_perm d h⟩

/-- **C14** diagonal analogue of batch additivity, and diagonal mode is the diagonal of the full AGOP. -/
theorem agop_batch_additive_diag (d : ℕ) (b₁ b₂ : List (List (List ℝ))) (h : b₁.flatten = b₂.flatten) :
    accumDiag d false b₁ = accumDiag d false b₂ ∧
    ∀ i < d, (accumDiag d false b₁).getD i 0 = entry (accumFull d false b₁) i i := by
  refine ⟨by rw [accumDiag_uncentred, accumDiag_uncentred, h], fun i hi => ?_⟩
  rw [accumDiag_uncentred, accumFull_uncentred]
  exact agopDiag_eq_diagonal d _ i hi

/-- Non-vacuity: two different batchings of the same three rows. -/
example : ([[[1, 0], [0, 1]], [[2, 1]]] : List (List (List ℝ))).flatten = [[[1, 0]], [[0, 1], [2, 1]]].flatten := rfl

/-! ### symmetry and positive semi-definiteness -/

/-- **C14 `agop_symm`**: the accumulated (uncentred or centred) matrix of one batch is symmetric, entry by entry. -/
theorem agop_symm (d : ℕ) (G : List (List ℝ)) (i j : ℕ) (hi : i < d) (hj : j < d) :
    entry (agopFull d G) i j = entry (agopFull d G) j i := by
  rw [entry_agopFull d G i j hi hj, entry_agopFull d G j i hj hi, gram_symm]

/-- **C14 `agop_psd`**: `xᵀ(GᵀG)x = Σ_rows (g·x)² ≥ 0`. -/
theorem agop_psd (d : ℕ) (G : List (List ℝ)) (x : Fin d → ℝ) :
    quad (agopMat d G) x = vsum (G.map fun g => (∑ i : Fin d, g.getD i 0 * x i) ^ 2) ∧ 0 ≤ quad (agopMat d G) x :=
  ⟨agopMat_quad d G x, agopMat_quad_nonneg d G x⟩

/-! ### largest entry, normalisation -/

/-- **C14 `psd_max_on_diag`**: for a symmetric matrix with non-negative quadratic form the largest entry is attained on
the diagonal and is `≥ 0` (indeed `|M_ij| ≤ (M_ii + M_jj)/2`). -/
theorem psd_max_on_diag {d : ℕ} (hd : 0 < d) (M : Fin d → Fin d → ℝ) (hs : ∀ i j, M i j = M j i)
    (hp : ∀ x, 0 ≤ quad M x) :
    (∀ i j, |M i j| ≤ (M i i + M j j) / 2) ∧ ∃ k : Fin d, 0 ≤ M k k ∧ ∀ i j, M i j ≤ M k k :=
  ⟨psd_entry_le M hs hp, psd_max_on_diag' hd M hs hp⟩

/-- The same for the AGOP of any rows (it is symmetric PSD by `agop_symm`, `agop_psd`). -/
theorem agop_max_on_diag {d : ℕ} (hd : 0 < d) (G : List (List ℝ)) :
    ∃ k : Fin d, 0 ≤ agopMat d G k k ∧ ∀ i j, agopMat d G i j ≤ agopMat d G k k :=
  psd_max_on_diag' hd (agopMat d G) (agopMat_symm d G) (agopMat_quad_nonneg d G)

/-- **C14 `normalised_max_one`** (the `1e-30` regulariser idealised to 0): a non-zero symmetric PSD matrix divided by
its largest entry has largest entry exactly 1, attained on the diagonal. -/
theorem normalised_max_one {d : ℕ} (hd : 0 < d) (M : Fin d → Fin d → ℝ) (hs : ∀ i j, M i j = M j i)
    (hp : ∀ x, 0 ≤ quad M x) (hne : ∃ i j, M i j ≠ 0) :
    ∃ k : Fin d, 0 < M k k ∧ (∀ i j, M i j ≤ M k k) ∧ M k k / M k k = 1 ∧ ∀ i j, M i j / M k k ≤ 1 :=
  normalised_max_one' hd M hs hp hne

/-- **C14 `normalised_max_one`, on the model**: if some gradient row has a non-zero coordinate then the AGOP's largest
entry is positive and `normalise` (with regulariser 0) produces a matrix whose largest entry is 1. -/
theorem normalised_max_one_model (d : ℕ) (G : List (List ℝ)) (g : List ℝ) (hg : g ∈ G) (i : ℕ) (hi : i < d)
    (hne : g.getD i 0 ≠ 0) :
    0 < maxEntry (agopFull d G) ∧ maxEntry (normalise 0 (agopFull d G)) = 1 := by
  have h := agop_maxEntry_pos d G g hg i hi hne
  exact ⟨h, maxEntry_normalise _ h⟩

/-- Diagonal analogue: a vector with positive largest entry, divided by it, has largest entry 1. -/
theorem normalised_max_one_diag (v : List ℝ) (hpos : 0 < maxList v) : maxList (normaliseVec 0 v) = 1 :=
  maxList_normaliseVec v hpos

/-- Non-vacuity: a symmetric PSD non-zero 2×2 matrix (`[[2,1],[1,2]]`, quadratic form `x₀²+x₁²+(x₀+x₁)²`). -/
example : ∃ M : Fin 2 → Fin 2 → ℝ, (∀ i j, M i j = M j i) ∧ (∀ x, 0 ≤ quad M x) ∧ ∃ i j, M i j ≠ 0 := by
  refine ⟨fun i j => if i = j then 2 else 1, fun i j => ?_, fun x => ?_, ⟨0, 0, by norm_num⟩⟩
  · by_cases h : i = j
    · subst h; rfl
    · have h' : ¬ j = i := fun e => h e.symm
      simp [h, h']
  · unfold quad
    simp only [Fin.sum_univ_two]
    have : (0 : Fin 2) ≠ 1 := by decide
    simp only [if_true, if_neg this, if_neg this.symm]
    nlinarith [sq_nonneg (x 0), sq_nonneg (x 1), sq_nonneg (x 0 + x 1)]

/-! ### the stored root -/

open Matrix in
/-- **C14 `root_squares_back`**: for an oracle decomposition with `UᵀU = I`, `s ≥ 0` the matrix `U·diag(√s)·Uᵀ` squares
back to `U·diag(s)·Uᵀ`. -/
theorem root_squares_back {d : ℕ} (U : Matrix (Fin d) (Fin d) ℝ) (s : Fin d → ℝ) (hU : Uᵀ * U = 1)
    (hs : ∀ i, 0 ≤ s i) :
    (U * Matrix.diagonal (fun i => Real.sqrt (s i)) * Uᵀ) * (U * Matrix.diagonal (fun i => Real.sqrt (s i)) * Uᵀ)
      = U * Matrix.diagonal s * Uᵀ :=
  root_squares_back' U s hU hs

open Matrix in
/-- **C14 `root_squares_back`, on the model**: the list-level root `rootFromEig` (what the driver executes) of an
oracle decomposition with `UᵀU = I`, `s ≥ 0`, read as a matrix, squares back to `U·diag(s)·Uᵀ`. -/
theorem root_model_squares_back {d : ℕ} (U : Matrix (Fin d) (Fin d) ℝ) (s : Fin d → ℝ) (hU : Uᵀ * U = 1)
    (hs : ∀ i, 0 ≤ s i) :
    let R : Matrix (Fin d) (Fin d) ℝ :=
      fun i j => entry (rootFromEig (List.ofFn fun a => List.ofFn (U a)) (List.ofFn s)) i j
    R * R = U * Matrix.diagonal s * Uᵀ := by
  intro R
  have hR : R = U * Matrix.diagonal (fun i => Real.sqrt (s i)) * Uᵀ := by
    ext i j; exact rootFromEig_entry U s hs i j
  rw [hR]
  exact root_squares_back' U s hU hs

/-- Diagonal analogue: the entrywise root of a non-negative vector squares back to it. -/
theorem root_squares_back_diag (m : List ℝ) (h : ∀ x ∈ m, 0 ≤ x) : (rootDiag m).map (fun x => x * x) = m :=
  rootDiag_squares m h

/-- Non-vacuity: the identity decomposition. -/
example : ((1 : Matrix (Fin 2) (Fin 2) ℝ)).transpose * 1 = 1 := by simp

/-! ### negative result: per-batch centring -/

def w1 : List ℚ := [1, 0]
def w2 : List ℚ := [0, 1]
def w3 : List ℚ := [2, 1]
def w4 : List ℚ := [3, -1]

/-- **C14 negative result `centred_per_batch_depends_on_partition`**: with `center_grads` the column mean is subtracted
per batch, so two batchings of the *same* four rows give different matrices — raw, normalised and in diagonal mode —
while the uncentred accumulation agrees.  Concrete witness over `ℚ`: rows `(1,0),(0,1),(2,1),(3,−1)`, one batch versus
two batches of two. -/
theorem centred_per_batch_depends_on_partition :
    ∃ (d : ℕ) (b₁ b₂ : List (List (List ℚ))), b₁.flatten = b₂.flatten ∧
      accumFull d false b₁ = accumFull d false b₂ ∧
      accumFull d true b₁ ≠ accumFull d true b₂ ∧
      normalise 0 (accumFull d true b₁) ≠ normalise 0 (accumFull d true b₂) ∧
      accumDiag d true b₁ ≠ accumDiag d true b₂ := by
  have e1 : accumFull 2 true [[w1, w2, w3, w4]] = [[5, -5 / 2], [-5 / 2, 11 / 4]] := by
    simp [accumFull, batchFull, centre, colMean, agopFull, madd, mzero, vzero, vadd, vsub, vsum, sumRows, lenS,
      List.range_succ, w1, w2, w3, w4]
    norm_num
  have e2 : accumFull 2 true [[w1, w2], [w3, w4]] = [[1, -3 / 2], [-3 / 2, 5 / 2]] := by
    simp [accumFull, batchFull, centre, colMean, agopFull, madd, mzero, vzero, vadd, vsub, vsum, sumRows, lenS,
      List.range_succ, w1, w2, w3, w4]
    norm_num
  have d1 : accumDiag 2 true [[w1, w2, w3, w4]] = [5, 11 / 4] := by
    simp [accumDiag, batchDiag, centre, colMean, agopDiag, vzero, vadd, vsub, vsum, sumRows, lenS,
      List.range_succ, w1, w2, w3, w4]
    norm_num
  have d2 : accumDiag 2 true [[w1, w2], [w3, w4]] = [1, 5 / 2] := by
    simp [accumDiag, batchDiag, centre, colMean, agopDiag, vzero, vadd, vsub, vsum, sumRows, lenS,
      List.range_succ, w1, w2, w3, w4]
    norm_num
  have n1 : normalise 0 ([[5, -5 / 2], [-5 / 2, 11 / 4]] : List (List ℚ)) = [[1, -1 / 2], [-1 / 2, 11 / 20]] := by
    simp [normalise, maxEntry, maxList]
    norm_num
  have n2 : normalise 0 ([[1, -3 / 2], [-3 / 2, 5 / 2]] : List (List ℚ)) = [[2 / 5, -3 / 5], [-3 / 5, 1]] := by
    simp [normalise, maxEntry, maxList]
    norm_num
  refine ⟨2, [[w1, w2, w3, w4]], [[w1, w2], [w3, w4]], rfl, ?_, ?_, ?_, ?_⟩
  · simp [accumFull, batchFull, agopFull, madd, mzero, vzero, vadd, vsum, List.range_succ, w1, w2, w3, w4]
  · rw [e1, e2]; intro h; simp at h
  · rw [e1, e2, n1, n2]; intro h; simp at h; norm_num at h
  · rw [d1, d2]; intro h; simp at h

/-- **C14 (sub-sampling limit inactive)** `fit_M` adds the first `numBatches = 1 + total_points_to_sample // M_batch_size`
consecutive chunks of `M_batch_size` points (regenerated `Gen.FitM`).  Whenever `n ≤ total_points_to_sample` these chunks
contain all `n` training points for EVERY batch size `≥ 1`, so the accumulated matrix is the sum over all points and, by
`agop_batch_additive`, does not depend on the batch size.  (Above the limit the number of points used does depend on the
batch size; that is the documented sub-sampling, outside the property.) -/
theorem all_points_used (n total bs : ℕ) (hbs : 1 ≤ bs) (hn : n ≤ total) :
    n ≤ Xrfmv.Gen.FitM.numBatches total bs * bs ∧
    Xrfmv.Gen.FitM.batchesAreConsecutiveChunks = true ∧ Xrfmv.Gen.FitM.everyUsedBatchAddedOnce = true := by
  refine ⟨?_, rfl, rfl⟩
  unfold Xrfmv.Gen.FitM.numBatches
  have h1 := Nat.div_add_mod total bs
  have h2 := Nat.mod_lt total (by omega : bs > 0)
  rw [Nat.add_mul, Nat.one_mul, Nat.mul_comm (total / bs) bs]
  omega


/-- **C14 (normalisation with the regulariser kept)**: for `jitter = j ≥ 0` (the code's `1e-30`) the largest entry of the
stored matrix is `m/(m+j)` with `m` the largest entry of the raw AGOP, i.e. within `j/m` of one: the idealisation
`j = 0` of `normalised_max_one` costs at most `1e-30/m`. -/
theorem normalised_max_with_jitter (M : List (List ℝ)) (j : ℝ) (hj : 0 ≤ j) (hpos : 0 < Xrfmv.Agop.maxEntry M) :
    Xrfmv.Agop.maxEntry (Xrfmv.Agop.normalise j M) = Xrfmv.Agop.maxEntry M / (Xrfmv.Agop.maxEntry M + j) ∧
    |Xrfmv.Agop.maxEntry (Xrfmv.Agop.normalise j M) - 1| ≤ j / Xrfmv.Agop.maxEntry M := by
  have h := Xrfmv.Agop.maxEntry_normalise_jitter M j hj hpos
  exact ⟨h, by rw [h]; exact Xrfmv.Agop.normalise_jitter_close _ _ hpos hj⟩

end Xrfmv.Props.C14
