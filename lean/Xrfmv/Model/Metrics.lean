/-
Model of the tuning metrics of `xrfm/rfm_src/metrics.py` (classes MSE, RMSE, MAE, Accuracy, Brier, AUC,
F1, Logloss).  Mathlib-free and executable.

* value metrics (`mse`, `mae`, `brier`) are scalar-generic: the driver evaluates them *exactly* at core
  `Rat` (every finite float is a dyadic rational) and at `Float`; the theorems are proved over an arbitrary
  linearly ordered field (hence at `ℝ` and `ℚ`);
* `rmse`, `logloss` are scalar-generic with `HasSqrt` / `HasLog` (run at `Float`, proved at `ℝ`);
* counting metrics (`accuracy`, `f1`, `auc`) compare scores through `<` only and return an exact `Rat`.

Regression arrays are matrices `samples × outputs`, probability arrays are `samples × classes`, labels are
`Nat`s.  The direction flags are not written here: `shouldMaximize` looks them up in the table
`Xrfmv.Gen.Metrics.flags`, regenerated from the source on every run.

Totalisation (guarded in the theorems, rejected by the driver): empty arrays (`x / 0 = 0`), ragged rows,
labels `≥` number of classes (`getD`), unequal lengths (`zip` truncates).
-/
import Xrfmv.Scalar
import Xrfmv.Gen.Metrics

namespace Xrfmv.Metrics

/-! ### direction flags (regenerated table) -/

/-- `Metric.from_name(name).should_maximize`, read from the regenerated table. -/
def shouldMaximize (name : String) : Option Bool := Xrfmv.Gen.Metrics.flags.lookup name

/-- `required_quantities` of the metric class, from the regenerated table. -/
def requiredQuantities (name : String) : Option (List String) := Xrfmv.Gen.Metrics.required.lookup name

/-- `task_types` of the metric class, from the regenerated table. -/
def taskTypes (name : String) : Option (List String) := Xrfmv.Gen.Metrics.taskTypes.lookup name

/-- The eight built-in tuning metrics the property quantifies over. -/
def builtin : List String := ["mse", "rmse", "mae", "accuracy", "brier", "logloss", "f1", "auc"]

section Generic
variable {α : Type}

/-! ### sums, means -/

def sumL [Add α] [OfNat α 0] : List α → α
  | [] => 0
  | x :: xs => x + sumL xs

/-- entrywise `(y - p)²` (`(y - p).square()`); the driver rejects unequal shapes. -/
def sqDiffs [Sub α] [Mul α] : List α → List α → List α
  | y :: ys, p :: ps => (y - p) * (y - p) :: sqDiffs ys ps
  | _, _ => []

/-- entrywise `|y - p|`. -/
def absDiffs [Sub α] [HasAbs α] : List α → List α → List α
  | y :: ys, p :: ps => HasAbs.abs (y - p) :: absDiffs ys ps
  | _, _ => []

/-- `.mean()` of the flattened tensor: sum over the number of entries of the prediction. -/
def mseFlat [Add α] [Sub α] [Mul α] [Div α] [OfNat α 0] [NatCast α] (y p : List α) : α :=
  sumL (sqDiffs y p) / ((p.length : Nat) : α)

def maeFlat [Add α] [Sub α] [Div α] [OfNat α 0] [NatCast α] [HasAbs α] (y p : List α) : α :=
  sumL (absDiffs y p) / ((p.length : Nat) : α)

/-! ### regression metrics (`samples × outputs` matrices) -/

/-- `MSE._compute`: `(y_true_reg - y_pred).square().mean()`. -/
def mse [Add α] [Sub α] [Mul α] [Div α] [OfNat α 0] [NatCast α] (Y P : List (List α)) : α :=
  mseFlat Y.flatten P.flatten

/-- `RMSE._compute`: `(...).square().mean().sqrt()`. -/
def rmse [Add α] [Sub α] [Mul α] [Div α] [OfNat α 0] [NatCast α] [HasSqrt α] (Y P : List (List α)) : α :=
  HasSqrt.sqrt (mse Y P)

/-- `MAE._compute`: `(y_true_reg - y_pred).abs().mean()`. -/
def mae [Add α] [Sub α] [Div α] [OfNat α 0] [NatCast α] [HasAbs α] (Y P : List (List α)) : α :=
  maeFlat Y.flatten P.flatten

/-! ### arg-max, one-hot -/

/-- (index, value) of the FIRST maximal entry of `x :: xs` (`torch.argmax`). -/
def argmaxV [LT α] [DecidableLT α] : α → List α → Nat × α
  | x, [] => (0, x)
  | x, y :: ys =>
    let r := argmaxV y ys
    if x < r.2 then (r.1 + 1, r.2) else (0, x)

def argmax [LT α] [DecidableLT α] : List α → Nat
  | [] => 0
  | x :: xs => (argmaxV x xs).1

/-- `y_pred_proba.argmax(dim=-1)`. -/
def predLabels [LT α] [DecidableLT α] (P : List (List α)) : List Nat := P.map argmax

/-- entries `j, j+1, …, j+n-1` of the indicator row of class `c`. -/
def oneHotFrom [OfNat α 0] [OfNat α 1] (c : Nat) : Nat → Nat → List α
  | _, 0 => []
  | j, n + 1 => (if j = c then 1 else 0) :: oneHotFrom c (j + 1) n

/-- `one_hot(c, num_classes=K)`. -/
def oneHot [OfNat α 0] [OfNat α 1] (K c : Nat) : List α := oneHotFrom c 0 K

/-- Perfect probabilistic predictions: the one-hot rows of the labels. -/
def perfect [OfNat α 0] [OfNat α 1] (K : Nat) (y : List Nat) : List (List α) := y.map (oneHot K)

/-- `y_pred_proba.shape[-1]`. -/
def numClasses : List (List α) → Nat
  | [] => 0
  | r :: _ => r.length

/-! ### accuracy -/

/-- number of positions where the two label lists agree. -/
def agree : List Nat → List Nat → Nat
  | y :: ys, h :: hs => (if y = h then 1 else 0) + agree ys hs
  | _, _ => 0

/-- accuracy of hard labels; the denominator is the number of predictions (`shape[-2]`). -/
def accuracyL (y h : List Nat) : Rat := (agree y h : Rat) / (h.length : Rat)

/-- `Accuracy._compute`. -/
def accuracy [LT α] [DecidableLT α] (y : List Nat) (P : List (List α)) : Rat :=
  accuracyL y (predLabels P)

/-! ### Brier -/

/-- `Brier._compute`: mean over samples × classes of `(one_hot(y) - proba)²` – i.e. the MSE against the
one-hot matrix (for two classes this is sklearn's `brier_score_loss`; for `K` classes it is the classical
multi-class Brier score divided by `K`). -/
def brier [Add α] [Sub α] [Mul α] [Div α] [OfNat α 0] [OfNat α 1] [NatCast α]
    (y : List Nat) (P : List (List α)) : α :=
  mse (perfect (numClasses P) y) P

/-! ### F1 (sklearn `f1_score`, `zero_division` → 0) -/

def tp (c : Nat) : List Nat → List Nat → Nat
  | y :: ys, h :: hs => (if y = c ∧ h = c then 1 else 0) + tp c ys hs
  | _, _ => 0

def fp (c : Nat) : List Nat → List Nat → Nat
  | y :: ys, h :: hs => (if y ≠ c ∧ h = c then 1 else 0) + fp c ys hs
  | _, _ => 0

def fn (c : Nat) : List Nat → List Nat → Nat
  | y :: ys, h :: hs => (if y = c ∧ h ≠ c then 1 else 0) + fn c ys hs
  | _, _ => 0

/-- F1 of class `c` against the rest: `2tp / (2tp + fp + fn)`, `0` when the denominator vanishes. -/
def f1Class (c : Nat) (y h : List Nat) : Rat :=
  if 2 * tp c y h + fp c y h + fn c y h = 0 then 0
  else ((2 * tp c y h : Nat) : Rat) / ((2 * tp c y h + fp c y h + fn c y h : Nat) : Rat)

/-- `average='binary'` (positive class 1) for two classes, otherwise `average='macro'` over `0..K-1`
(sklearn averages over the labels that occur; these are `0..K-1` when every class is present). -/
def f1L (K : Nat) (y h : List Nat) : Rat :=
  if K = 2 then f1Class 1 y h
  else sumL ((List.range K).map fun c => f1Class c y h) / (K : Rat)

/-- `F1._compute`. -/
def f1 [LT α] [DecidableLT α] (y : List Nat) (P : List (List α)) : Rat :=
  f1L (numClasses P) y (predLabels P)

/-! ### AUC (pair counting, ties count ½; all counts doubled) -/

/-- 2 if the positive `a` is scored above the negative `b`, 1 on a tie, 0 otherwise. -/
def pairScore [LT α] [DecidableLT α] (a b : α) : Nat :=
  if b < a then 2 else if a < b then 0 else 1

def pairRow [LT α] [DecidableLT α] (a : α) : List α → Nat
  | [] => 0
  | b :: bs => pairScore a b + pairRow a bs

def pairSum [LT α] [DecidableLT α] : List α → List α → Nat
  | [], _ => 0
  | a :: as, neg => pairRow a neg + pairSum as neg

/-- AUC of positive scores against negative scores (Mann–Whitney). -/
def aucPN [LT α] [DecidableLT α] (pos neg : List α) : Rat :=
  (pairSum pos neg : Rat) / ((2 * (pos.length * neg.length) : Nat) : Rat)

/-- scores of the samples whose label is `c` (`eq = true`) / is not `c` (`eq = false`). -/
def sel (c : Nat) (eq : Bool) : List Nat → List α → List α
  | y :: ys, s :: ss => if decide (y = c) = eq then s :: sel c eq ys ss else sel c eq ys ss
  | _, _ => []

/-- column `c` of the probability matrix (`probas[:, c]`). -/
def column [OfNat α 0] (c : Nat) (P : List (List α)) : List α := P.map fun r => r.getD c 0

/-- one-vs-rest AUC of class `c`. -/
def aucClass [LT α] [DecidableLT α] (c : Nat) (y : List Nat) (s : List α) : Rat :=
  aucPN (sel c true y s) (sel c false y s)

/-- `AUC._compute`: `roc_auc_score(y, probas[:, 1])` for two classes, otherwise `multi_class='ovr'` with the
default unweighted (macro) mean over the classes. -/
def auc [LT α] [DecidableLT α] [OfNat α 0] (y : List Nat) (P : List (List α)) : Rat :=
  if numClasses P = 2 then aucClass 1 y (column 1 P)
  else sumL ((List.range (numClasses P)).map fun c => aucClass c y (column c P)) / (numClasses P : Rat)

/-! ### log-loss -/

/-- `-log p[i, y_i]` per sample. -/
def nll [Neg α] [OfNat α 0] [HasLog α] : List Nat → List (List α) → List α
  | y :: ys, r :: rs => (- HasLog.log (r.getD y 0)) :: nll ys rs
  | _, _ => []

/-- `Logloss._compute`: sklearn `log_loss` with `labels = 0..K-1`, without its clipping to
`[eps, 1 - eps]` (inactive for entries in `[1e-6, 1 - eps]`). -/
def logloss [Add α] [Neg α] [Div α] [OfNat α 0] [NatCast α] [HasLog α] (y : List Nat) (P : List (List α)) : α :=
  sumL (nll y P) / ((P.length : Nat) : α)

end Generic

/-- `|x|` on exact rationals (used by the driver for `mae`). -/
instance : HasAbs Rat := ⟨fun x => if x < 0 then -x else x⟩

end Xrfmv.Metrics
