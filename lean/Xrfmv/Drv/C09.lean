/- Driver ops for C09: the tree cache (stack machine) and the soft-routing mixture on `Float`. -/
import Xrfmv.Drv.Common
import Xrfmv.Model.Soft

open Lean Xrfmv.Drv

namespace Xrfmv.Drv.C09
open Xrfmv.Soft

/-- `{"leaf": id}` | `{"dir": [bits], "thr": bits, "scale": bits, "left": tree, "right": tree}` -/
partial def parseTree (j : Json) : Except String (Tree Float Nat) := do
  match j.getObjVal? "leaf" with
  | .ok v =>
      let m ← (fromJson? v : Except String Nat)
      pure (.leaf m)
  | .error _ =>
      let dir ← getFs j "dir"
      let thr ← getF j "thr"
      let scale ← getF j "scale"
      let l ← parseTree (← j.getObjVal? "left")
      let r ← parseTree (← j.getObjVal? "right")
      pure (.node { dir := dir.toList, thr := thr, scale := scale } l r)

def pathJson (p : Path) : Json := toJson (p.map fun e => Json.arr #[toJson e.1, toJson e.2])

def gateJson (g : Gate Float) : Json :=
  Json.mkObj [("dir", fsJson g.dir.toArray), ("thr", fJson g.thr), ("scale", fJson g.scale)]

def cacheJson (c : Cache Float Nat) : List (String × Json) :=
  [("leaf_order", toJson (c.leaves.map fun e => e.1)),
   ("leaf_models", toJson (c.leaves.map fun e => e.2.1)),
   ("leaf_paths", toJson (c.leaves.map fun e => pathJson e.2.2)),
   ("node_ids", toJson (c.gates.map fun e => e.1)),
   ("gates", toJson (c.gates.map fun e => gateJson e.2))]

/-- (a) the cache of a tree: leaf order, models, paths, node ids, gates. -/
def opCache : Handler := fun j => do
  let t ← parseTree (← j.getObjVal? "tree")
  let c := buildCache t
  pure <| Json.mkObj (cacheJson c ++
    [("n_leaves", toJson t.nleaves), ("n_nodes", toJson t.nodes), ("depth", toJson t.depth),
     ("spec_models", toJson ((pathsSpec t).map fun e => e.1)),
     ("spec_flags", toJson ((pathsSpec t).map fun e => e.2.map fun ge => ge.2))])

def allDirs : Tree Float Nat → List (List Float)
  | .leaf _ => []
  | .node g l r => g.dir :: (allDirs l ++ allDirs r)

/-- (b) weights, active set and mixture of given rows; `preds[m][row][coord]` = prediction of leaf model `m`. -/
def opSoft : Handler := fun j => do
  let t ← parseTree (← j.getObjVal? "tree")
  let rows ← getFss j "rows"
  let T ← getF j "T"
  let keep ← getF j "keep"
  let cap ← j.getObjValAs? Nat "cap"
  let predsBits ← j.getObjValAs? (Array (Array (Array Nat))) "preds"
  let preds := predsBits.map fun a => a.map fun r => r.map bitsToFloat
  if T.isNaN || Gen.Soft.rejectT T then throw "bad-op: split_temperature must be positive"
  if cap < 1 then throw "bad-op: max_leaf_count_in_ensemble must be at least 1"
  if keep.isNaN || keep < 0.0 || keep > 1.0 then throw "bad-op: keep_weight_frac_in_predict must lie in [0, 1]"
  let d := match rows[0]? with | some r => r.size | none => 0
  if rows.any (fun r => r.size != d) then throw "bad-op: ragged rows"
  if rows.size > 0 && (allDirs t).any (fun v => v.length != d) then throw "bad-op: direction/row dimension mismatch"
  let c := buildCache t
  let n := c.leaves.length
  if c.leaves.any (fun e => e.2.1 ≥ preds.size) then throw "bad-op: no predictions for a leaf model"
  let k := match preds[0]? with
    | some p => (match p[0]? with | some r => r.size | none => 0)
    | none => 0
  if preds.any (fun p => p.size != rows.size || p.any (fun r => r.size != k)) then
    throw "bad-op: Leaf predictions have inconsistent output dimensions"
  let mut out : Array Json := #[]
  for i in [0:rows.size] do
    let x := rows[i]!.toList
    let lps := rowLogPs T c x
    let clamped := lps.map Gen.Soft.clampLog
    let w := leafWeights lps
    let perm := sortPerm w
    let sortedW := perm.map (fun l => w.getD l 0)
    let cum := cumsumFrom 0 sortedW
    let kc := keepCount keep cap n sortedW
    let fw := finalWeights keep cap w perm
    let coords := (List.range k).map fun q =>
      let f := c.leaves.map fun e => ((preds[e.2.1]!)[i]!)[q]!
      mixture keep cap lps perm f
    out := out.push <| Json.mkObj
      [("logp", fsJson lps.toArray), ("clamped", fsJson clamped.toArray), ("weights", fsJson w.toArray),
       ("perm", toJson perm), ("cum", fsJson cum.toArray), ("keep_count", toJson kc),
       ("kept", toJson (keptIdx perm kc)), ("active", toJson fw.1), ("final", fsJson fw.2.toArray),
       ("out", fsJson coords.toArray), ("hard_index", toJson (hardIndex x t)), ("hard_model", toJson (hardRoute x t))]
  pure <| Json.mkObj (cacheJson c ++ [("rows", Json.arr out)])

/-- hard/soft dispatch of `_predict_tree`. -/
def opDispatch : Handler := fun j => do
  let isNone ← j.getObjValAs? Bool "none"
  let T ← if isNone then pure 0.0 else getF j "T"
  pure <| Json.mkObj [("hard", toJson (Gen.Soft.routeHard isNone (T == 0.0)))]

def ops : List (String × Handler) := [("cache", opCache), ("soft", opSoft), ("dispatch", opDispatch)]

end Xrfmv.Drv.C09
