/-
Driver ops for C12: the ops of C13 (codec on `Float`) plus

  ensemble {mode, eps, invA?, trees: [{kind:"hard", raw: rows×m} | {kind:"soft", w: rows×L, raws: L×rows×m}]}
     -> probs      rows×K   `xRFM.predict_proba`: mean over trees of (leaf decode | Σ_l w_l · leaf decode)
        rawMean    rows×m   mean over trees of the raw outputs (what `xRFM.predict` decodes)
        labelProbs rows×K   decode of `rawMean`
        labels     rows     its arg-max (`xRFM.predict`)
Rejected (`bad-op`): no tree, ragged / wrongly sized / non-finite arrays, eps outside (0,1), K < 2.
-/
import Xrfmv.Drv.C13

open Lean Xrfmv.Drv Xrfmv.Codec Xrfmv.Drv.C13

namespace Xrfmv.Drv.C12

inductive TreeJ where
  | hard (raw : Array (Array Float))
  | soft (L : Nat) (w : Array (Array Float)) (raws : Array (Array (Array Float)))

def getFsss (j : Json) (k : String) : Except String (Array (Array (Array Float))) := do
  let a ← j.getObjValAs? (Array (Array (Array Nat))) k
  pure (a.map fun m => m.map fun r => r.map bitsToFloat)

def parseTree (rows m : Nat) (j : Json) : Except String TreeJ := do
  let kind ← j.getObjValAs? String "kind"
  match kind with
  | "hard" =>
    let raw ← getFss j "raw"
    checkMat "raw" raw rows m
    pure (.hard raw)
  | "soft" =>
    let w ← getFss j "w"
    let raws ← getFsss j "raws"
    let L := raws.size
    if L == 0 then throw "bad-op: soft tree without leaves"
    checkMat "w" w rows L
    for r in raws do
      checkMat "raws" r rows m
    pure (.soft L w raws)
  | _ => throw "bad-op: unknown tree kind"

def TreeJ.at (m : Nat) (i : Nat) : TreeJ → TreeAt Float m
  | .hard raw => .hard (toVec (raw.getD i #[]) m)
  | .soft L w raws => .soft L (toVec (w.getD i #[]) L) (fun l => toVec ((raws.getD l.val #[]).getD i #[]) m)

def ensembleRows (n m rows : Nat) (P : Vec Float m → Vec Float (n + 1)) (trees : Array TreeJ) : Json :=
  let T := trees.size
  let view (i : Nat) : Fin T → TreeAt Float m := fun t => (trees.getD t.val (.hard #[])).at m i
  let idx := Array.range rows
  Json.mkObj [
    ("probs", fssJson (idx.map fun i => ofVec (predictProba P (view i)))),
    ("rawMean", fssJson (idx.map fun i => ofVec (predictRaw (view i)))),
    ("labelProbs", fssJson (idx.map fun i => ofVec (P (predictRaw (view i))))),
    ("labels", toJson (idx.map fun i => (predictLabel P (view i)).val))]

def opEnsemble : Handler := fun j => do
  let mode ← j.getObjValAs? String "mode"
  let eps ← getEps j
  let rows ← j.getObjValAs? Nat "rows"
  let tj ← j.getObjValAs? (Array Json) "trees"
  if tj.size == 0 then throw "bad-op: no tree"
  match mode with
  | "prevalence" =>
    let ia ← getFss j "invA"
    if ia.size < 2 then throw "bad-op: n_classes < 2"
    let n := ia.size - 1
    checkMat "invA" ia (n + 1) (n + 1)
    let invA := toMat ia (n + 1) (n + 1)
    let trees ← tj.mapM (parseTree rows n)
    pure (ensembleRows n n rows (probasPrevInv eps invA) trees)
  | "zero_one" =>
    let m ← j.getObjValAs? Nat "width"
    if m == 0 then throw "bad-op: empty decoder rows"
    if m == 1 then
      let trees ← tj.mapM (parseTree rows 1)
      pure (ensembleRows 1 1 rows (probasBinary eps) trees)
    else
      let n := m - 1
      let trees ← tj.mapM (parseTree rows (n + 1))
      pure (ensembleRows n (n + 1) rows (probasMulti eps) trees)
  | _ => throw "bad-op: unknown mode"

def ops : List (String × Handler) := Xrfmv.Drv.C13.ops ++ [("ensemble", opEnsemble)]

end Xrfmv.Drv.C12
