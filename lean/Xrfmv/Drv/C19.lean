/- Driver ops for C19: pairwise distances of the transformed centers in the kernel's own norm, their
lower/upper median and the adapted bandwidth (`Xrfmv.Median` at `Float`); plus the kernel ops of C05. -/
import Xrfmv.Drv.Common
import Xrfmv.Drv.C05
import Xrfmv.Model.Median
import Xrfmv.Model.AgopStep

open Lean Xrfmv.Drv

namespace Xrfmv.Drv.C19
open Xrfmv.Kernel Xrfmv.Median

/-- `{"op":"median_bandwidth", kind, q, p?, "L": base bandwidth, "eps": guard, transform, "x": centers,
"dists": bool}` → lower/upper median of the off-diagonal distances, adapted bandwidth `base × median`
(with the `< eps → 1` guard).  Rejected (`bad-op`): sum-power kernel (no adaptive mode: the code raises
`ValueError`), fewer than two centers, a NaN distance. -/
def opMedianBandwidth : Handler := fun j => do
  let K ← C05.getSpec j
  if K.isSumPower then throw "bad-op: adaptive bandwidth is not supported for SumPowerLaplaceKernel (ValueError)"
  if !K.accepted then throw "bad-op: parameters rejected by the constructor (AssertionError)"
  let xs := C05.rows (← getFss j "x")
  let d := (xs.head?.map List.length).getD 0
  if !C05.rect d xs then throw "bad-op: rows of x must have one common length"
  let T ← C05.getTransform j d
  let eps ← getF j "eps"
  let ds := pairDists (dist K T) xs
  if ds.any Float.isNaN then throw "bad-op: NaN distance"
  match lowerMedian ds, upperMedian ds, adapt eps K.L ds with
  | some lo, some hi, some bw =>
    let wantDists := (j.getObjValAs? Bool "dists").toOption.getD false
    pure <| Json.mkObj ([("lower", fJson lo), ("upper", fJson hi), ("bandwidth", fJson bw),
      ("bandwidth_upper", fJson (K.L * (if hi < eps then 1 else hi))), ("count", toJson ds.length)] ++
      (if wantDists then [("dists", fsJson ds.toArray)] else []))
  | _, _, _ => throw "bad-op: fewer than two centers (median of an empty tensor)"

/-- `{"op":"agopstep", kind, q, p?, L, "grad_eps", "jitter", transform, "x": centers (n × d), "alpha": coefficients (n × f)}`
→ `"M"`: the max-normalised AGOP of the predictor over its own centers (`Model/AgopStep.lean`, what `RFM.fit_M` stores
as `M` below the sub-sampling limit, `center_grads=False`). -/
def opAgopStep : Handler := fun j => do
  let K ← C05.getSpec j
  if !K.accepted then throw "bad-op: parameters rejected by the constructor (AssertionError)"
  let xs := C05.rows (← getFss j "x")
  let d := (xs.head?.map List.length).getD 0
  if !C05.rect d xs then throw "bad-op: rows of x must have one common length"
  let A := C05.rows (← getFss j "alpha")
  if A.length != xs.length then throw "bad-op: one coefficient row per center"
  let T ← C05.getTransform j d
  let ge ← getF j "grad_eps"
  let jit ← getF j "jitter"
  let M := Xrfmv.AgopStep.normAgop ge jit K T xs A
  pure <| Json.mkObj [("M", fssJson (C05.toArr M))]

/-- `{"op":"bandwidth_facts"}` → the regenerated defaults of `_adapt_bandwidth`. -/
def opBandwidthFacts : Handler := fun _ =>
  pure <| Json.mkObj [("subsampleLimit", toJson Xrfmv.Gen.Bandwidth.subsampleLimit),
    ("guardEpsExp10", toJson Xrfmv.Gen.Bandwidth.guardEpsExp10),
    ("medianOfOffDiagonal", toJson Xrfmv.Gen.Bandwidth.medianOfOffDiagonal),
    ("rootTakenUnlessExponentOne", toJson Xrfmv.Gen.Bandwidth.rootTakenUnlessExponentOne)]

def ops : List (String × Handler) :=
  [("median_bandwidth", opMedianBandwidth), ("agopstep", opAgopStep), ("bandwidth_facts", opBandwidthFacts)] ++ C05.ops

end Xrfmv.Drv.C19
