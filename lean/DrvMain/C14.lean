import Xrfmv.Drv.C14

def main : IO Unit := Xrfmv.Drv.runDriver Xrfmv.Drv.C14.ops
