import Xrfmv.Props.C11
#print axioms Xrfmv.Props.C11.roundtrip
#print axioms Xrfmv.Props.C11.roundtrip_iterated
#print axioms Xrfmv.Props.C11.export_pure
#print axioms Xrfmv.Props.C11.learned_state_read_at_prediction_is_restored
