import Mathlib.Analysis.SpecialFunctions.ImproperIntegrals
import Mathlib.Analysis.SpecialFunctions.Integrability.Basic
import Mathlib.MeasureTheory.Integral.IntegralEqImproper

/-! The Bernstein representation `r^a · C_a = ∫₀^∞ (1 − e^{−t r}) t^{−1−a} dt` (`0 < a < 1`, `r ≥ 0`). -/
namespace Xrfmv.Psd
open MeasureTheory Set Real

/-- the integrand at `r = 1` -/
noncomputable def bern (a s : ℝ) : ℝ := (1 - exp (-s)) * s ^ (-1 - a)

theorem bern_nonneg (a : ℝ) {s : ℝ} (hs : 0 < s) : 0 ≤ bern a s :=
  mul_nonneg (by have := exp_lt_one_iff.mpr (neg_lt_zero.mpr hs); linarith) (rpow_nonneg hs.le _)

theorem bern_pos (a : ℝ) {s : ℝ} (hs : 0 < s) : 0 < bern a s :=
  mul_pos (by have := exp_lt_one_iff.mpr (neg_lt_zero.mpr hs); linarith) (rpow_pos_of_pos hs _)

theorem bern_continuousOn (a : ℝ) : ContinuousOn (bern a) (Ioi 0) := by
  unfold bern
  refine ContinuousOn.mul (by fun_prop) ?_
  exact ContinuousOn.rpow_const continuousOn_id fun x hx => Or.inl (ne_of_gt hx)

theorem bern_integrableOn {a : ℝ} (h0 : 0 < a) (h1 : a < 1) : IntegrableOn (bern a) (Ioi 0) := by
  have hmeas : ∀ s : Set ℝ, s ⊆ Ioi 0 → MeasurableSet s → AEStronglyMeasurable (bern a) (volume.restrict s) :=
    fun s hs hm => ((bern_continuousOn a).mono hs).aestronglyMeasurable hm
  rw [← Ioc_union_Ioi_eq_Ioi (zero_le_one' ℝ)]
  refine IntegrableOn.union ?_ ?_
  · -- near 0: bern a s ≤ s^(−a)
    have hI : IntegrableOn (fun s : ℝ => s ^ (-a)) (Ioc 0 1) :=
      (intervalIntegrable_iff_integrableOn_Ioc_of_le zero_le_one).mp
        (intervalIntegral.intervalIntegrable_rpow' (by linarith))
    refine Integrable.mono' hI (hmeas _ (fun x hx => hx.1) measurableSet_Ioc) ?_
    refine (ae_restrict_iff' measurableSet_Ioc).mpr (Filter.Eventually.of_forall fun s hs => ?_)
    rw [norm_of_nonneg (bern_nonneg a hs.1)]
    have h1e : 1 - exp (-s) ≤ s := by have := add_one_le_exp (-s); linarith
    calc bern a s ≤ s * s ^ (-1 - a) := mul_le_mul_of_nonneg_right h1e (rpow_nonneg hs.1.le _)
      _ = s ^ (-a) := by
        rw [show -a = 1 + (-1 - a) by ring, rpow_add hs.1, rpow_one]
  · -- near ∞: bern a s ≤ s^(−1−a)
    have hI : IntegrableOn (fun s : ℝ => s ^ (-1 - a)) (Ioi 1) :=
      integrableOn_Ioi_rpow_of_lt (by linarith) one_pos
    refine Integrable.mono' hI (hmeas _ (fun x hx => lt_trans one_pos (mem_Ioi.mp hx)) measurableSet_Ioi) ?_
    refine (ae_restrict_iff' measurableSet_Ioi).mpr (Filter.Eventually.of_forall fun s hs => ?_)
    have hs0 : 0 < s := lt_trans one_pos hs
    rw [norm_of_nonneg (bern_nonneg a hs0)]
    have : 1 - exp (-s) ≤ 1 := by have := exp_pos (-s); linarith
    calc bern a s ≤ 1 * s ^ (-1 - a) := mul_le_mul_of_nonneg_right this (rpow_nonneg hs0.le _)
      _ = s ^ (-1 - a) := one_mul _

/-- the constant `C_a = ∫₀^∞ (1 − e^{−s}) s^{−1−a} ds` -/
noncomputable def bernC (a : ℝ) : ℝ := ∫ s in Ioi 0, bern a s

theorem bernC_pos {a : ℝ} (h0 : 0 < a) (h1 : a < 1) : 0 < bernC a := by
  unfold bernC
  rw [setIntegral_pos_iff_support_of_nonneg_ae ?_ (bern_integrableOn h0 h1)]
  · have : Ioi (0 : ℝ) ⊆ Function.support (bern a) ∩ Ioi 0 :=
      fun s hs => ⟨(bern_pos a hs).ne', hs⟩
    exact lt_of_lt_of_le (by simp) (measure_mono this)
  · exact (ae_restrict_iff' measurableSet_Ioi).mpr (Filter.Eventually.of_forall fun s hs => bern_nonneg a hs)

/-- scaled integrand -/
theorem bern_scale (a : ℝ) {r t : ℝ} (hr : 0 < r) (ht : 0 < t) :
    (1 - exp (-(t * r))) * t ^ (-1 - a) = r ^ (1 + a) * bern a (t * r) := by
  unfold bern
  rw [mul_rpow ht.le hr.le]
  have : r ^ (1 + a) * r ^ (-1 - a) = 1 := by
    rw [← rpow_add hr]; simp
  calc (1 - exp (-(t * r))) * t ^ (-1 - a)
      = (1 - exp (-(t * r))) * t ^ (-1 - a) * (r ^ (1 + a) * r ^ (-1 - a)) := by rw [this, mul_one]
    _ = _ := by ring

theorem bern_scaled_integrableOn {a : ℝ} (h0 : 0 < a) (h1 : a < 1) {r : ℝ} (hr : 0 ≤ r) :
    IntegrableOn (fun t => (1 - exp (-(t * r))) * t ^ (-1 - a)) (Ioi 0) := by
  rcases hr.eq_or_lt with rfl | hr
  · simp
  · have h := (integrableOn_Ioi_comp_mul_right_iff (bern a) 0 hr).mpr (by simpa using bern_integrableOn h0 h1)
    have h' : IntegrableOn (fun t => r ^ (1 + a) * bern a (t * r)) (Ioi 0) := h.const_mul (r ^ (1 + a))
    exact h'.congr_fun (fun t ht => (bern_scale a hr ht).symm) measurableSet_Ioi

/-- **Bernstein representation of `r ↦ r^a`.** -/
theorem rpow_mul_bernC {a : ℝ} (h0 : 0 < a) {r : ℝ} (hr : 0 ≤ r) :
    ∫ t in Ioi 0, (1 - exp (-(t * r))) * t ^ (-1 - a) = r ^ a * bernC a := by
  rcases hr.eq_or_lt with rfl | hr
  · simp [zero_rpow h0.ne']
  · have e : ∫ t in Ioi 0, (1 - exp (-(t * r))) * t ^ (-1 - a) =
        ∫ t in Ioi 0, r ^ (1 + a) * bern a (t * r) :=
      setIntegral_congr_fun measurableSet_Ioi fun t ht => bern_scale a hr ht
    rw [e, integral_const_mul, integral_comp_mul_right_Ioi (bern a) 0 hr, zero_mul, smul_eq_mul,
      ← mul_assoc, bernC]
    congr 1
    rw [rpow_add hr, rpow_one]; field_simp

end Xrfmv.Psd
