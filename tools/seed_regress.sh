#!/bin/bash
# usage: tools/seed_regress.sh <out.jsonl> <id> [<id> ...]
# Re-runs the quick check of each stored seeded change against the current machinery and the current /repo HEAD
# (scratch worktree, `git apply`, falling back to `git apply -3`); one JSON line per change.
HERE=$(cd "$(dirname "$0")/.." && pwd); OUT=$1; shift
for id in "$@"; do
  P=${id%%-*}; WT=/tmp/wt_regr_$$
  git -C /repo worktree add -q --detach "$WT" HEAD || exit 3
  how=apply
  if ! git -C "$WT" apply "$HERE/seeded/$id/patch.diff" 2>/dev/null; then
    how=apply-3way
    if ! git -C "$WT" apply -3 "$HERE/seeded/$id/patch.diff" >/dev/null 2>&1; then how=does-not-apply; fi
  fi
  if [ "$how" = does-not-apply ]; then
    echo "{\"id\":\"$id\",\"how\":\"$how\"}" >> "$OUT"
  else
    (cd "$HERE" && VERIF_EVIDENCE_DIR=/tmp/verif_evidence_regress VERIF_REPO="$WT" timeout 1700 ./check "$P" --tier quick > /tmp/regr_$$.txt 2>/dev/null); RC=$?
    NFI=$(grep -c "no-failing-input-found" /tmp/regr_$$.txt); V=$(grep -c "^VIOLATION" /tmp/regr_$$.txt)
    echo "{\"id\":\"$id\",\"how\":\"$how\",\"exit\":$RC,\"violations\":$V,\"nfi_lines\":$NFI}" >> "$OUT"
  fi
  git -C /repo worktree remove --force "$WT"
done
