/- Driver ops for C11: which attributes survive export + load in the model (over `V = String` tokens). -/
import Xrfmv.Drv.Common
import Xrfmv.Model.State

open Lean Xrfmv.Drv

namespace Xrfmv.Drv.C11
open Xrfmv.State Xrfmv.Gen.State

def mfields : List (String × MField) :=
  [("rfm_params", .rfmParams), ("categorical_info", .categoricalInfo), ("n_classes_", .nClasses),
   ("split_temperature", .splitTemperature), ("classification_mode", .classificationMode),
   ("class_converter_._prior", .convPrior), ("class_converter_._C", .convC), ("class_converter_._invA", .convInvA),
   ("class_converter_._numerical_type", .convNumType), ("extra_rfm_params_", .extraRfmParams), ("solver", .solver)]

def lfields : List (String × LField) :=
  [("bandwidth", .bandwidth), ("weights", .weights), ("M", .M), ("sqrtM", .sqrtM), ("train_indices", .trainIndices)]

def nfields : List (String × NField) :=
  [("split_direction", .splitDirection), ("split_point", .splitPoint), ("adaptive_temp_scaling", .adaptiveTempScaling)]

/-- `{"op":"flows","isClass":b}` → for every attribute whether the source's value arrives in the loaded model
(source values are distinct tokens `src:<name>`, fresh values `fresh:<name>`). -/
def opFlows : Handler := fun j => do
  let isClass ← j.getObjValAs? Bool "isClass"
  let src : MState String := { isClass := isClass, m := fun a => "src:" ++ toString (repr a) }
  let fr : MState String := { isClass := false, m := fun a => "fresh:" ++ toString (repr a) }
  let loaded := loadM fr isClass (exportM src)
  let mres := mfields.map fun (n, a) => (n, toJson (loaded.m a == src.m a))
  let leaf : Tree String := .leaf (fun a => "src:" ++ toString (repr a)) "gather(src:Xrfmv.Gen.State.LField.trainIndices)"
  let lt := loadTree (fun a => "fresh:" ++ toString (repr a)) "fresh:centers" (fun a => "default:" ++ toString (repr a))
    (fun v => "gather(" ++ v ++ ")") (exportTree leaf)
  let lres := match lt with
    | .leaf f c => lfields.map (fun (n, a) => (n, toJson (f a == "src:" ++ toString (repr a)))) ++
        [("centers", toJson (c == "gather(src:Xrfmv.Gen.State.LField.trainIndices)"))]
    | _ => []
  let node : Tree String := .node (fun a => "src:" ++ toString (repr a)) leaf leaf
  let nt := loadTree (fun a => "fresh:" ++ toString (repr a)) "fresh:centers" (fun a => "default:" ++ toString (repr a))
    (fun v => "gather(" ++ v ++ ")") (exportTree node)
  let nres := match nt with
    | .node f _ _ => nfields.map fun (n, a) => (n, toJson (f a == "src:" ++ toString (repr a)))
    | _ => []
  pure <| Json.mkObj [("model", Json.mkObj mres), ("leaf", Json.mkObj lres), ("node", Json.mkObj nres),
    ("exportPure", toJson exportLeavesSourceUntouched)]

def ops : List (String × Handler) := [("flows", opFlows)]

end Xrfmv.Drv.C11
