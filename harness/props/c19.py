"""
C19 — adaptive bandwidth follows the median heuristic and gives scale invariance.

Proof: lean/Xrfmv/Props/C19.lean (median / distance / bandwidth / kernel / Gram scale laws; invariance of every
iterate's predictions given a scale-covariant AGOP step, unconditional for the first solve).

Correspondence (float64, RFM level): after a real `RFM.fit` in adaptive mode
  (a) the stored `kernel_obj.bandwidth` must equal `base x median` of the pairwise distances (kernel's own norm)
      between the centers transformed by the *stored* feature matrix (sqrtM, or the M-quadratic form for
      l2_high_dim) of the selected iterate: distances and lower/upper median from the Lean model at Float
      (driver_c19 op `median_bandwidth`); any value between lower and upper median is accepted, rel. 1e-9;
  (b) a model fitted on (c*X, y) predicts at c*X_test what the model fitted on (X, y) predicts at X_test,
      c in 1e-3 .. 1e3; allowance (relative to max |prediction|) = 1e-6 + the effect of the rounding of the
      distance computation on the selected solve: with G the float64 forward-error allowance of the Gram
      matrix (C05's interval image; the cdist expansion above 25 rows and the M-quadratic form of the light
      kernel leave 1e-8-size distances on the diagonal, i.e. kernel errors up to 1e-3 for q < 1),
      |d alpha| <= |(K+reg I)^-1| G |alpha| and |d pred| <= |K_t| |d alpha| + G_t |alpha| (first order), summed over
      the two fits and multiplied by (1 + iters) for the propagation through earlier AGOP steps (heuristic factor;
      measured deviations stay >= 30x below the bound without it).
Property oracle, independent of the Lean model: (a) recomputed in numpy, (b) directly.
"""
import math

from harness import core

MOD = 'harness.props.c19'

QS = [0.5, 0.7, 1.0, 1.3, 1.7, 2.0]
SCALES = [1e-3, 1e-2, 1e-1, 1e1, 1e2, 1e3]
KIND = {'l2': 'laplace', 'l2_high_dim': 'light', 'l1': 'product', 'lpq': 'lpq'}
EPS_GUARD = 1e-14
TOL_BW = 1e-9
TOL_PRED = 1e-6
REG = 1e-3
AGOP_TOL = 1e-9   # entries of the normalised AGOP (max entry 1); measured worst deviation is reported in the evidence


def make_data(p):
    import numpy as np
    rs = np.random.RandomState(p['seed'])
    n, d, nv, nt, c_out = p['n'], p['d'], p['nv'], p['nt'], p['outputs']
    A = rs.randn(d, d) / math.sqrt(d) if p.get('correlated') else np.eye(d)
    X = rs.randn(n, d) @ A * p.get('spread', 1.0) + p.get('shift', 0.0)
    if p.get('replicates', 1) > 1:
        # replicated design points (repeated measurements, discrete features): distinct samples at distance zero
        rep = p['replicates']
        base = X[: max(2, n // rep)]
        X = np.concatenate([base] * rep + [X[: n - len(base) * rep]], axis=0)[:n] if len(base) * rep <= n else np.concatenate([base] * rep)[:n]
        X = X[rs.permutation(len(X))]
    Xv = rs.randn(nv, d) @ A * p.get('spread', 1.0) + p.get('shift', 0.0)
    Xt = rs.randn(nt, d) @ A * p.get('spread', 1.0) + p.get('shift', 0.0)
    W = rs.randn(d, c_out)
    f = lambda Z: np.sin((Z - p.get('shift', 0.0)) / p.get('spread', 1.0) @ W) + 0.3 * ((Z - p.get('shift', 0.0)) / p.get('spread', 1.0))[:, :1] ** 2
    y = f(X) + 0.1 * rs.randn(n, c_out)
    yv = f(Xv) + 0.1 * rs.randn(nv, c_out)
    return X, y, Xv, yv, Xt


def fit_model(p, X, y, Xv, yv, c=1.0):
    import torch
    from xrfm.rfm_src import RFM
    from harness.rfmrec import ScriptedFit
    t = lambda a: torch.from_numpy(a).to(torch.float32 if p.get('f32') else torch.float64)
    kern = p['kernel']
    if p.get('kobj'):
        # the kernel configured as an object (the other documented way): the model's bandwidth_mode decides about adaptation,
        # whatever mode the kernel object itself was constructed with
        from xrfm.rfm_src import kernels as K_
        kw = {} if p['kobj'] == 'default' else {'bandwidth_mode': p['kobj']}
        kern = {'l2': lambda: K_.LaplaceKernel(bandwidth=p['base'], exponent=p['q'], **kw),
                'l2_high_dim': lambda: K_.LightLaplaceKernel(bandwidth=p['base'], exponent=p['q'], **kw),
                'l1': lambda: K_.ProductLaplaceKernel(bandwidth=p['base'], exponent=p['q'], **kw),
                'lpq': lambda: K_.LpqLaplaceKernel(bandwidth=p['base'], p=p['p'], q=p['q'], **kw)}[p['kernel']]()
    if p.get('logistic'):
        # binary labels, leaves fitted by the logistic (IRLS) solver: the bandwidth is adapted exactly as for the closed-form solvers
        from xrfm.rfm_src.class_conversion import ClassificationConverter
        import numpy as np
        thr = float(np.median(y[:, 0]))
        y, yv = (y[:, :1] > thr).astype(np.float64), (yv[:, :1] > thr).astype(np.float64)
        model = RFM(kernel=kern, bandwidth=p['base'], exponent=p['q'], norm_p=p.get('p'), bandwidth_mode='adaptive',
                    diag=p['diag'], device='cpu', verbose=False, tuning_metric='accuracy', solver='log_reg',
                    class_converter=ClassificationConverter('zero_one', n_classes=2))
    else:
        model = RFM(kernel=kern, bandwidth=p['base'], exponent=p['q'], norm_p=p.get('p'), bandwidth_mode='adaptive',
                    diag=p['diag'], device='cpu', verbose=False, tuning_metric='mse')
    rec = ScriptedFit(model, scores=p.get('script'))
    model.fit((t(X * c), t(y)), (t(Xv * c), t(yv)), iters=p['iters'], reg=REG, verbose=False,
              early_stop_rfm=False, return_best_params=p['return_best'])
    return model, rec


def pnorm_dists(U, pn):
    import numpy as np
    n = U.shape[0]
    A = np.abs(U[:, None, :] - U[None, :, :])
    D = (A ** pn).sum(-1) ** (1.0 / pn)
    return D[~np.eye(n, dtype=bool)]


def numpy_median_interval(p, centers, mat):
    """independent recomputation of the lower/upper median distance of the transformed centers"""
    import numpy as np
    kind = KIND[p['kernel']]
    if kind == 'light':
        if mat is None:
            XM = centers
        elif mat.ndim == 1:
            XM = centers * mat[None, :]
        else:
            XM = centers @ mat
        xx = (XM * centers).sum(1)
        S = xx[:, None] - 2 * XM @ centers.T + xx[None, :]
        D = np.sqrt(np.maximum(S, 0))[~np.eye(len(centers), dtype=bool)]
    else:
        if mat is None:
            U = centers
        elif mat.ndim == 1:
            U = centers * mat[None, :]
        else:
            U = centers @ mat
        pn = {'laplace': 2.0, 'product': p['q'], 'lpq': p.get('p')}[kind]
        D = pnorm_dists(U, pn)
    s = np.sort(D)
    N = len(s)
    return float(s[(N - 1) // 2]), float(s[N // 2])


def grad_eps_pairs(p, model, rec):
    """Number of pairs of *distinct* centers that the gradient (AGOP) code of the kernel treats as coincident in some
    iterate of this fit: its absolute threshold `eps` (1e-10) is compared with the distance in the kernel's own norm (every
    kernel, since the product-kernel mask was repaired).  Such a pair contributes no gradient at this scale but does at a larger one."""
    import numpy as np
    kind = KIND[p['kernel']]
    eps = float(getattr(model.kernel_obj, 'eps', 0.0))
    C = model.centers.double().numpy()
    off = ~np.eye(len(C), dtype=bool)
    worst = 0
    for it in rec.iterates:
        mat_t = it[1] if kind == 'light' else it[2]
        mat = None if mat_t is None else mat_t.double().numpy()
        if kind == 'light':
            XM = C if mat is None else (C * mat[None, :] if mat.ndim == 1 else C @ mat)
            xx = (XM * C).sum(1)
            D = np.sqrt(np.maximum(xx[:, None] - 2 * XM @ C.T + xx[None, :], 0))
        else:
            U = C if mat is None else (C * mat[None, :] if mat.ndim == 1 else C @ mat)
            pn = {'laplace': 2.0, 'product': p['q'], 'lpq': p.get('p')}[kind]
            D = (np.abs(U[:, None, :] - U[None, :, :]) ** pn).sum(-1) ** (1.0 / pn)
        worst = max(worst, int(((D < eps) & off).sum()))
    return worst


def rounding_bound(p, model, Xt_scaled):
    """first-order bound of |prediction error| caused by the rounding of the distance computation in the
    selected solve (see module docstring); also returns the largest Gram-entry allowance"""
    import numpy as np
    from harness.props import c05
    kind = KIND[p['kernel']]
    mat_t = model.M if kind == 'light' else model.sqrtM
    mat = None if mat_t is None else mat_t.double().numpy()
    tk = 'none' if mat is None else ('diag' if mat.ndim == 1 else 'full')
    C = model.centers.double().numpy()
    L = float(model.kernel_obj.bandwidth)
    pp = dict(kind=kind, q=p['q'], p=p.get('p'), dtype='float64', tkind=tk)
    K, G, _ = c05.reference(pp, C, C, mat, L)
    Kt, Gt, _ = c05.reference(pp, Xt_scaled, C, mat, L)
    a = np.abs(model.weights.double().numpy())
    inv = np.abs(np.linalg.inv(K + REG * np.eye(len(C))))
    da = inv @ (G @ a)
    dp = np.abs(Kt) @ da + Gt @ a
    return float(dp.max()), float(G.max())


def run_fit_case(p, drv):
    import numpy as np
    import torch
    res = {'family': p['family'], 'params': p, 'disagreements': [], 'failures': [], 'dist': {}}
    X, y, Xv, yv, Xt = make_data(p)
    try:
        model, rec = fit_model(p, X, y, Xv, yv)
        P1 = model.predict(torch.from_numpy(Xt).to(torch.float64)).double().numpy()
    except Exception as e:
        res['failures'].append({'signature': f'C19:raises:{type(e).__name__}', 'detail': f'{p["kernel"]}: {str(e)[:300]}'})
        return res
    kobj = model.kernel_obj
    kind = KIND[p['kernel']]
    bw = float(kobj.bandwidth)
    base = float(kobj.base_bandwidth)
    mat_t = model.M if kind == 'light' else model.sqrtM
    mat = None if mat_t is None else mat_t.double().numpy()
    centers = model.centers.double().numpy()
    if base != p['base']:
        res['disagreements'].append({'detail': f'base_bandwidth {base} differs from the configured {p["base"]}'})
    # ---- (a) model: distances + medians from the Lean driver -------------------------------------------------
    tr = None if mat is None else ({'kind': 'diag', 'v': core.fl(mat)} if mat.ndim == 1 else {'kind': 'full', 'cols': core.fl(mat.T)})
    ans = drv.ask({'op': 'median_bandwidth', 'kind': kind, 'q': core.f2b(p['q']), 'p': core.f2b(p.get('p') or 0.0),
                   'L': core.f2b(base), 'eps': core.f2b(EPS_GUARD), 'transform': tr, 'x': core.fl(centers)})
    if 'error' in ans:
        res['disagreements'].append({'detail': f'model rejects the case: {ans["error"]}'})
        m_lo = m_hi = None
    else:
        m_lo, m_hi = core.b2f(ans['lower']), core.b2f(ans['upper'])
        lo_bw, hi_bw = core.b2f(ans['bandwidth']), core.b2f(ans['bandwidth_upper'])
        if not (lo_bw * (1 - TOL_BW) <= bw <= hi_bw * (1 + TOL_BW)):
            res['disagreements'].append({'detail': f'stored bandwidth {bw!r}, model base x median in [{lo_bw!r}, {hi_bw!r}] '
                                                   f'({p["kernel"]}, q={p["q"]}, p={p.get("p")}, diag={p["diag"]}, iters={p["iters"]}, best_iter={model.best_iter})'})
    # ---- (a) oracle: numpy ---------------------------------------------------------------------------------------
    o_lo, o_hi = numpy_median_interval(p, centers, mat)
    guard = o_lo < EPS_GUARD
    e_lo, e_hi = (base * (1.0 if o_lo < EPS_GUARD else o_lo), base * (1.0 if o_hi < EPS_GUARD else o_hi))
    if not (min(e_lo, e_hi) * (1 - TOL_BW) <= bw <= max(e_lo, e_hi) * (1 + TOL_BW)):
        res['failures'].append({'signature': 'C19:bandwidth-not-base-times-median',
                                'detail': f'stored bandwidth {bw!r}; base {base} x median distance of the stored transformed centers in [{e_lo!r}, {e_hi!r}] '
                                          f'({p["kernel"]}, q={p["q"]}, p={p.get("p")}, diag={p["diag"]}, iters={p["iters"]}, best_iter={model.best_iter}, '
                                          f'return_best={p["return_best"]}, n={p["n"]})'})
    if m_lo is not None and (abs(m_lo - o_lo) > 1e-9 * max(o_lo, 1e-300) or abs(m_hi - o_hi) > 1e-9 * max(o_hi, 1e-300)):
        res['disagreements'].append({'detail': f'harness median [{o_lo!r},{o_hi!r}] and model median [{m_lo!r},{m_hi!r}] differ'})
    if not p['return_best'] and model.best_iter is not None:
        res['disagreements'].append({'detail': f'best_iter = {model.best_iter} although return_best_params=False'})
    # ---- (b) scale invariance ----------------------------------------------------------------------------------
    worst = 0.0
    worst_allow = 0.0
    ties = 0
    den = max(float(np.abs(P1).max()), 1e-12)
    b1, g1 = rounding_bound(p, model, Xt)
    for c in p['scales']:
        try:
            mc, rc = fit_model(p, X, y, Xv, yv, c=c)
            Pc = mc.predict(torch.from_numpy(Xt * c).to(torch.float64)).double().numpy()
            bc, gc = rounding_bound(p, mc, Xt * c)
        except Exception as e:
            res['failures'].append({'signature': f'C19:raises:{type(e).__name__}', 'detail': f'{p["kernel"]} at scale {c}: {str(e)[:300]}'})
            continue
        allow = TOL_PRED + (1 + p['iters']) * (b1 + bc) / den
        worst_allow = max(worst_allow, allow)
        rel = float(np.abs(Pc - P1).max()) / den
        if not np.isfinite(rel):
            rel = float('inf')
        if rel > allow:
            # a different iterate selected because two validation scores tie up to rounding is not a scale effect
            s = rec.real_scores
            if p['return_best'] and mc.best_iter != model.best_iter and mc.best_iter is not None and model.best_iter is not None \
                    and max(mc.best_iter, model.best_iter) < len(s) \
                    and abs(s[mc.best_iter] - s[model.best_iter]) <= max(1e-7, 10 * allow) * max(abs(s[model.best_iter]), 1e-300):
                ties += 1
                continue
            # diagnosis: the gradient code's absolute coincidence threshold eps=1e-10 (compared with the distance) masks pairs of distinct centers at one scale only
            n_masked = max(grad_eps_pairs(p, mc, rc), grad_eps_pairs(p, model, rec)) if p['iters'] > 0 else 0
            sig = f'C19:not-scale-invariant:grad-eps-threshold:{type(kobj).__name__}' if n_masked else 'C19:not-scale-invariant'
            res['failures'].append({'signature': sig,
                                    'detail': (f'[{n_masked} pair(s) of distinct centers fall below the absolute threshold eps={getattr(kobj, "eps", None)} of the gradient code at one of the two scales] ' if n_masked else '') +
                                              f'scale {c}: predictions differ by {rel:.3e} (relative to max |prediction| {den:.3g}), allowance {allow:.3e}; '
                                              f'bandwidth {float(mc.kernel_obj.bandwidth)!r} vs {c} x {bw!r}; best_iter {mc.best_iter} vs {model.best_iter} '
                                              f'({p["kernel"]}, q={p["q"]}, p={p.get("p")}, diag={p["diag"]}, iters={p["iters"]}, return_best={p["return_best"]}, n={p["n"]}, d={p["d"]})'})
        else:
            worst = max(worst, rel)
        rb = float(mc.kernel_obj.bandwidth) / (c * bw) - 1.0
        if abs(rb) > max(1e-6, 10 * allow) and rel <= allow:
            res['disagreements'].append({'detail': f'scale {c}: bandwidth ratio off by {rb:.3e} although predictions agree'})
    sel = model.best_iter if p['return_best'] else p['iters']
    res['nontrivial'] = [p['kernel'], p['q'], p.get('p'), p['diag'], p['iters'], p['return_best'], p['n'], p['d'], p['seed']] \
        if (abs(bw / base - 1.0) > 1e-3 and not guard) else None
    res['dist'] = {'kernel': p['kernel'], 'kernel_given_as': ('object:' + p['kobj']) if p.get('kobj') else 'name', 'q': p['q'], 'diag': p['diag'], 'iters': p['iters'], 'return_best': p['return_best'], 'validation_scores': 'scripted' if p.get('script') else 'real',
                   'selected_iterate': 'first' if sel == 0 else 'last' if sel == p['iters'] else 'middle',
                   'transform_in_use': 'none' if mat is None else ('diag' if mat.ndim == 1 else 'full'),
                   'n_bucket': '<=25' if p['n'] <= 25 else '<=60' if p['n'] <= 60 else '>60',
                   'even_count_gap': bool(o_hi > o_lo), 'near_tie_excluded': ties,
                   'worst_rel_pred_diff': '<1e-12' if worst < 1e-12 else '<1e-9' if worst < 1e-9 else '<1e-6' if worst < 1e-6 else '>=1e-6',
                   'prediction_allowance': '<=2e-6' if worst_allow <= 2e-6 else '<1e-4' if worst_allow < 1e-4 else '<1e-2' if worst_allow < 1e-2 else '>=1e-2',
                   'gram_rounding_allowance': '<1e-12' if g1 < 1e-12 else '<1e-9' if g1 < 1e-9 else '<1e-6' if g1 < 1e-6 else '>=1e-6'}
    res['sample'] = {'kernel': p['kernel'], 'q': p['q'], 'p': p.get('p'), 'diag': p['diag'], 'iters': p['iters'], 'n': p['n'], 'd': p['d'],
                     'base': base, 'stored_bandwidth': bw, 'model_median': [m_lo, m_hi], 'numpy_median': [o_lo, o_hi],
                     'best_iter': model.best_iter, 'val_scores': rec.real_scores, 'scales': p['scales'], 'worst_rel_pred_diff': worst,
                     'prediction_allowance': worst_allow, 'gram_rounding_allowance': g1}
    return res


def run_fit32_case(p):
    """float32 inputs (what every xRFM leaf sees) at several scales: the stored bandwidth is base x median distance of the stored
    transformed centers, recomputed in float64.  Absolute thresholds on float32 round-off would show here and not in float64."""
    import numpy as np
    res = {'family': p['family'], 'params': p, 'disagreements': [], 'failures': [], 'dist': {}}
    X, y, Xv, yv, Xt = make_data(p)
    kind = KIND[p['kernel']]
    worst = 0.0
    for c in p['scales']:
        try:
            model, rec = fit_model(p, X, y, Xv, yv, c=c)
        except Exception as e:
            res['failures'].append({'signature': f'C19:raises:{type(e).__name__}', 'detail': f'{p["kernel"]} float32 scale {c}: {str(e)[:300]}'})
            continue
        kobj = model.kernel_obj
        bw, base = float(kobj.bandwidth), float(kobj.base_bandwidth)
        mat_t = model.M if kind == 'light' else model.sqrtM
        mat = None if mat_t is None else mat_t.double().numpy()
        centers = model.centers.double().numpy()
        o_lo, o_hi = numpy_median_interval(p, centers, mat)
        e_lo, e_hi = (base * (1.0 if o_lo < EPS_GUARD else o_lo), base * (1.0 if o_hi < EPS_GUARD else o_hi))
        tol = 5e-3
        worst = max(worst, abs(bw / max(e_lo, 1e-300) - 1.0))
        if not (min(e_lo, e_hi) * (1 - tol) <= bw <= max(e_lo, e_hi) * (1 + tol)):
            res['failures'].append({'signature': 'C19:bandwidth-not-base-times-median',
                                    'detail': f'float32 inputs at scale {c}: stored bandwidth {bw!r}; base {base} x median distance of the stored '
                                              f'transformed centers in [{e_lo!r}, {e_hi!r}] ({p["kernel"]}, q={p["q"]}, diag={p["diag"]}, iters={p["iters"]})'})
    res['nontrivial'] = ['f32', p['kernel'], p['q'], p['diag'], p['iters'], p['seed']]
    res['dist'] = {'kernel': p['kernel'], 'dtype': 'float32', 'iters': p['iters'], 'diag': p['diag']}
    res['sample'] = {'kernel': p['kernel'], 'scales': p['scales'], 'worst_relative_bandwidth_error': worst}
    return res


def run_agop_step(p, drv):
    """Correspondence of `Model/AgopStep.lean` (the AGOP step whose scale covariance C19 proves) with `RFM.fit_M`:
    centers, coefficients and feature transform are set on an unfitted RFM, `fit_M(inplace=False)` returns the
    max-normalised AGOP; the model composes C04's closed-form gradients, C14's `GᵀG` and the normalisation."""
    import numpy as np
    import torch
    from xrfm.rfm_src import RFM
    res = {'family': p['family'], 'params': p, 'disagreements': [], 'failures': [], 'dist': {}}
    rs = np.random.RandomState(p['seed'])
    n, d, f = p['n'], p['d'], p['outputs']
    X = rs.randn(n, d)
    A = rs.randn(n, f) * np.array([1.0, 3.0, 0.3])[:f][None, :]
    kind = KIND[p['kernel']]
    T = None
    if p['transform'] == 'full':
        B = rs.randn(d, d + 1)
        T = B @ B.T
        T = (T + T.T) / 2 / np.abs(T).max()
    t = lambda a: torch.from_numpy(np.ascontiguousarray(a)).to(torch.float64)
    model = RFM(kernel=p['kernel'], bandwidth=p['base'], exponent=p['q'], norm_p=p.get('p'), bandwidth_mode='constant',
                diag=False, device='cpu', verbose=False, tuning_metric='mse')
    model.centers, model.weights = t(X), t(A)
    model.total_points_to_sample = 20_000        # what _initialize_fit_parameters sets for small problems
    model.center_grads = False                   # fit's default
    if T is not None:
        if model.use_sqrtM:
            model.sqrtM, model.M = t(T), t(T @ T)
        else:
            model.M = t(T)
    try:
        M_impl = model.fit_M(t(X), f, M_batch_size=p['batch'], inplace=False).double().numpy()
        if model.use_sqrtM:
            # stable_matrix_power adds 1e-8 to the diagonal of the normalised matrix IN PLACE before the SVD (C14): the
            # returned matrix is the normalised AGOP + 1e-8·I
            M_impl = M_impl - 1e-8 * np.eye(d)
    except Exception as e:
        res['failures'].append({'signature': f'C19:raises:{type(e).__name__}', 'detail': f'fit_M, {p["kernel"]}: {str(e)[:300]}'})
        return res
    tr = None if T is None else {'kind': 'full', 'cols': core.fl(T.T)}
    ans = drv.ask({'op': 'agopstep', 'kind': kind, 'q': core.f2b(p['q']), 'p': core.f2b(p.get('p') or 0.0), 'L': core.f2b(p['base']),
                   'grad_eps': core.f2b(float(getattr(model.kernel_obj, 'eps', 1e-10))), 'jitter': core.f2b(1e-30),
                   'transform': tr, 'x': core.fl(X), 'alpha': core.fl(A)})
    ratio = 0.0
    if 'error' in ans:
        res['disagreements'].append({'detail': f'model rejects the case: {ans["error"]}'})
    else:
        M_model = np.array(core.unfl(ans['M']), dtype=np.float64).reshape(d, d)
        err = float(np.abs(M_impl - M_model).max())
        ratio = err / AGOP_TOL
        if not err <= AGOP_TOL:
            res['disagreements'].append({'detail': f'normalised AGOP of fit_M differs from the model by {err:.3e} (max entry 1, allowance {AGOP_TOL}); '
                                                   f'{p["kernel"]}, q={p["q"]}, p={p.get("p")}, transform={p["transform"]}, n={n}, d={d}, outputs={f}, batch={p["batch"]}'})
    res['nontrivial'] = ['agop-step', p['kernel'], p['q'], p['transform'], n, d, f, p['seed']] if float(np.abs(M_impl).max()) > 0.5 else None
    res['dist'] = {'kernel': p['kernel'], 'q': p['q'], 'transform_in_use': p['transform'], 'outputs': f,
                   'batches': 'one' if p['batch'] is None or p['batch'] >= n else 'several'}
    res['sample'] = {'kernel': p['kernel'], 'q': p['q'], 'p': p.get('p'), 'transform': p['transform'], 'n': n, 'd': d, 'outputs': f,
                     'agop_err_over_allowance': ratio}
    res['metrics'] = {'agop': ratio}
    return res


def run_sum_power(p, drv):
    """SumPower has no adaptive mode: fit must raise ValueError; the model rejects it too."""
    import torch
    from xrfm.rfm_src import RFM
    res = {'family': p['family'], 'params': p, 'disagreements': [], 'failures': [], 'dist': {}}
    X, y, Xv, yv, _ = make_data(p)
    t = lambda a: torch.from_numpy(a).to(torch.float64)
    outcome = 'no exception'
    try:
        model = RFM(kernel=p['kernel'], bandwidth=p['base'], exponent=p['q'], bandwidth_mode='adaptive', diag=p['diag'],
                    device='cpu', verbose=False, tuning_metric='mse')
        model.fit((t(X), t(y)), (t(Xv), t(yv)), iters=p['iters'], reg=1e-3, verbose=False, early_stop_rfm=False,
                  return_best_params=p['return_best'])
    except ValueError as e:
        outcome = 'ValueError'
    except Exception as e:
        outcome = type(e).__name__
    ans = drv.ask({'op': 'median_bandwidth', 'kind': 'sum_power', 'q': core.f2b(p['q']), 'c': core.f2b(0.0), 'P': core.f2b(2.0),
                   'L': core.f2b(p['base']), 'eps': core.f2b(EPS_GUARD), 'transform': None, 'x': core.fl(X)})
    if outcome != 'ValueError':
        res['disagreements'].append({'detail': f'adaptive fit with {p["kernel"]}: {outcome}, expected ValueError'})
    if 'error' not in ans or 'ValueError' not in ans['error']:
        res['disagreements'].append({'detail': f'model accepts adaptive sum-power: {ans}'})
    res['nontrivial'] = ['sum-power', p['kernel'], p['iters']]
    res['dist'] = {'sum_power_adaptive': outcome}
    res['sample'] = {'kernel': p['kernel'], 'outcome': outcome, 'model': ans.get('error')}
    return res


def execute(chunk):
    drv = core.Driver('C19')
    out = []
    try:
        for p in chunk['cases']:
            out.append(run_sum_power(p, drv) if p['family'] == 'sum-power-adaptive' else
                       run_agop_step(p, drv) if p['family'] == 'agop-step' else
                       run_fit32_case(p) if p['family'] == 'adaptive-fit-float32' else run_fit_case(p, drv))
    finally:
        drv.close()
    return out


# ------------------------------------------------------------------------------------------------
def gen_cases(run):
    r = run.rng
    quick = run.tier == 'quick'
    cases = []
    n_fit = 60 if quick else 600
    kernels = ['l2', 'l2_high_dim', 'l1', 'lpq']
    for k in range(n_fit):
        kernel = kernels[k % 4]
        q = r.choice(QS)
        pn = None
        if kernel == 'lpq':
            pn = r.choice([q, 2.0, (q + 2.0) / 2, round(r.uniform(q, 2.0), 3)])
        n = r.choice([10, 11, 16, 24, 25, 26, 27, 40, 61, 90, 120]) if quick else r.randint(10, 120)
        scales = [1e-3, 1e3] + r.sample(SCALES[1:-1], 2) if quick else list(SCALES) + [round(math.exp(r.uniform(math.log(1e-3), math.log(1e3))), 6)]
        iters = r.choice([0, 1, 2, 3])
        return_best = r.random() < 0.7
        script = None
        if iters >= 1 and return_best and r.random() < 0.5:
            # scripted validation scores (mse: lower is better) put the selected iterate at a chosen position, so that
            # restoration of the bandwidth together with M/sqrtM/weights is exercised for first / middle / last iterates
            best = r.randint(0, iters)
            script = [1.0 + 0.1 * (k + 1) if k != best else 0.5 for k in range(iters + 1)]
        cases.append(dict(family='adaptive-fit', kernel=kernel, q=q, p=pn, base=round(math.exp(r.uniform(math.log(0.1), math.log(10.0))), 6),
                          diag=r.random() < 0.4, iters=iters, return_best=return_best, script=script,
                          n=n, d=r.randint(2, 6), nv=r.randint(5, 30), nt=r.randint(3, 20), outputs=r.choice([1, 1, 2]),
                          correlated=r.random() < 0.5, spread=r.choice([1.0, 1.0, 0.05, 30.0]), shift=r.choice([0.0, 0.0, 5.0]),
                          scales=sorted(scales), seed=r.randint(0, 2 ** 31 - 1),
                          # replicated design points, keeping at least 8 distinct ones (fewer make the iterates near-equivalent and
                          # the selection between them a coin flip across scales)
                          replicates=r.choice([1, 1, 1, 2, 3]) if n >= 24 else 1,
                          # every third configuration hands the kernel over as an object (constructed with its own default mode,
                          # or explicitly 'constant' / 'adaptive') instead of by name
                          kobj=[None, None, 'default', None, None, 'constant', None, None, 'adaptive'][(k // 4 + k) % 9]))
    for alias in ['sum_power_laplace', 'kermac_sum_power_laplace']:
        for iters in ([0, 2] if quick else [0, 1, 2, 3]):
            cases.append(dict(family='sum-power-adaptive', kernel=alias, q=r.choice(QS), base=1.0, diag=False, iters=iters, return_best=True,
                              n=12, d=3, nv=6, nt=3, outputs=1, seed=r.randint(0, 2 ** 31 - 1)))
    # logistic leaves in adaptive mode: the stored bandwidth is base x median here too (scale comparison of the IRLS
    # iterates is not attempted: no rounding bound for them)
    for t in range(10 if quick else 80):
        kernel = ['l2', 'l1', 'l2_high_dim', 'lpq'][t % 4]
        q = r.choice([0.7, 1.0, 1.3])
        pn = round(r.uniform(max(q, 0.8), 2.0), 3) if kernel == 'lpq' else None
        cases.append(dict(family='adaptive-fit', kernel=kernel, q=q, p=pn, base=round(math.exp(r.uniform(math.log(0.3), math.log(5.0))), 6),
                          diag=r.random() < 0.3, iters=r.randint(0, 2), return_best=r.random() < 0.6, script=None,
                          n=r.randint(20, 60), d=r.randint(2, 5), nv=r.randint(10, 30), nt=5, outputs=1, correlated=False, spread=r.choice([1.0, 0.05, 30.0]),
                          shift=0.0, scales=[], seed=r.randint(0, 2 ** 31 - 1), replicates=1, logistic=True))
    # the AGOP step itself (Model/AgopStep.lean) against RFM.fit_M
    for t in range(24 if quick else 240):
        kernel = ['l2', 'l1', 'lpq', 'l2_high_dim'][t % 4]
        q = r.choice([1.3, 1.7, 2.0]) if kernel == 'l2_high_dim' else r.choice(QS)
        q = min(q, 1.7) if kernel == 'lpq' else q
        pn = round(r.uniform(max(q, 0.6), 2.0), 3) if kernel == 'lpq' else None
        n = r.randint(3, 24)
        cases.append(dict(family='agop-step', kernel=kernel, q=q, p=pn, base=r.choice([0.5, 1.0, 2.0, 5.0]), n=n, d=r.randint(1, 5),
                          outputs=r.choice([1, 2, 3]), transform=['none', 'full'][(t // 4) % 2], batch=r.choice([None, None, max(1, n // 3)]),
                          seed=r.randint(0, 2 ** 31 - 1)))
    # float32 inputs (what every xRFM leaf is fitted on), several scales: bandwidth = base x median only
    for t in range(12 if quick else 72):
        kernel = ['l2_high_dim', 'l2', 'l1'][t % 3]
        cases.append(dict(family='adaptive-fit-float32', kernel=kernel, q=[1.0, 1.2, 1.3, 2.0][(t // 3) % 4], p=None, base=r.choice([1.0, 5.0]),
                          diag=bool((t // 3) % 2), iters=(t // 6) % 2, return_best=True, script=None, n=r.choice([40, 90, 150]), d=r.randint(2, 6),
                          nv=10, nt=3, outputs=1, correlated=False, spread=[1.0, 0.05][(t // 3) % 2], shift=0.0, scales=[1e-3, 1e-2, 1.0, 1e3],
                          seed=r.randint(0, 2 ** 31 - 1), replicates=1, f32=True))
    r.shuffle(cases)
    return cases


def _single_thread_blas():
    """numpy's BLAS pool (one per worker process) oversubscribes the machine; workers inherit the environment"""
    import os
    for v in ('OMP_NUM_THREADS', 'OPENBLAS_NUM_THREADS', 'MKL_NUM_THREADS'):
        os.environ[v] = '1'


def check(run):
    run.rule = ('real RFM.fit in adaptive mode (float64): stored bandwidth vs base x [lower, upper] median of the Lean model\'s pairwise '
                'distances of the stored transformed centers (rel 1e-9), and predictions of fits on c*X at c*X_test vs the unscaled fit '
                '(rel 1e-6 + first-order effect of the distance rounding on the selected solve); a case is non-trivial when the adapted bandwidth differs from the base by more than 0.1 %')
    run.assumptions = ['training sets below the 5,000-row subsample limit (no random subsampling of the distance matrix)',
                       'at least 8 distinct rows (2-3 replicates of design points allowed): the median distance is >= 1e-14 at every scale (the `< 1e-14 -> 1` guard of _adapt_bandwidth does not fire)',
                       'early_stop_rfm=False, solver "solve" (plus a logistic-solver family checked for the stored bandwidth only), reg=1e-3, float64 tensors, CPU',
                       'in about a third of the fits the validation scores are scripted (same script at every scale) to place the selected iterate first / in the middle / last',
                       'theorem fit_scale_invariant_concrete covers the whole fit with the AGOP step of Model/AgopStep.lean (1e-30 jitter idealised to 0, no centring, all centers used); that model is compared with RFM.fit_M in the family agop-step (general position, n <= 24, light kernel with q >= 1.3)',
                       'if rescaling changes the selected iterate only because two validation scores agree to 1e-7 relative, the case is counted as near-tie, not as a failure']
    _single_thread_blas()
    run.lean()
    if not run.driver_ok:
        return
    # the regenerated defaults of `_adapt_bandwidth` against the live function and against the constants this harness uses
    import inspect
    from xrfm.rfm_src.kernels import Kernel
    drv = core.Driver('C19')
    try:
        facts = drv.ask({'op': 'bandwidth_facts'})
    finally:
        drv.close()
    run.case('bandwidth-defaults', nontrivial_key='defaults', sample=facts)
    sig = inspect.signature(Kernel._adapt_bandwidth).parameters
    if 'error' in facts:
        run.disagree('bandwidth-defaults', {}, f'model has no bandwidth facts: {facts["error"]}')
    else:
        live = {'subsampleLimit': sig['sub_mat_size'].default, 'guardEps': sig['eps'].default, 'mode': sig['adapt_mode'].default}
        want = {'subsampleLimit': facts['subsampleLimit'], 'guardEps': 10.0 ** facts['guardEpsExp10'], 'mode': 'median'}
        if live != want or want['guardEps'] != EPS_GUARD:
            run.disagree('bandwidth-defaults', {'live': live, 'model': want, 'harness_eps': EPS_GUARD},
                         f'defaults of _adapt_bandwidth: live {live}, regenerated model {want}, harness guard {EPS_GUARD}')
    cases = gen_cases(run)
    results = core.pmap(MOD, [{'cases': c} for c in core.chunks(cases, 64)])
    run.absorb('c19', results)
    run.extra['fits'] = sum(1 + len(c.get('scales', [])) for c in cases if c['family'] == 'adaptive-fit')
    worst = 0.0
    for res in results:
        worst = max(worst, (res.get('metrics') or {}).get('agop', 0.0))
    run.extra['agop_step_worst_err_over_allowance'] = worst
    run.extra['tolerances'] = {'agop_step_abs': AGOP_TOL, 'bandwidth_rel': TOL_BW, 'prediction_rel': f'{TOL_PRED} + (1+iters) * first-order distance-rounding bound (per case, see samples)'}


def replay(run, payload):
    _single_thread_blas()
    run.lean()
    results = core.pmap(MOD, [{'cases': [payload['params']]}], workers=1)
    run.absorb('replay', results)
