/-
C13 — Label encoding round-trips and decodes to valid probabilities.

Statements are about `Xrfmv.Codec` (model of `ClassificationConverter`, class_conversion.py) in exact
real arithmetic, for EVERY number of classes `K = n + 1 ≥ 2`, every prior with `Σ prior = 1`
(zeros allowed: classes that never occur) and every real decoder input.

The reduced QR factor `Q` of `torch.linalg.qr` is an oracle: the theorems hold for every `Q` meeting
`QContract` (`QᵀQ = I`, `QQᵀ = I − J/K`); the contract is checked on the real `Q` by the correspondence.
The stored `_invA = torch.linalg.inv(A)` is any one-sided inverse `invA` of `A = [Cᵀ; 1ᵀ]`
(`A · invA = I` or `invA · A = I`); that `A` *is* invertible is `A_invertible`.
`IsProb p` : all entries `≥ 0` and `Σ p = 1`.  Floating-point rounding is outside these statements.
-/
import Xrfmv.Lemmas.Codec

namespace Xrfmv.Props.C13
open Xrfmv.Codec Finset BigOperators

variable {n : ℕ}

/-- The stored inverse: a one-sided inverse of the augmented code matrix. -/
def IsInvOfA (prior : Vec ℝ (n + 1)) (Q : Mat ℝ (n + 1) n) (invA : Mat ℝ (n + 1) (n + 1)) : Prop :=
  Matrix.of (augA prior Q) * Matrix.of invA = 1 ∨ Matrix.of invA * Matrix.of (augA prior Q) = 1

/-- **Key lemma** `A · (prior + Q v) = [v; 1]` for every `v`. -/
theorem decode_explicit (prior : Vec ℝ (n + 1)) (Q : Mat ℝ (n + 1) n) (hQ : QContract Q)
    (hp : ∑ k, prior k = 1) (v : Vec ℝ n) :
    mulVec (augA prior Q) (decodeExplicit prior Q v) = aug v := by
  funext r
  simp only [mulVec, vsum_eq_sum]
  exact augA_mul_decodeExplicit hQ.toQC prior hp v r

/-- `A = [Cᵀ; 1ᵀ]` is invertible for every prior (zeros included), with inverse `[Q | prior]`. -/
theorem A_invertible (prior : Vec ℝ (n + 1)) (Q : Mat ℝ (n + 1) n) (hQ : QContract Q)
    (hp : ∑ k, prior k = 1) :
    Matrix.of (augA prior Q) * Matrix.of (explicitInv prior Q) = 1 ∧
    Matrix.of (explicitInv prior Q) * Matrix.of (augA prior Q) = 1 :=
  ⟨augA_mul_explicitInv hQ.toQC prior hp, explicitInv_mul_augA hQ.toQC prior hp⟩

/-- What the code computes (`[num, 1] @ invAᵀ` with the stored inverse) is `prior + Q · num`. -/
theorem decode_stored_inverse (prior : Vec ℝ (n + 1)) (Q : Mat ℝ (n + 1) n) (hQ : QContract Q)
    (hp : ∑ k, prior k = 1) (invA : Mat ℝ (n + 1) (n + 1)) (hinv : IsInvOfA prior Q invA) (v : Vec ℝ n) :
    decodeInv invA v = decodeExplicit prior Q v := by
  rw [inv_unique hQ.toQC prior hp invA hinv, decodeInv_explicitInv]

/-- **C13 round trip, prevalence (before clamping)**: the code of class `i` decodes to the unit
vector `e_i` – for every `K ≥ 2`, also when class `i` (or any other) has prior 0. -/
theorem roundtrip_prevalence_decode (prior : Vec ℝ (n + 1)) (Q : Mat ℝ (n + 1) n) (hQ : QContract Q)
    (hp : ∑ k, prior k = 1) (invA : Mat ℝ (n + 1) (n + 1)) (hinv : IsInvOfA prior Q invA) (i : Fin (n + 1)) :
    decodeInv invA (encodePrev prior Q i) = fun k => if i = k then 1 else 0 := by
  rw [decode_stored_inverse prior Q hQ hp invA hinv]
  funext k
  exact decodeExplicit_codes hQ.toQC prior hp i k

/-- **C13 round trip, prevalence**: `numerical_to_labels(labels_to_numerical(i)) = i` for every clamp
`0 < ε < 1/2` (the code uses `1e-3`). -/
theorem roundtrip_prevalence (prior : Vec ℝ (n + 1)) (Q : Mat ℝ (n + 1) n) (hQ : QContract Q)
    (hp : ∑ k, prior k = 1) (invA : Mat ℝ (n + 1) (n + 1)) (hinv : IsInvOfA prior Q invA)
    (ε : ℝ) (h0 : 0 < ε) (h2 : ε < 1 / 2) (i : Fin (n + 1)) :
    roundtripPrevInv ε invA prior Q i = i := by
  simp only [roundtripPrevInv, labelPrevInv, probasPrevInv]
  rw [roundtrip_prevalence_decode prior Q hQ hp invA hinv]
  exact argmax_clampNorm_delta h0 h2 i

/-- **C13 round trip, zero_one**: for every `K = n + 1 ≥ 2` and every label (binary column for
`K = 2`, one-hot otherwise), any clamp `0 < ε < 1/2`. -/
theorem roundtrip_zero_one (hn : 1 ≤ n) (ε : ℝ) (h0 : 0 < ε) (h2 : ε < 1 / 2) (l : Fin (n + 1)) :
    roundtripZeroOne ε n l = l.val := by
  unfold roundtripZeroOne
  split_ifs with hK
  · have hn1 : n = 1 := by omega
    subst hn1
    simp only [labelBinary, probasBinary]
    rw [expandBinary_encodeBinary l]
    exact congrArg Fin.val (argmax_clampNorm_delta h0 h2 l)
  · simp only [labelMulti, probasMulti, encodeOneHot_eq]
    exact congrArg Fin.val (argmax_clampNorm_delta h0 h2 l)

/-- **C13 equidistance**: distinct class codes are at squared distance 2 (a regular simplex), whatever
the prior. -/
theorem equidistant (prior : Vec ℝ (n + 1)) (Q : Mat ℝ (n + 1) n) (hQ : QContract Q)
    (i j : Fin (n + 1)) (hij : i ≠ j) :
    sqDist (encodePrev prior Q i) (encodePrev prior Q j) = 2 :=
  sqDist_codes hQ.toQC prior i j hij

/-- **C13 zero ↦ prior**: the zero vector decodes to the empirical class frequencies (before
clamping), for any prior including zero entries. -/
theorem zero_to_prior (prior : Vec ℝ (n + 1)) (Q : Mat ℝ (n + 1) n) (hQ : QContract Q)
    (hp : ∑ k, prior k = 1) (invA : Mat ℝ (n + 1) (n + 1)) (hinv : IsInvOfA prior Q invA) :
    decodeInv invA (fun _ => 0) = prior := by
  rw [decode_stored_inverse prior Q hQ hp invA hinv, decodeExplicit_zero]

/-- **C13 affinity**: before clamping, decoding commutes with affine combinations (`Σ w = 1`,
weights of any sign). -/
theorem decode_affine (prior : Vec ℝ (n + 1)) (Q : Mat ℝ (n + 1) n) (hQ : QContract Q)
    (hp : ∑ k, prior k = 1) (invA : Mat ℝ (n + 1) (n + 1)) (hinv : IsInvOfA prior Q invA)
    {m : ℕ} (w : Vec ℝ m) (hw : ∑ i, w i = 1) (vs : Fin m → Vec ℝ n) :
    decodeInv invA (mixture w vs) = mixture w (fun i => decodeInv invA (vs i)) := by
  simp only [decode_stored_inverse prior Q hQ hp invA hinv]
  exact decodeExplicit_mixture prior Q w hw vs

/-- **C13 affinity on codes**: the mixture `Σ w_i C_i` of class codes decodes to the class mixture `w`. -/
theorem decode_mixture_of_codes (prior : Vec ℝ (n + 1)) (Q : Mat ℝ (n + 1) n) (hQ : QContract Q)
    (hp : ∑ k, prior k = 1) (invA : Mat ℝ (n + 1) (n + 1)) (hinv : IsInvOfA prior Q invA)
    (w : Vec ℝ (n + 1)) (hw : ∑ i, w i = 1) :
    decodeInv invA (mixture w (fun i => encodePrev prior Q i)) = w := by
  rw [decode_affine prior Q hQ hp invA hinv w hw]
  simp only [roundtrip_prevalence_decode prior Q hQ hp invA hinv]
  exact mixture_delta w

/-- Clamping every entry to `[ε, 1-ε]` and dividing by the sum gives a probability row: any `K ≥ 1`,
any `0 < ε < 1`, any real input row. -/
theorem clamp_norm_simplex {K : ℕ} (hK : 1 ≤ K) (ε : ℝ) (h0 : 0 < ε) (h1 : ε < 1) (p : Vec ℝ K) :
    IsProb (clampNorm ε p) :=
  clampNorm_isProb hK h0 h1 p

/-- **C13 validity**: decoding ANY real vector yields a probability row, in every mode and shape
(prevalence with whatever matrix is stored as `_invA`; zero_one binary column; zero_one `K` columns). -/
theorem decode_valid (ε : ℝ) (h0 : 0 < ε) (h1 : ε < 1) :
    (∀ (invA : Mat ℝ (n + 1) (n + 1)) (v : Vec ℝ n), IsProb (probasPrevInv ε invA v)) ∧
    (∀ v : Vec ℝ 1, IsProb (probasBinary ε v)) ∧
    (∀ v : Vec ℝ (n + 1), IsProb (probasMulti ε v)) :=
  ⟨fun _ _ => clampNorm_isProb (Nat.succ_pos n) h0 h1 _,
   fun _ => clampNorm_isProb (by norm_num) h0 h1 _,
   fun _ => clampNorm_isProb (Nat.succ_pos n) h0 h1 _⟩

/-- **C13 validity at the boundary `ε = 0`** (the decoder then clamps to `[0, 1]`): the row is a probability row as soon
as one entry of the affine decode is positive — in particular whenever the entries sum to one, which holds in
'prevalence' mode and for the binary column `[1 - t, t]`. -/
theorem decode_valid_eps0 {K : ℕ} (p : Vec ℝ K) (hpos : ∃ k, 0 < p k) : IsProb (clampNorm 0 p) := by
  have hc : ∀ i, clampVec (0 : ℝ) p i = min (max (p i) 0) 1 := by
    intro i; simp [clampVec, clamp, Xrfmv.Gen.Codec.clampLo, Xrfmv.Gen.Codec.clampHi]
  have hnn : ∀ i, 0 ≤ clampVec (0 : ℝ) p i := by
    intro i; rw [hc]; exact le_min (le_max_right _ _) zero_le_one
  obtain ⟨k, hk⟩ := hpos
  have hkpos : 0 < clampVec (0 : ℝ) p k := by
    rw [hc]; exact lt_min (lt_of_lt_of_le hk (le_max_left _ _)) one_pos
  have hs : 0 < ∑ i, clampVec (0 : ℝ) p i :=
    lt_of_lt_of_le hkpos (Finset.single_le_sum (fun i _ => hnn i) (Finset.mem_univ k))
  constructor
  · intro i
    simp only [clampNorm, vsum_eq_sum]
    exact div_nonneg (hnn i) hs.le
  · simp only [clampNorm, vsum_eq_sum]
    rw [← Finset.sum_div, div_self hs.ne']

/-- Rows that sum to one have a positive entry (`K ≥ 1`): the hypothesis of `decode_valid_eps0` in 'prevalence' mode
and for the binary column. -/
theorem pos_entry_of_sum_one {K : ℕ} (p : Vec ℝ K) (h : ∑ k, p k = 1) : ∃ k, 0 < p k := by
  by_contra hne
  push_neg at hne
  have : ∑ k, p k ≤ 0 := Finset.sum_nonpos fun k _ => hne k
  linarith

/-- **The excluded point**: with `ε = 0` a 'zero_one' row without a positive entry is clamped to the zero row and the
normalisation divides by zero (the real code returns NaN there; reproduced, see DESIGN §11.3 observations).  `ε > 0` in
`decode_valid` is therefore necessary for "any finite real vector". -/
theorem decode_eps0_zero_row {K : ℕ} (p : Vec ℝ K) (h : ∀ k, p k ≤ 0) : ∑ k, clampVec (0 : ℝ) p k = 0 := by
  apply Finset.sum_eq_zero
  intro i _
  simp [clampVec, clamp, Xrfmv.Gen.Codec.clampLo, Xrfmv.Gen.Codec.clampHi, max_eq_right (h i)]

/-- The empirical prior `counts / total` of any count vector that is not all zero (zeros allowed) is a
probability row, so the hypothesis `Σ prior = 1` above is met by every label multiset. -/
theorem prior_is_distribution {K : ℕ} (counts : Vec ℕ K) (hpos : 0 < ∑ k, counts k) :
    IsProb (priorOf counts : Vec ℝ K) :=
  priorOf_isProb counts hpos

/-! ### Non-vacuity: a concrete instance with a class that never occurs -/

/-- Hadamard-type factor for `K = 4`: a rational instance of the QR contract. -/
noncomputable def Q4 : Mat ℝ 4 3 := fun k j => if k.val = 0 ∨ k.val = j.val + 1 then 1 / 2 else -(1 / 2)

theorem Q4_contract : QContract Q4 := by
  constructor
  · intro a b
    fin_cases a <;> fin_cases b <;>
      norm_num [qtq, vsum, delta, Q4, Fin.last, Fin.castSucc, Fin.castAdd, Fin.castLE]
  · intro k l
    fin_cases k <;> fin_cases l <;>
      norm_num [qqt, vsum, delta, Q4, Fin.last, Fin.castSucc, Fin.castAdd, Fin.castLE, ofNat']

/-- Counts `(5, 0, 1, 2)`: class 1 never occurs.  All hypotheses of the theorems above are satisfiable:
the contract by `Q4`, `Σ prior = 1` by the empirical prior, `IsInvOfA` by the explicit inverse. -/
example : ∃ (Q : Mat ℝ 4 3) (prior : Vec ℝ 4) (invA : Mat ℝ 4 4),
    QContract Q ∧ ∑ k, prior k = 1 ∧ prior 1 = 0 ∧ IsInvOfA prior Q invA := by
  have hp : IsProb (priorOf (fun k : Fin 4 => if k.val = 0 then 5 else if k.val = 1 then 0 else if k.val = 2 then 1 else 2) : Vec ℝ 4) :=
    priorOf_isProb _ (by decide)
  refine ⟨Q4, _, explicitInv _ Q4, Q4_contract, hp.2, ?_, Or.inl (A_invertible _ Q4 Q4_contract hp.2).1⟩
  simp [priorOf, ofNat']

end Xrfmv.Props.C13
