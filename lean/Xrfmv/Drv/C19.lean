/- Driver ops for C19 (none yet). -/
import Xrfmv.Drv.Common

namespace Xrfmv.Drv.C19

def ops : List (String × Handler) := []

end Xrfmv.Drv.C19
