/- Helper lemmas for the size skeleton of `_build_tree` (`Xrfmv.BuildSizes`). -/
import Xrfmv.Model.BuildSizes
import Mathlib.Tactic.Ring
import Mathlib.Tactic.Linarith
import Mathlib.Algebra.Order.Ring.Nat
import Mathlib.Algebra.Order.Group.Nat

namespace Xrfmv.BuildSizes
open Xrfmv.Gen.Split

/-- The overlap count after clamping. -/
def clampO (n r : Int) : Int := max 0 (min r n)

theorem leftSize_eq (n r : Int) (hn : 0 ≤ n) :
    leftSize n r = (n - clampO n r + 1) / 2 + clampO n r := by
  simp only [leftSize, maskSize, leftMaskParts, sliceOf, counts, sliceLen, clampO, List.map, List.foldl,
    Option.getD]
  omega

theorem rightSize_eq (n r : Int) (hn : 0 ≤ n) :
    rightSize n r = (n - clampO n r) / 2 + clampO n r := by
  simp only [rightSize, maskSize, rightMaskParts, sliceOf, counts, sliceLen, clampO, List.map, List.foldl,
    Option.getD]
  omega

theorem rightUnique_slice (n r : Int) (hn : 0 ≤ n) :
    sliceLen n (sliceOf (counts n r) .rightUnique) = (counts n r).rightUnique := by
  simp only [sliceOf, counts, sliceLen, Option.getD]
  omega

end Xrfmv.BuildSizes

namespace Xrfmv.BuildSizes
open Xrfmv.Gen.Split

/-- Facts about the two child sizes when the clamps are idle and at least two samples are not shared. -/
theorem children_facts (n r : Int) (hr0 : 0 ≤ r) (hr : r + 2 ≤ n) :
    leftSize n r = (n - r + 1) / 2 + r ∧ rightSize n r = (n - r) / 2 + r ∧
    1 ≤ rightSize n r ∧ rightSize n r ≤ leftSize n r ∧ leftSize n r - rightSize n r ≤ 1 ∧
    leftSize n r < n ∧ leftSize n r + rightSize n r = n + r := by
  have hn : 0 ≤ n := by omega
  rw [leftSize_eq n r hn, rightSize_eq n r hn]
  have hc : clampO n r = r := by simp only [clampO]; omega
  rw [hc]
  omega

/-- The overlap oracle keeps at least two unshared samples at every node that is split. -/
def OvOk (cfg : Cfg) : Prop :=
  ∀ m : Nat, cfg.maxLeaf < m → 0 ≤ cfg.ov m ∧ cfg.ov m + 2 ≤ (m : Int)

theorem leafTest_none (n L count k : Nat) :
    shouldCreateLeaf (n : Int) (L : Int) true (count : Int) (k : Int) = decide (n ≤ L) := by
  simp [shouldCreateLeaf]

/-- One unfolding of `build` at a node that is split and whose assertions hold. -/
theorem build_split (cfg : Cfg) (fuel n count : Nat)
    (hleaf : shouldCreateLeaf n cfg.maxLeaf cfg.nsplits.isNone count (cfg.nsplits.getD 0) = false)
    (hr0 : 0 ≤ cfg.ov n) (hr : cfg.ov n + 2 ≤ (n : Int)) :
    build cfg (fuel + 1) n count =
      (.node n (build cfg fuel (leftSize n (cfg.ov n)).toNat (count + 1)).1
               (build cfg fuel (rightSize n (cfg.ov n)).toNat
                  (build cfg fuel (leftSize n (cfg.ov n)).toNat (count + 1)).2).1,
       (build cfg fuel (rightSize n (cfg.ov n)).toNat
                  (build cfg fuel (leftSize n (cfg.ov n)).toNat (count + 1)).2).2) := by
  obtain ⟨_, _, h1, h2, h3, h4, _⟩ := children_facts n (cfg.ov n) hr0 hr
  have hru := rightUnique_slice n (cfg.ov n) (by omega)
  have hcond : ¬ (n = 0 ∨ leftSize n (cfg.ov n) ≤ 0 ∨ rightSize n (cfg.ov n) ≤ 0 ∨
      leftSize n (cfg.ov n) - rightSize n (cfg.ov n) > 1 ∨
      sliceLen n (sliceOf (counts n (cfg.ov n)) .rightUnique) ≠ (counts n (cfg.ov n)).rightUnique) := by
    rw [hru]; omega
  simp only [build, hleaf, Bool.false_eq_true, if_false, hcond]

/-- **Termination and leaf bound** (no forced splits): with fuel `n + 1` the construction finishes,
no assertion fails, and every leaf has at most `maxLeaf` samples. -/
theorem build_ok (cfg : Cfg) (hns : cfg.nsplits = none) (hov : OvOk cfg) :
    ∀ (fuel n count : Nat), n + 1 ≤ fuel →
      (build cfg fuel n count).1.ok = true ∧ ∀ k ∈ (build cfg fuel n count).1.leaves, k ≤ cfg.maxLeaf := by
  intro fuel
  induction fuel with
  | zero => intro n count h; omega
  | succ fuel ih =>
    intro n count hfuel
    by_cases hle : n ≤ cfg.maxLeaf
    · have : build cfg (fuel + 1) n count = (.leaf n, count) := by
        simp [build, hns, shouldCreateLeaf, hle]
      rw [this]; simp [STree.ok, STree.leaves, hle]
    · have hlt : cfg.maxLeaf < n := by omega
      obtain ⟨hr0, hr⟩ := hov n hlt
      have hleaf : shouldCreateLeaf n cfg.maxLeaf cfg.nsplits.isNone count (cfg.nsplits.getD 0) = false := by
        simp [hns, shouldCreateLeaf, hle]
      rw [build_split cfg fuel n count hleaf hr0 hr]
      obtain ⟨_, _, h1, h2, _, h4, _⟩ := children_facts n (cfg.ov n) hr0 hr
      have hl := ih (leftSize n (cfg.ov n)).toNat (count + 1) (by omega)
      have hrr := ih (rightSize n (cfg.ov n)).toNat
        (build cfg fuel (leftSize n (cfg.ov n)).toNat (count + 1)).2 (by omega)
      refine ⟨by simp [STree.ok, hl.1, hrr.1], ?_⟩
      intro k hk
      simp only [STree.leaves, List.mem_append] at hk
      rcases hk with hk | hk
      · exact hl.2 k hk
      · exact hrr.2 k hk

end Xrfmv.BuildSizes

namespace Xrfmv.BuildSizes
open Xrfmv.Gen.Split

/-- **Depth bound** (zero overlap, no forced splits): a node of size `n ≤ maxLeaf · 2^k` has depth `≤ k`. -/
theorem depth_le (cfg : Cfg) (hns : cfg.nsplits = none) (hz : ∀ m, cfg.ov m = 0) (hL : 2 ≤ cfg.maxLeaf) :
    ∀ (k fuel n count : Nat), n ≤ cfg.maxLeaf * 2 ^ k → (build cfg fuel n count).1.depth ≤ k := by
  intro k
  induction k with
  | zero =>
    intro fuel n count hn
    cases fuel with
    | zero => simp [build, STree.depth]
    | succ fuel =>
      have : build cfg (fuel + 1) n count = (.leaf n, count) := by
        simp only [build, hns, shouldCreateLeaf, Option.isNone_none, Bool.true_or, Bool.and_true]
        simp; omega
      rw [this]; simp [STree.depth]
  | succ k ih =>
    intro fuel n count hn
    cases fuel with
    | zero => simp [build, STree.depth]
    | succ fuel =>
      by_cases hle : n ≤ cfg.maxLeaf
      · have : build cfg (fuel + 1) n count = (.leaf n, count) := by
          simp [build, hns, shouldCreateLeaf, hle]
        rw [this]; simp [STree.depth]
      · have hleaf : shouldCreateLeaf n cfg.maxLeaf cfg.nsplits.isNone count (cfg.nsplits.getD 0) = false := by
          simp [hns, shouldCreateLeaf, hle]
        have hr0 : 0 ≤ cfg.ov n := by rw [hz]
        have hr : cfg.ov n + 2 ≤ (n : Int) := by rw [hz]; omega
        rw [build_split cfg fuel n count hleaf hr0 hr]
        obtain ⟨hl, hrt, _, _, _, _, _⟩ := children_facts n (cfg.ov n) hr0 hr
        rw [hz] at hl hrt
        have hpow : cfg.maxLeaf * 2 ^ (k + 1) = 2 * (cfg.maxLeaf * 2 ^ k) := by ring
        have hlb : (leftSize n (cfg.ov n)).toNat ≤ cfg.maxLeaf * 2 ^ k := by rw [hz, hl]; omega
        have hrb : (rightSize n (cfg.ov n)).toNat ≤ cfg.maxLeaf * 2 ^ k := by rw [hz, hrt]; omega
        have h1 := ih fuel _ (count + 1) hlb
        have h2 := ih fuel _ (build cfg fuel (leftSize n (cfg.ov n)).toNat (count + 1)).2 hrb
        simp only [STree.depth]
        omega

/-- The split counter never decreases, and for a tree without failures it advances by the number
of splits. -/
theorem count_mono (cfg : Cfg) : ∀ (fuel n count : Nat),
    count ≤ (build cfg fuel n count).2 ∧
    ((build cfg fuel n count).1.ok = true →
      (build cfg fuel n count).2 = count + (build cfg fuel n count).1.splits) := by
  intro fuel
  induction fuel with
  | zero => intro n count; simp [build, STree.ok]
  | succ fuel ih =>
    intro n count
    simp only [build]
    split
    · simp [STree.splits]
    · split
      · simp [STree.ok]
      · have h1 := ih (leftSize n (cfg.ov n)).toNat (count + 1)
        have h2 := ih (rightSize n (cfg.ov n)).toNat (build cfg fuel (leftSize n (cfg.ov n)).toNat (count + 1)).2
        refine ⟨by omega, ?_⟩
        intro hok
        simp only [STree.ok, Bool.and_eq_true] at hok
        have e1 := h1.2 hok.1
        have e2 := h2.2 hok.2
        simp only [STree.splits]
        omega

/-- **Forced splits**: if `number_of_splits = s` and construction succeeds, the counter ends `≥ s`. -/
theorem count_ge_nsplits (cfg : Cfg) (s : Nat) (hns : cfg.nsplits = some s) : ∀ (fuel n count : Nat),
    (build cfg fuel n count).1.ok = true → s ≤ (build cfg fuel n count).2 := by
  intro fuel
  induction fuel with
  | zero => intro n count h; simp [build, STree.ok] at h
  | succ fuel ih =>
    intro n count
    simp only [build]
    split
    · rename_i hleaf
      intro _
      simp only [hns, shouldCreateLeaf, Option.isNone_some, Bool.false_or, Option.getD_some,
        Bool.and_eq_true, decide_eq_true_eq] at hleaf
      have := hleaf.2
      omega
    · split
      · intro h; simp [STree.ok] at h
      · intro hok
        simp only [STree.ok, Bool.and_eq_true] at hok
        exact ih _ _ hok.2

end Xrfmv.BuildSizes
