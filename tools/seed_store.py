#!/usr/bin/env python3
"""
Assemble /verif/seeded/<id>/ from a confirmed seeded change.

usage: tools/seed_store.py <results.jsonl> [<notes.json>]
  results.jsonl : lines written by tools/seed_eval.sh (demo with/without, tests, check results)
  notes.json    : optional {id: {"first_run": "missed|caught|no-failing-input", "strengthening": "..."}}
A change is kept only if: the patch applies, the unedited test suite passes with it, the demonstration passes without
it and fails with it.
"""
import json
import os
import re
import shutil
import sys

HERE = os.path.dirname(os.path.dirname(os.path.abspath(__file__)))
SEEDED = os.path.join(HERE, 'seeded')


def trigger_of(notes):
    m = re.search(r'(?is)(trigger|needs?|manifest)[^\n]*\n?(.{0,600})', notes)
    return (m.group(0) if m else notes[:600]).strip()


def main():
    res = {}
    for line in open(sys.argv[1]):
        line = line.strip()
        if not line:
            continue
        d = json.loads(line)
        res[os.path.basename(d['dir'])] = d          # the last evaluation of an id wins
    extra = json.load(open(sys.argv[2])) if len(sys.argv) > 2 else {}
    kept, dropped = [], []
    for sid, d in sorted(res.items()):
        ok = d.get('applies') and d.get('tests_exit') == 0 and d.get('demo_clean_exit') == 0 and d.get('demo_mutant_exit') == 1
        if not ok:
            dropped.append((sid, {k: d.get(k) for k in ('applies', 'tests_exit', 'demo_clean_exit', 'demo_mutant_exit', 'tests')}))
            continue
        src = d['dir']
        dst = os.path.join(SEEDED, sid)
        os.makedirs(dst, exist_ok=True)
        for fn in ('patch.diff', 'demo.py', 'notes.md'):
            if os.path.exists(os.path.join(src, fn)):
                shutil.copy(os.path.join(src, fn), os.path.join(dst, fn))
        notes = open(os.path.join(src, 'notes.md')).read() if os.path.exists(os.path.join(src, 'notes.md')) else ''
        prop = sid.split('-')[0]
        checks = d.get('checks', [])
        meta = {
            'id': sid,
            'property': prop,
            'base_commit': d.get('base', 'see git log of /repo at the time of the evaluation'),
            'origin': 'written by an independent sub-agent that saw only the property text and a scratch worktree of /repo (nothing from /verif)',
            'needs_to_manifest': trigger_of(notes),
            'confirmed': {
                'how': 'tools/seed_eval.sh: scratch git worktree of /repo HEAD (never /repo itself); demo.py run before and after `git apply patch.diff`; '
                       'unedited test suite with the change (OMP_NUM_THREADS=4 pytest -q -p no:cacheprovider --timeout=900 -x tests)',
                'demo_exit_without_change': d['demo_clean_exit'], 'demo_exit_with_change': d['demo_mutant_exit'],
                'tests_with_change': d.get('tests'),
            },
            'checks_run': [{'command': f'VERIF_REPO=<worktree with the change> ./check {c["prop"]} --tier quick', 'exit': c['exit'],
                            'lines': c.get('lines', '')} for c in checks],
            'detected': any(c['exit'] == 1 for c in checks),
            'detected_with_failing_input': any(c['exit'] == 1 and 'no-failing-input-found' not in c.get('lines', '') for c in checks),
        }
        meta.update(extra.get(sid, {}))
        with open(os.path.join(dst, 'meta.json'), 'w') as f:
            json.dump(meta, f, indent=1)
        kept.append((sid, meta['detected'], meta['detected_with_failing_input']))
    print('kept', len(kept))
    for k in kept:
        print(' ', *k)
    print('dropped', dropped)


if __name__ == '__main__':
    main()
