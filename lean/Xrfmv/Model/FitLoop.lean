/-
Model of the selection state machine of `RFM.fit` (recursive_feature_machine.py), over *tags*:
which iterate produced the current / snapshotted / restored weights, feature matrix, root and
bandwidth.  The program that is interpreted (`loopBody`, `finalBody`, guards, snapshot plans) is the
regenerated `Xrfmv.Gen.Select`; this file only gives it a semantics.

Iterate `i` (0-based; `i = iters` is the final refit) is the triple
  weights solved in iteration `i`, feature matrix after `i` AGOP updates, bandwidth adapted at `i`.
-/
import Xrfmv.Scalar
import Xrfmv.Gen.Select

namespace Xrfmv.FitLoop
open Xrfmv.Gen.Select

structure Cfg (α : Type) where
  maximize : Bool
  returnBest : Bool
  earlyStop : Bool
  adaptive : Bool
  mult : α
  iters : Nat

/-- Tags of the live attributes of the RFM object. -/
structure Cur where
  w : Option Nat      -- iterate whose solve produced `self.weights` (`none` after `del self.weights`)
  m : Nat             -- number of AGOP updates applied to `self.M`
  sq : Nat            -- same for `self.sqrtM`
  bw : Nat            -- iterate at which `kernel_obj.bandwidth` was last adapted (0 in constant mode)
  deriving DecidableEq, Repr

/-- The `best_*` locals of `fit`. -/
structure Best (α : Type) where
  metric : α
  w : Option Nat
  m : Option Nat
  sq : Option Nat
  iter : Option Nat
  bw : Nat

structure St (α : Type) where
  cur : Cur
  best : Best α
  stopped : Bool
  evals : List Nat      -- iterates scored so far, most recent first

def init {α : Type} [HasInf α] (cfg : Cfg α) : St α :=
  { cur := { w := none, m := 0, sq := 0, bw := 0 }
    best := { metric := initBest (!cfg.maximize), w := none, m := none, sq := none, iter := none, bw := 0 }
    stopped := false
    evals := [] }

/-- Apply one branch's assignment plan. -/
def applyPlan {α : Type} (p : SnapPlan) (i : Nat) (sc : α) (c : Cur) (b : Best α) : Best α :=
  { metric := match p.metric with | some .curMetric => sc | _ => b.metric
    w := match p.alphas with | some .weights => c.w | _ => b.w
    m := match p.M with | some .M => some c.m | some .sqrtM => some c.sq | _ => b.m
    sq := match p.sqrtM with | some .sqrtM => some c.sq | some .M => some c.m | _ => b.sq
    iter := match p.iter with | some .curIter => some i | _ => b.iter
    bw := match p.bandwidth with | some .bandwidth => c.bw | _ => b.bw }

/-- First guard that fires selects the plan (an `if`/`elif` chain). -/
def firstFiring : List Bool → List SnapPlan → Option SnapPlan
  | true :: _, p :: _ => some p
  | false :: gs, _ :: ps => firstFiring gs ps
  | _, _ => none

def doUpdate {α : Type} [LT α] [DecidableLT α] (cfg : Cfg α) (i : Nat) (sc : α) (st : St α) : St α :=
  match firstFiring (updateGuards cfg.maximize sc st.best.metric) updatePlans with
  | some p => { st with best := applyPlan p i sc st.cur st.best }
  | none => st

def doFitM {α : Type} (st : St α) : St α :=
  { st with cur := { st.cur with m := st.cur.m + 1, sq := st.cur.sq + 1 } }

/-- Interpret a statement list at iterate `i` whose validation score is `sc`.
A firing stop test ends the list (`break`). -/
def runBody {α : Type} [LT α] [DecidableLT α] [Mul α] [Div α]
    (cfg : Cfg α) (i : Nat) (sc : α) : List Step → St α → St α
  | [], st => st
  | .solve :: rest, st =>
      runBody cfg i sc rest
        { st with cur := { st.cur with
            w := some i
            bw := if cfg.adaptive && resetBandwidthBeforeSolve then i else st.cur.bw } }
  | .score :: rest, st => runBody cfg i sc rest { st with evals := i :: st.evals }
  | .update g :: rest, st =>
      runBody cfg i sc rest (if !g || cfg.returnBest then doUpdate cfg i sc st else st)
  | .stopTest g fm :: rest, st =>
      if (!g || cfg.earlyStop) && shouldStop (!cfg.maximize) sc st.best.metric cfg.mult then
        let st := if fm && !cfg.returnBest then doFitM st else st
        { st with stopped := true }
      else runBody cfg i sc rest st
  | .fitM :: rest, st => runBody cfg i sc rest (doFitM st)
  | .delW :: rest, st => runBody cfg i sc rest { st with cur := { st.cur with w := none } }

/-- `for i in range(iters)`: `k` iterations remain, the next one is `i`. -/
def loop {α : Type} [LT α] [DecidableLT α] [Mul α] [Div α]
    (cfg : Cfg α) (s : Nat → α) : (k i : Nat) → St α → St α
  | 0, _, st => st
  | k + 1, i, st =>
      let st' := runBody cfg i (s i) loopBody st
      if st'.stopped then st' else loop cfg s k (i + 1) st'

def final {α : Type} [LT α] [DecidableLT α] [Mul α] [Div α]
    (cfg : Cfg α) (s : Nat → α) (st : St α) : St α :=
  if finalGuardNotStopped && st.stopped then st
  else runBody cfg cfg.iters (s cfg.iters) finalBody st

/-- The attributes of the object when `fit` returns (`w = none` means `best_alphas` was never set and
the real code raises). -/
def restored {α : Type} (cfg : Cfg α) (st : St α) : Cur :=
  if !restore.ifReturnBest || cfg.returnBest then
    { w := if restore.weights then st.best.w else st.cur.w
      m := if restore.M then st.best.m.getD 0 else st.cur.m
      sq := if restore.sqrtM then st.best.sq.getD 0 else st.cur.sq
      bw := if restore.bandwidth then st.best.bw else st.cur.bw }
  else st.cur

structure Result where
  fin : Cur
  bestIter : Option Nat
  evals : List Nat
  stopped : Bool
  deriving DecidableEq, Repr

def fit {α : Type} [HasInf α] [LT α] [DecidableLT α] [Mul α] [Div α]
    (cfg : Cfg α) (s : Nat → α) : Result :=
  let st := final cfg s (loop cfg s cfg.iters 0 (init cfg))
  { fin := restored cfg st, bestIter := st.best.iter, evals := st.evals.reverse, stopped := st.stopped }

end Xrfmv.FitLoop
