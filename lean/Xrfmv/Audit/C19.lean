import Xrfmv.Props.C19
#print axioms Xrfmv.Props.C19.median_scale
#print axioms Xrfmv.Props.C19.upper_median_scale
#print axioms Xrfmv.Props.C19.median_defined
#print axioms Xrfmv.Props.C19.dist_scale
#print axioms Xrfmv.Props.C19.pairDists_scale
#print axioms Xrfmv.Props.C19.bandwidth_scale
#print axioms Xrfmv.Props.C19.profile_scale_invariant
#print axioms Xrfmv.Props.C19.kernel_scale_invariant
#print axioms Xrfmv.Props.C19.gram_invariant
#print axioms Xrfmv.Props.C19.fit_scale_invariant_partial
#print axioms Xrfmv.Props.C19.fit_scale_invariant_iter0
#print axioms Xrfmv.Props.C19.normalised_agop_scale_free
#print axioms Xrfmv.Props.C19.fit_scale_invariant_concrete
