/-
Law-free operation classes shared by the executable models (`Float` instances, used by the driver)
and by the theorems (`ℝ` / `EReal` instances, declared in `Xrfmv/Lemmas/RealInst.lean`).
No laws are assumed here; every law used in a proof comes from the instance at `ℝ`.
-/
namespace Xrfmv

class HasExp (α : Type) where exp : α → α
class HasLog (α : Type) where log : α → α
class HasRpow (α : Type) where rpow : α → α → α
class HasAbs (α : Type) where abs : α → α
class HasSqrt (α : Type) where sqrt : α → α
/-- `float('inf')` / `float('-inf')`. -/
class HasInf (α : Type) where
  posInf : α
  negInf : α

export HasExp (exp)
export HasLog (log)
export HasRpow (rpow)
export HasSqrt (sqrt)

instance : HasExp Float := ⟨Float.exp⟩
instance : HasLog Float := ⟨Float.log⟩
instance : HasRpow Float := ⟨Float.pow⟩
instance : HasAbs Float := ⟨Float.abs⟩
instance : HasSqrt Float := ⟨Float.sqrt⟩
instance : HasInf Float := ⟨1.0 / 0.0, -1.0 / 0.0⟩

end Xrfmv
