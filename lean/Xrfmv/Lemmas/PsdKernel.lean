import Mathlib.Analysis.Matrix.Order
import Mathlib.Analysis.Normed.Algebra.Exponential
import Mathlib.Analysis.SpecialFunctions.Exponential

/-! Positive semi-definite and conditionally negative definite kernels on an arbitrary type. -/
namespace Xrfmv.Psd
open Finset

/-- quadratic form of the Gram matrix of `k` at the points `xs` with weights `w` -/
def qf {X : Type*} (k : X → X → ℝ) {n : ℕ} (xs : Fin n → X) (w : Fin n → ℝ) : ℝ :=
  ∑ i, ∑ j, w i * w j * k (xs i) (xs j)

/-- symmetric, and every Gram matrix has a non-negative quadratic form -/
def IsPSD {X : Type*} (k : X → X → ℝ) : Prop :=
  (∀ x y, k x y = k y x) ∧ ∀ (n : ℕ) (xs : Fin n → X) (w : Fin n → ℝ), 0 ≤ qf k xs w

/-- symmetric, and the quadratic form is non-positive on weights summing to zero -/
def IsCND {X : Type*} (ψ : X → X → ℝ) : Prop :=
  (∀ x y, ψ x y = ψ y x) ∧ ∀ (n : ℕ) (xs : Fin n → X) (w : Fin n → ℝ), ∑ i, w i = 0 → qf ψ xs w ≤ 0

variable {X : Type*}

theorem qf_add (k₁ k₂ : X → X → ℝ) {n : ℕ} (xs : Fin n → X) (w : Fin n → ℝ) :
    qf (fun x y => k₁ x y + k₂ x y) xs w = qf k₁ xs w + qf k₂ xs w := by
  simp only [qf, mul_add, sum_add_distrib]

theorem qf_smul (c : ℝ) (k : X → X → ℝ) {n : ℕ} (xs : Fin n → X) (w : Fin n → ℝ) :
    qf (fun x y => c * k x y) xs w = c * qf k xs w := by
  simp only [qf, mul_sum]
  refine sum_congr rfl fun i _ => sum_congr rfl fun j _ => by ring

theorem qf_const (c : ℝ) {n : ℕ} (xs : Fin n → X) (w : Fin n → ℝ) :
    qf (fun _ _ => c) xs w = c * (∑ i, w i) ^ 2 := by
  simp only [qf]
  rw [sq, sum_mul_sum, mul_sum]
  refine sum_congr rfl fun i _ => ?_
  rw [mul_sum]
  exact sum_congr rfl fun j _ => by ring

theorem qf_rank_one (f : X → ℝ) (k : X → X → ℝ) {n : ℕ} (xs : Fin n → X) (w : Fin n → ℝ) :
    qf (fun x y => f x * f y * k x y) xs w = qf k xs (fun i => w i * f (xs i)) := by
  simp only [qf]
  refine sum_congr rfl fun i _ => sum_congr rfl fun j _ => by ring

theorem IsPSD.add {k₁ k₂ : X → X → ℝ} (h₁ : IsPSD k₁) (h₂ : IsPSD k₂) :
    IsPSD fun x y => k₁ x y + k₂ x y :=
  ⟨fun x y => by beta_reduce; rw [h₁.1 x y, h₂.1 x y], fun n xs w => by
    rw [qf_add]; exact add_nonneg (h₁.2 n xs w) (h₂.2 n xs w)⟩

theorem IsPSD.smul {k : X → X → ℝ} (h : IsPSD k) {c : ℝ} (hc : 0 ≤ c) : IsPSD fun x y => c * k x y :=
  ⟨fun x y => by beta_reduce; rw [h.1 x y], fun n xs w => by rw [qf_smul]; exact mul_nonneg hc (h.2 n xs w)⟩

theorem isPSD_const {c : ℝ} (hc : 0 ≤ c) : IsPSD fun (_ _ : X) => c :=
  ⟨fun _ _ => rfl, fun n xs w => by rw [qf_const]; exact mul_nonneg hc (sq_nonneg _)⟩

/-- **Schur product theorem** for kernels (from Mathlib's `Matrix.PosSemidef.hadamard`). -/
theorem IsPSD.mul {k₁ k₂ : X → X → ℝ} (h₁ : IsPSD k₁) (h₂ : IsPSD k₂) :
    IsPSD fun x y => k₁ x y * k₂ x y := by
  refine ⟨fun x y => by beta_reduce; rw [h₁.1 x y, h₂.1 x y], fun n xs w => ?_⟩
  have gram : ∀ k : X → X → ℝ, IsPSD k →
      (Matrix.of fun i j : Fin n => k (xs i) (xs j)).PosSemidef := by
    intro k hk
    refine Matrix.PosSemidef.of_dotProduct_mulVec_nonneg ?_ fun v => ?_
    · ext i j; simp [Matrix.conjTranspose_apply, hk.1 (xs j) (xs i)]
    · have := hk.2 n xs v
      simp only [qf] at this
      simp only [dotProduct, Matrix.mulVec, Matrix.of_apply, star_trivial, Pi.star_apply, mul_sum]
      refine this.trans_eq (sum_congr rfl fun i _ => sum_congr rfl fun j _ => by ring)
  have h := ((gram k₁ h₁).hadamard (gram k₂ h₂)).dotProduct_mulVec_nonneg w
  simp only [dotProduct, Matrix.mulVec, Matrix.hadamard_apply, Matrix.of_apply, star_trivial,
    Pi.star_apply, mul_sum] at h
  simp only [qf]
  refine h.trans_eq (sum_congr rfl fun i _ => sum_congr rfl fun j _ => by ring)

theorem IsPSD.pow {k : X → X → ℝ} (h : IsPSD k) (m : ℕ) : IsPSD fun x y => k x y ^ m := by
  induction m with
  | zero => simpa using isPSD_const (X := X) zero_le_one
  | succ m ih => simpa only [pow_succ] using ih.mul h

/-- pointwise limits of PSD kernels are PSD -/
theorem isPSD_of_tendsto {k : X → X → ℝ} {kN : ℕ → X → X → ℝ} (hN : ∀ N, IsPSD (kN N))
    (hlim : ∀ x y, Filter.Tendsto (fun N => kN N x y) Filter.atTop (nhds (k x y))) : IsPSD k := by
  refine ⟨fun x y => tendsto_nhds_unique (l := Filter.atTop) (hlim x y) ?_, fun n xs w => ?_⟩
  · simpa only [(hN _).1 x y] using hlim y x
  · have lim : Filter.Tendsto (fun N => qf (kN N) xs w) Filter.atTop (nhds (qf k xs w)) := by
      simp only [qf]
      exact tendsto_finsetSum _ fun i _ => tendsto_finsetSum _ fun j _ => (hlim _ _).const_mul _
    exact ge_of_tendsto' lim fun N => (hN N).2 n xs w

theorem IsPSD.sum_range {kN : ℕ → X → X → ℝ} (hN : ∀ N, IsPSD (kN N)) (M : ℕ) :
    IsPSD fun x y => ∑ m ∈ range M, kN m x y := by
  induction M with
  | zero => simpa using isPSD_const (X := X) le_rfl
  | succ M ih => simpa only [sum_range_succ] using ih.add (hN M)

/-- `exp ∘ k` is PSD when `k` is (power series + Schur). -/
theorem IsPSD.exp {k : X → X → ℝ} (h : IsPSD k) : IsPSD fun x y => Real.exp (k x y) := by
  refine isPSD_of_tendsto (kN := fun N x y => ∑ m ∈ range N, k x y ^ m / (m.factorial : ℝ)) (fun N => ?_) fun x y => ?_
  · refine IsPSD.sum_range (kN := fun m x y => k x y ^ m / (m.factorial : ℝ)) (fun m => ?_) N
    have := (h.pow m).smul (c := ((m.factorial : ℝ))⁻¹) (by positivity)
    simpa only [div_eq_inv_mul] using this
  · have := NormedSpace.expSeries_div_hasSum_exp (𝔸 := ℝ) (k x y)
    rw [← Real.exp_eq_exp_ℝ] at this
    exact this.tendsto_sum_nat

/-- **Schoenberg, the direction used here**: if `ψ` is conditionally negative definite then
`exp (−ψ)` is positive semi-definite. -/
theorem IsCND.exp_neg [Nonempty X] {ψ : X → X → ℝ} (h : IsCND ψ) : IsPSD fun x y => Real.exp (-ψ x y) := by
  obtain ⟨x0⟩ := ‹Nonempty X›
  -- φ(x,y) = ψ(x,x0) + ψ(y,x0) − ψ(x,y) − ψ(x0,x0) is PSD
  have hφ : IsPSD fun x y => ψ x x0 + ψ y x0 - ψ x y - ψ x0 x0 := by
    refine ⟨fun x y => by beta_reduce; rw [h.1 x y]; ring, fun n xs w => ?_⟩
    have hc := h.2 (n + 1) (Fin.cons x0 xs) (Fin.cons (-∑ i, w i) w) (by simp [Fin.sum_univ_succ])
    simp only [qf, Fin.sum_univ_succ, Fin.cons_zero, Fin.cons_succ] at hc
    simp only [qf]
    have e1 : ∑ i, ∑ j, w i * w j * (ψ (xs i) x0 + ψ (xs j) x0 - ψ (xs i) (xs j) - ψ x0 x0) =
        2 * (∑ i, w i) * (∑ i, w i * ψ (xs i) x0) - ∑ i, ∑ j, w i * w j * ψ (xs i) (xs j)
          - (∑ i, w i) ^ 2 * ψ x0 x0 := by
      have a1 : ∑ i, ∑ j, w i * w j * ψ (xs i) x0 = (∑ i, w i) * ∑ i, w i * ψ (xs i) x0 := by
        rw [sum_mul_sum, sum_comm]; exact sum_congr rfl fun i _ => sum_congr rfl fun j _ => by ring
      have a2 : ∑ i, ∑ j, w i * w j * ψ (xs j) x0 = (∑ i, w i) * ∑ i, w i * ψ (xs i) x0 := by
        rw [sum_mul_sum]; exact sum_congr rfl fun i _ => sum_congr rfl fun j _ => by ring
      have a3 : ∑ i, ∑ j : Fin n, w i * w j * ψ x0 x0 = (∑ i, w i) ^ 2 * ψ x0 x0 := by
        rw [sq, sum_mul_sum, sum_mul]; exact sum_congr rfl fun i _ => by rw [sum_mul]
      simp only [mul_sub, mul_add, sum_sub_distrib, sum_add_distrib, a1, a2, a3]; ring
    have e2 : ∑ i, (-∑ i, w i) * w i * ψ x0 (xs i) = -(∑ i, w i) * ∑ i, w i * ψ (xs i) x0 := by
      rw [mul_sum]; exact sum_congr rfl fun i _ => by rw [h.1 x0 (xs i)]; ring
    have e3 : ∑ i, (w i * (-∑ i, w i) * ψ (xs i) x0 + ∑ j, w i * w j * ψ (xs i) (xs j)) =
        -(∑ i, w i) * (∑ i, w i * ψ (xs i) x0) + ∑ i, ∑ j, w i * w j * ψ (xs i) (xs j) := by
      rw [sum_add_distrib, mul_sum]; congr 1; exact sum_congr rfl fun i _ => by ring
    rw [e2, e3] at hc
    rw [e1]; nlinarith [hc]
  have hE := hφ.exp
  refine ⟨fun x y => by beta_reduce; rw [h.1 x y], fun n xs w => ?_⟩
  have key : ∀ x y, Real.exp (-ψ x y) =
      Real.exp (ψ x0 x0) * (Real.exp (-ψ x x0) * Real.exp (-ψ y x0) *
        Real.exp (ψ x x0 + ψ y x0 - ψ x y - ψ x0 x0)) := by
    intro x y; rw [← Real.exp_add, ← Real.exp_add, ← Real.exp_add]; congr 1; ring
  have : qf (fun x y => Real.exp (-ψ x y)) xs w =
      Real.exp (ψ x0 x0) * qf (fun x y => Real.exp (ψ x x0 + ψ y x0 - ψ x y - ψ x0 x0)) xs
        (fun i => w i * Real.exp (-ψ (xs i) x0)) := by
    rw [← qf_rank_one (fun x => Real.exp (-ψ x x0)), ← qf_smul]
    simp only [qf]; exact sum_congr rfl fun i _ => sum_congr rfl fun j _ => by rw [key]
  rw [this]
  exact mul_nonneg (Real.exp_pos _).le (hE.2 n xs _)

end Xrfmv.Psd
