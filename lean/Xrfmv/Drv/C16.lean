/- Driver ops for C16: the metric models on inputs sent as IEEE-754 bit patterns (labels as Nat arrays).

`metric`  evaluates `Xrfmv.Metrics.<name>`:
  * mse, mae, brier          exactly at core `Rat` (every finite float is a dyadic rational) -> `num`/`den`,
                             and the same definition at `Float` -> `f`
  * accuracy, f1, auc        exact `Rat` (`num`/`den`), scores compared exactly
  * rmse, logloss            at `Float` -> `f` (rmse also returns the exact mse as `num`/`den`)
  Rejected with `bad-op: ...` exactly where the real code raises: unknown metric name, a missing required
  quantity (table `Gen.Metrics.required`), empty / ragged / mismatching shapes, non-finite entries, labels
  outside `0..K-1` where the implementation indexes with them, AUC with a class absent or (multi-class)
  rows that do not sum to one.
`tables`  returns the regenerated `Gen.Metrics` tables. -/
import Xrfmv.Drv.Common
import Xrfmv.Model.Metrics

open Lean Xrfmv.Drv

namespace Xrfmv.Drv.C16
open Xrfmv.Metrics

/-- `Nat → Float` for the `.mean()` denominators of the scalar-generic definitions run at `Float`. -/
instance : NatCast Float := ⟨Float.ofNat⟩

/-- exact value of a finite double given by its bit pattern -/
def bitsToRat (n : Nat) : Except String Rat := do
  let sign : Nat := n / 2 ^ 63 % 2
  let e : Nat := n / 2 ^ 52 % 2048
  let m : Nat := n % 2 ^ 52
  if e == 2047 then throw "bad-op: non-finite entry"
  let mag : Rat :=
    if e == 0 then mkRat (m : Int) (2 ^ 1074)
    else if e ≥ 1075 then (((m + 2 ^ 52) * 2 ^ (e - 1075) : Nat) : Rat)
    else mkRat ((m + 2 ^ 52 : Nat) : Int) (2 ^ (1075 - e))
  pure (if sign == 1 then -mag else mag)

def ratToFloat (q : Rat) : Float := Float.ofInt q.num / Float.ofNat q.den

def getBitMat (j : Json) (k : String) : Except String (List (List Nat)) := do
  let a ← j.getObjValAs? (Array (Array Nat)) k
  pure (a.toList.map Array.toList)

def toRatMat (m : List (List Nat)) : Except String (List (List Rat)) := m.mapM (fun r => r.mapM bitsToRat)
def toFloatMat (m : List (List Nat)) : List (List Float) := m.map (fun r => r.map bitsToFloat)

/-- number of columns of a non-empty rectangular matrix with at least one column -/
def cols (m : List (List Nat)) : Except String Nat :=
  match m with
  | [] => throw "bad-op: empty array"
  | r :: rs =>
    if r.length == 0 then throw "bad-op: no columns"
    else if rs.all (fun r' => r'.length == r.length) then pure r.length
    else throw "bad-op: ragged rows"

def ratJson (q : Rat) (extra : List (String × Json) := []) : Json :=
  Json.mkObj ([("num", toJson q.num), ("den", toJson q.den), ("f", fJson (ratToFloat q))] ++ extra)

def hasKey (j : Json) (k : String) : Bool :=
  match j.getObjVal? k with
  | .ok _ => true
  | .error _ => false

/-- `np.allclose(1, s)` with numpy's defaults: `|1 - s| ≤ 1e-8 + 1e-5 |s|` (on the exact row sum) -/
def sumsToOne (r : List Rat) : Bool :=
  let s := sumL r
  let d := if 1 - s < 0 then s - 1 else 1 - s
  let a := if s < 0 then -s else s
  d ≤ mkRat 1 100000000 + mkRat 1 100000 * a

def opMetric : Handler := fun j => do
  let name ← j.getObjValAs? String "name"
  let some req := requiredQuantities name | throw s!"bad-op: unknown metric {name}"
  for q in req do
    if !hasKey j q then throw s!"bad-op: missing quantity {q}"
  if name == "mse" || name == "rmse" || name == "mae" then
    let yb ← getBitMat j "y_true_reg"
    let pb ← getBitMat j "y_pred"
    let ky ← cols yb
    let kp ← cols pb
    if ky != kp || yb.length != pb.length then throw "bad-op: shape mismatch"
    let Y ← toRatMat yb
    let P ← toRatMat pb
    let Yf := toFloatMat yb
    let Pf := toFloatMat pb
    if name == "mse" then
      return ratJson (mse Y P) [("ff", fJson (mse Yf Pf))]
    else if name == "mae" then
      return ratJson (mae Y P) [("ff", fJson (mae Yf Pf))]
    else
      let m := mse Y P
      return Json.mkObj [("num", toJson m.num), ("den", toJson m.den), ("f", fJson (rmse Yf Pf)),
        ("fexact", fJson (Float.sqrt (ratToFloat m)))]
  else
    let y ← j.getObjValAs? (Array Nat) "y_true_class"
    let y := y.toList
    let pb ← getBitMat j "y_pred_proba"
    let K ← cols pb
    if y.length != pb.length then throw "bad-op: shape mismatch"
    let P ← toRatMat pb
    let Pf := toFloatMat pb
    let inRange := y.all (fun c => c < K)
    if name == "accuracy" then
      return ratJson (accuracy y P)
    else if name == "f1" then
      return ratJson (f1 y P)
    else if name == "brier" then
      if !inRange then throw "bad-op: label outside 0..K-1"
      return ratJson (brier y P) [("ff", fJson (brier y Pf))]
    else if name == "logloss" then
      if !inRange then throw "bad-op: label outside 0..K-1"
      if P.any (fun r => r.any (fun p => p < 0 || 1 < p)) then throw "bad-op: probability outside [0,1]"
      return Json.mkObj [("f", fJson (logloss y Pf))]
    else if name == "auc" then
      if !inRange then throw "bad-op: label outside 0..K-1"
      if K == 1 then throw "bad-op: one column"
      if !(List.range K).all (fun c => y.contains c) then throw "bad-op: class absent"
      if K != 2 && !P.all sumsToOne then throw "bad-op: rows do not sum to one"
      return ratJson (auc y P)
    else
      throw s!"bad-op: no model for metric {name}"

def strListJson (l : List String) : Json := toJson l.toArray

def opTables : Handler := fun _ => do
  pure <| Json.mkObj [
    ("flags", Json.mkObj (Xrfmv.Gen.Metrics.flags.map fun (n, b) => (n, toJson b))),
    ("required", Json.mkObj (Xrfmv.Gen.Metrics.required.map fun (n, l) => (n, strListJson l))),
    ("taskTypes", Json.mkObj (Xrfmv.Gen.Metrics.taskTypes.map fun (n, l) => (n, strListJson l))),
    ("classes", Json.mkObj (Xrfmv.Gen.Metrics.classes.map fun (c, n) => (c, toJson n))),
    ("builtin", strListJson builtin),
    ("shouldMaximize", Json.mkObj (builtin.map fun n =>
      (n, match shouldMaximize n with | some b => toJson b | none => Json.null)))]

def ops : List (String × Handler) := [("metric", opMetric), ("tables", opTables)]

end Xrfmv.Drv.C16
