"""
Independent float64 reference implementations (numpy) of the documented kernel closed forms.
Used by property oracles (C01, C02, ...) so that an oracle never calls the code it judges.
"""
import numpy as np


def transform(X, mat):
    X = np.asarray(X, dtype=np.float64)
    if mat is None:
        return X
    mat = np.asarray(mat, dtype=np.float64)
    if mat.ndim == 1:
        return X * mat[None, :]
    return X @ mat


def kernel_matrix(kind, X, Z, L, q, mat=None, p=2.0, const_mix=0.0, power=2):
    """kind in {'l2','l2_light','l1','lpq','sum_power'}.
    `mat` is sqrtM (vector = diagonal, or matrix) for every kind except 'l2_light', which takes M itself."""
    X = np.asarray(X, dtype=np.float64)
    Z = np.asarray(Z, dtype=np.float64)
    if kind == 'l2_light':
        D = X[:, None, :] - Z[None, :, :]
        if mat is None:
            d2 = (D * D).sum(-1)
        else:
            M = np.asarray(mat, dtype=np.float64)
            d2 = (D * D * M[None, None, :]).sum(-1) if M.ndim == 1 else np.einsum('ijd,de,ije->ij', D, M, D)
        d2 = np.maximum(d2, 0.0)
        return np.exp(-(d2 ** (q / 2.0)) / (L ** q))
    U = transform(X, mat)[:, None, :] - transform(Z, mat)[None, :, :]
    A = np.abs(U)
    if kind == 'l2':
        d = np.sqrt((A * A).sum(-1))
        return np.exp(-(d ** q) / (L ** q))
    if kind == 'l1':
        return np.exp(-((A ** q).sum(-1)) / (L ** q))
    if kind == 'lpq':
        d = ((A ** p).sum(-1)) ** (1.0 / p)
        return np.exp(-(d ** q) / (L ** q))
    if kind == 'sum_power':
        e = np.exp(-(A ** q) / (L ** q))
        s = (1.0 - const_mix) * e.mean(-1) + const_mix
        return s ** power
    raise ValueError(kind)


KIND_OF_CLASS = {
    'LaplaceKernel': 'l2', 'LightLaplaceKernel': 'l2_light', 'ProductLaplaceKernel': 'l1',
    'LpqLaplaceKernel': 'lpq', 'SumPowerLaplaceKernel': 'sum_power',
}


def kernel_of_rfm(model, X, Z, bandwidth=None, M=None, sqrtM=None, eps=None):
    """Reference Gram matrix of a fitted RFM's stored state (or of explicitly given state).
    With `eps` (unit round-off of the implementation's dtype) also returns the entrywise allowance."""
    ko = model.kernel_obj
    kind = KIND_OF_CLASS[type(ko).__name__]
    L = float(ko.bandwidth if bandwidth is None else bandwidth)
    M = model.M if M is None else M
    sq = model.sqrtM if sqrtM is None else sqrtM
    mat = M if kind == 'l2_light' else sq
    mat = None if mat is None else mat.detach().cpu().double().numpy()
    kw = {}
    if kind == 'lpq':
        kw['p'] = float(ko.p)
    if kind == 'sum_power':
        kw['const_mix'] = float(ko.const_mix)
        kw['power'] = ko.power
    tonp = lambda t: t.detach().cpu().double().numpy() if hasattr(t, 'detach') else np.asarray(t, dtype=np.float64)
    K = kernel_matrix(kind, tonp(X), tonp(Z), L, float(ko.exponent), mat, **kw)
    if eps is None:
        return K
    return K, kernel_allowance(kind, tonp(X), tonp(Z), L, float(ko.exponent), mat, eps=eps, **kw)


# --------------------------------------------------------------------------------------------------
# rounding allowance of the implementation's kernel entries (DESIGN §4.3): interval image of the
# distance error through g(d) = exp(-d^q / L^q)
# --------------------------------------------------------------------------------------------------
def kernel_allowance(kind, X, Z, L, q, mat=None, p=2.0, const_mix=0.0, power=2, eps=2.0 ** -52, expansion=None):
    """Entrywise bound E with |K_impl - K_exact| <= E for the torch implementation run at unit round-off `eps`.

    `expansion`: whether the implementation computes squared Euclidean distances through
    |x|^2 - 2 x.z + |z|^2 (torch.cdist with p=2 when either side has > 25 rows; LightLaplaceKernel always).
    Default: decided from kind / p / sizes."""
    X = np.asarray(X, dtype=np.float64)
    Z = np.asarray(Z, dtype=np.float64)
    dim = X.shape[1]
    if expansion is None:
        big = X.shape[0] > 25 or Z.shape[0] > 25
        expansion = kind == 'l2_light' or (big and (kind == 'l2' or (kind == 'lpq' and p == 2.0) or (kind == 'l1' and q == 2.0)))
    if kind == 'sum_power':
        return np.full((X.shape[0], Z.shape[0]), 64 * eps * (dim + power))
    if kind == 'l2_light':
        M = None if mat is None else np.asarray(mat, dtype=np.float64)
        if M is None:
            nx, nz = (np.abs(X) ** 2).sum(1), (np.abs(Z) ** 2).sum(1)
        elif M.ndim == 1:
            nx, nz = (X * X * np.abs(M)).sum(1), (Z * Z * np.abs(M)).sum(1)
        else:
            nx, nz = (np.abs(X) @ np.abs(M) * np.abs(X)).sum(1), (np.abs(Z) @ np.abs(M) * np.abs(Z)).sum(1)
        D = X[:, None, :] - Z[None, :, :]
        d2 = (D * D).sum(-1) if M is None else ((D * D * M).sum(-1) if M.ndim == 1 else np.einsum('ijd,de,ije->ij', D, M, D))
        d2 = np.maximum(d2, 0)
        pexp = 2.0
    else:
        U, V = transform(X, mat), transform(Z, mat)
        A = np.abs(U[:, None, :] - V[None, :, :])
        pexp = 2.0 if kind == 'l2' else (q if kind == 'l1' else p)
        d2 = (A ** pexp).sum(-1)             # d^p
        nx, nz = (np.abs(U) ** pexp).sum(1), (np.abs(V) ** pexp).sum(1)
    if expansion:
        delta = 8 * (dim + 4) * eps * (nx[:, None] + nz[None, :] + 2 * np.sqrt(nx[:, None] * nz[None, :]))
    else:
        # exact mode: the differences themselves carry the round-off of the transform
        delta = 8 * (dim + 4) * eps * d2 + (8 * (dim + 4) * eps) ** pexp * (nx[:, None] + nz[None, :])
    g = lambda dp: np.exp(-(np.maximum(dp, 0) ** (q / pexp)) / (L ** q))
    mid = g(d2)
    E = np.maximum(np.abs(g(d2 + delta) - mid), np.abs(g(d2 - delta) - mid)) + 16 * eps
    return E
