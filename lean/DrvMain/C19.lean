import Xrfmv.Drv.C19

def main : IO Unit := Xrfmv.Drv.runDriver Xrfmv.Drv.C19.ops
