"""
Translator recipes for `Gen.FitObj` (property C17, clause "re-fit = fresh"): which learned attributes `xRFM.fit`
re-initialises before it reads them.  Recomputed from the CURRENT `xrfm/xrfm.py` on every run.

The *entry block* of `fit` is the statement list before the tree-building loop (`for ... in tqdm(range(self.n_trees) ...)`).
"Assigned on every path" is computed path-sensitively over `if/else` (an attribute assigned in both branches of an
if/else, or at the top level, is assigned on every path; `try`, loops and `with` are not entered - conservative).

Facts emitted (`facts : FitFacts`), each `true` only if the stated shape is found:
  treesReset            `self.trees = []` on every path of the entry block
  dataDimReset          `self.data_dim = ...` on every path
  nClassesReset         `self.n_classes_ = ...` on every path
  extraParamsReset      `self.extra_rfm_params_ = ...` on every path
  converterResetIfClass inside `if is_class:` the body assigns `self.class_converter_` on every path
  tempResetIfTuning     `self.split_temperature = <configured>` on every path of the entry block, or on every path of the
                        body of `if self.use_temperature_tuning:`
  tempResetFromCtor     ... where <configured> is `getattr(self, '_configured_split_temperature', ...)` or
                        `self._configured_split_temperature`, and `__init__` assigns `self._configured_split_temperature`
                        from its `split_temperature` argument, and nothing else in the class assigns it
  metricSetIfUnset      `self.tuning_metric` is assigned only under `self.tuning_metric is None` (else-branch of
                        `if self.tuning_metric is not None:`), from an expression that reads no attribute of self
  tuneGuardedByFlag     every call `self.fit_temperature(...)` in `fit` is under an `if` whose test has the conjunct
                        `self.use_temperature_tuning`
  tempOnlySetByTuning   outside the entry block and `__init__`/`load_state_dict`, `self.split_temperature` is assigned only in
                        `fit_temperature`
Lists:
  rhsLearnedLoads       (target, attr): learned attributes read by the right-hand sides of the entry assignments (not counting
                        the default argument of `getattr`), e.g. ("extra_rfm_params_", "class_converter_")
  unmodelledLearnedReads learned attributes (assigned anywhere in the call graph of `fit` inside the class) that are also READ
                        in that call graph and are not one of the seven modelled fields - must be empty for the model to be complete
  learnedStores         all attributes assigned in the call graph of `fit` (informational)
"""
import ast
import os
import sys

import py2lean  # the module object whose `generate` is running (py2lean.py's __main__ block imports itself under this name)

U = py2lean.U
Unsupported = py2lean.Unsupported
XRFM_PY = 'xrfm/xrfm.py'
MODELLED = ['trees', 'split_temperature', 'n_classes_', 'class_converter_', 'extra_rfm_params_', 'tuning_metric', 'data_dim']


def lean_str(s):
    return '"' + s.replace('\\', '\\\\').replace('"', '\\"') + '"'


def _fit(src):
    return src.func(XRFM_PY, 'xRFM', 'fit')


def entry_block(src):
    f = _fit(src)
    body = py2lean.strip_doc(f.body)
    for k, s in enumerate(body):
        if isinstance(s, ast.For) and 'self.n_trees' in U(s.iter):
            return body[:k], body[k:]
    raise Unsupported('fit: tree-building loop `for ... range(self.n_trees)` not found')


def stores_attr(s, attr):
    """the Assign statement `self.attr = rhs` -> rhs, else None"""
    if isinstance(s, ast.Assign) and any(U(t) == f'self.{attr}' for t in s.targets):
        return s.value
    return None


def always_assigned(stmts, attr, rhs_out=None):
    """Is `self.attr` assigned on every path through `stmts`? (if/else only)"""
    for s in stmts:
        v = stores_attr(s, attr)
        if v is not None:
            if rhs_out is not None:
                rhs_out.append(v)
            return True
        if isinstance(s, ast.If) and s.orelse:
            a, b = [], []
            if always_assigned(s.body, attr, a) and always_assigned(s.orelse, attr, b):
                if rhs_out is not None:
                    rhs_out.extend(a + b)
                return True
    return False


def find_if(stmts, test_text):
    for s in stmts:
        if isinstance(s, ast.If) and U(s.test) == test_text:
            return s
    return None


def conjuncts(test):
    if isinstance(test, ast.BoolOp) and isinstance(test.op, ast.And):
        return [c for v in test.values for c in conjuncts(v)]
    return [U(test)]


def self_loads(expr, skip_getattr_default=True):
    """attribute names X of `self.X` loaded inside expr"""
    out = []
    skip = set()
    if skip_getattr_default:
        for n in ast.walk(expr):
            if isinstance(n, ast.Call) and U(n.func) == 'getattr' and len(n.args) == 3:
                for m in ast.walk(n.args[2]):
                    skip.add(id(m))
    for n in ast.walk(expr):
        if id(n) in skip:
            continue
        if isinstance(n, ast.Attribute) and isinstance(n.value, ast.Name) and n.value.id == 'self' \
                and isinstance(n.ctx, ast.Load):
            out.append(n.attr)
    return out


def class_methods(src):
    return {m.name: m for m in src.cls(XRFM_PY, 'xRFM').body if isinstance(m, ast.FunctionDef)}


def call_graph_closure(src, root='fit'):
    ms = class_methods(src)
    seen, todo = [], [root]
    while todo:
        m = todo.pop()
        if m in seen or m not in ms:
            continue
        seen.append(m)
        for n in ast.walk(ms[m]):
            if isinstance(n, ast.Call) and isinstance(n.func, ast.Attribute) and isinstance(n.func.value, ast.Name) \
                    and n.func.value.id == 'self' and n.func.attr in ms:
                todo.append(n.func.attr)
    return seen


def attr_stores_loads(src, methods):
    ms = class_methods(src)
    stores, loads = [], []
    for m in methods:
        for n in ast.walk(ms[m]):
            if isinstance(n, ast.Attribute) and isinstance(n.value, ast.Name) and n.value.id == 'self':
                if isinstance(n.ctx, ast.Store):
                    stores.append(n.attr)
                elif isinstance(n.ctx, ast.Load) and n.attr not in ms:
                    loads.append(n.attr)
            # getattr(self, 'name', ...) / hasattr(self, 'name') are reads as well
            if isinstance(n, ast.Call) and U(n.func) in ('getattr', 'hasattr') and len(n.args) >= 2 \
                    and U(n.args[0]) == 'self' and isinstance(n.args[1], ast.Constant):
                loads.append(n.args[1].value)
    return stores, loads


def compute(src):
    entry, rest = entry_block(src)
    facts = {}
    rhs = {}
    for flag, attr in (('treesReset', 'trees'), ('dataDimReset', 'data_dim'), ('nClassesReset', 'n_classes_'),
                       ('extraParamsReset', 'extra_rfm_params_')):
        r = []
        facts[flag] = always_assigned(entry, attr, r)
        rhs[attr] = r
    if facts['treesReset'] and not all(U(v) in ('[]', 'list()') for v in rhs['trees']):
        facts['treesReset'] = False
    # class converter
    r = []
    blk = find_if(entry, 'is_class')
    facts['converterResetIfClass'] = bool(blk is not None and always_assigned(blk.body, 'class_converter_', r)) or \
        always_assigned(entry, 'class_converter_', r)
    rhs['class_converter_'] = r
    # temperature
    r = []
    ok = always_assigned(entry, 'split_temperature', r)
    if not ok:
        blk = find_if(entry, 'self.use_temperature_tuning')
        ok = blk is not None and always_assigned(blk.body, 'split_temperature', r)
    facts['tempResetIfTuning'] = bool(ok)
    rhs['split_temperature'] = r

    def from_cfg(v):
        if isinstance(v, ast.Call) and U(v.func) == 'getattr' and len(v.args) >= 2 and U(v.args[0]) == 'self' \
                and isinstance(v.args[1], ast.Constant) and v.args[1].value == '_configured_split_temperature':
            return True
        return U(v) == 'self._configured_split_temperature'
    ms = class_methods(src)
    cfg_stores = [(m, U(n.value)) for m, fn in ms.items() for n in ast.walk(fn)
                  if isinstance(n, ast.Assign) and any(U(t) == 'self._configured_split_temperature' for t in n.targets)]
    init_args = {a.arg for a in ms['__init__'].args.args + ms['__init__'].args.kwonlyargs}
    facts['tempResetFromCtor'] = bool(ok and r and all(from_cfg(v) for v in r)
                                      and cfg_stores == [('__init__', 'split_temperature')]
                                      and 'split_temperature' in init_args)
    # tuning metric
    r = []
    blk = find_if(entry, 'self.tuning_metric is not None')
    okm = False
    if blk is not None and always_assigned(blk.orelse, 'tuning_metric', r) and not always_assigned(blk.body, 'tuning_metric'):
        okm = True
    else:
        blk2 = find_if(entry, 'self.tuning_metric is None')
        if blk2 is not None and always_assigned(blk2.body, 'tuning_metric', r):
            okm = True
    all_metric_stores = [n for n in ast.walk(_fit(src)) if isinstance(n, ast.Assign)
                         and any(U(t) == 'self.tuning_metric' for t in n.targets)]
    facts['metricSetIfUnset'] = bool(okm and len(all_metric_stores) == len(r) and all(not self_loads(v) for v in r))
    rhs['tuning_metric'] = r
    # the tuning call
    calls = []

    def visit(stmts, guards):
        for s in stmts:
            if isinstance(s, ast.If):
                visit(s.body, guards + conjuncts(s.test))
                visit(s.orelse, guards + ['<else>'])
            elif isinstance(s, (ast.For, ast.While, ast.With, ast.Try)):
                for field in ('body', 'orelse', 'finalbody'):
                    visit(getattr(s, field, []) or [], guards)
                for h in getattr(s, 'handlers', []) or []:
                    visit(h.body, guards)
            else:
                for n in ast.walk(s):
                    if isinstance(n, ast.Call) and U(n.func) == 'self.fit_temperature':
                        calls.append(list(guards))
    visit(py2lean.strip_doc(_fit(src).body), [])
    facts['tuneGuardedByFlag'] = all('self.use_temperature_tuning' in g for g in calls)
    # split_temperature stores elsewhere
    closure = call_graph_closure(src)
    other = []
    for m in closure:
        if m in ('fit', 'fit_temperature'):
            continue
        for n in ast.walk(ms[m]):
            if isinstance(n, ast.Assign) and any(U(t) == 'self.split_temperature' for t in n.targets):
                other.append(m)
    fit_rest_stores = [n for s in rest for n in ast.walk(s) if isinstance(n, ast.Assign)
                       and any(U(t) == 'self.split_temperature' for t in n.targets)]
    facts['tempOnlySetByTuning'] = not other and not fit_rest_stores
    # rhs loads of learned attrs
    stores, loads = attr_stores_loads(src, closure)
    learned = sorted(set(stores))
    pairs = []
    for attr, vs in rhs.items():
        for v in vs:
            for x in self_loads(v):
                if x in learned and (attr, x) not in pairs:
                    pairs.append((attr, x))
    unmodelled = sorted({a for a in stores if a in loads and a not in MODELLED})
    return facts, pairs, unmodelled, learned, closure


FACTS_DECL = '''/-- What `xRFM.fit` re-initialises before reading it (extract/gen_fitobj.py; one flag per modelled attribute). -/
structure FitFacts where
  treesReset : Bool
  dataDimReset : Bool
  nClassesReset : Bool
  extraParamsReset : Bool
  converterResetIfClass : Bool
  tempResetIfTuning : Bool
  tempResetFromCtor : Bool
  metricSetIfUnset : Bool
  tuneGuardedByFlag : Bool
  tempOnlySetByTuning : Bool
  deriving DecidableEq, Repr'''


def item_facts(src):
    facts, _, _, _, _ = compute(src)
    order = ['treesReset', 'dataDimReset', 'nClassesReset', 'extraParamsReset', 'converterResetIfClass', 'tempResetIfTuning',
             'tempResetFromCtor', 'metricSetIfUnset', 'tuneGuardedByFlag', 'tempOnlySetByTuning']
    body = ',\n    '.join(f'{k} := {"true" if facts[k] else "false"}' for k in order)
    return '/-- Facts about the entry block of the current `xRFM.fit`. -/\ndef facts : FitFacts :=\n  { ' + body + ' }'


def item_pairs(src):
    _, pairs, _, _, _ = compute(src)
    return ('/-- Learned attributes read by right-hand sides of the entry assignments: (assigned attribute, attribute read). -/\n'
            'def rhsLearnedLoads : List (String × String) := [' + ', '.join(f'({lean_str(a)}, {lean_str(b)})' for a, b in pairs) + ']')


def item_unmodelled(src):
    _, _, un, _, _ = compute(src)
    return ('/-- Attributes assigned AND read in the call graph of `fit` that the model does not have a field for. -/\n'
            'def unmodelledLearnedReads : List String := [' + ', '.join(lean_str(a) for a in un) + ']')


def item_learned(src):
    _, _, _, learned, closure = compute(src)
    return ('/-- All attributes assigned in the call graph of `fit` (informational). -/\n'
            'def learnedStores : List String := [' + ', '.join(lean_str(a) for a in learned) + ']\n\n'
            '/-- Methods of `xRFM` reachable from `fit` through `self.<method>(...)` calls. -/\n'
            'def fitCallGraph : List String := [' + ', '.join(lean_str(a) for a in sorted(closure)) + ']')


py2lean.register('FitObj', XRFM_PY, [], [
    ('FitFacts', py2lean.const(FACTS_DECL)),
    ('facts', item_facts),
    ('rhsLearnedLoads', item_pairs),
    ('unmodelledLearnedReads', item_unmodelled),
    ('learnedStores', item_learned),
])
