"""
Helpers shared by the xRFM-level protocol checks C17 / C18 / C20: seeded data sets, model construction,
byte-level fingerprints.  Nothing here touches /repo; everything is derived from seeds stored in the case params.
"""
import hashlib
import os
import random
import sys
import warnings

warnings.filterwarnings('ignore')

ENV_VAR = 'PYTORCH_CUDA_ALLOC_CONF'

KERNELS = {
    'l2': {'kernel': 'l2', 'exponent': 1.0},
    'l2e': {'kernel': 'l2', 'exponent': 1.3},
    'l2_high_dim': {'kernel': 'l2_high_dim', 'exponent': 1.0},
    'l2_high_dim_e': {'kernel': 'l2_high_dim', 'exponent': 1.2},
    'l1': {'kernel': 'l1', 'exponent': 1.0},
    'l1e': {'kernel': 'l1', 'exponent': 1.2},
    'lpq': {'kernel': 'lpq', 'exponent': 1.0, 'norm_p': 1.5},
    'sum_power_laplace': {'kernel': 'sum_power_laplace', 'exponent': 1.2},
}


def rfm_params(kernel='l2', diag=False, iters=1, bandwidth=5.0, bandwidth_mode='constant', reg=1e-3, extra_fit=None):
    model = dict(KERNELS[kernel])
    model.update({'bandwidth': bandwidth, 'diag': diag, 'bandwidth_mode': bandwidth_mode})
    fit = {'reg': reg, 'iters': iters, 'verbose': False, 'early_stop_rfm': False}
    fit.update(extra_fit or {})
    return {'model': model, 'fit': fit}


def make_data(seed, n, d, task, n_val=None, n_test=16, noise=0.1):
    """float32 features; task in {'reg1','reg2','bin','multi'} (multi = 3 classes, every class present in train).

    Returns dict of torch tensors: X, y, Xv, yv, Xt (y float32 (n,k) for regression, int64 (n,) for classification)."""
    import torch
    g = torch.Generator().manual_seed(int(seed))
    n_val = n_val if n_val is not None else max(int(0.5 * n), 8)
    tot = n + n_val + n_test
    X = torch.randn(tot, d, generator=g, dtype=torch.float32)
    w = torch.randn(d, 3, generator=g, dtype=torch.float32)
    f = torch.tanh(X @ w) + noise * torch.randn(tot, 3, generator=g, dtype=torch.float32)
    if task == 'reg1':
        y = f[:, :1].contiguous()
    elif task == 'reg2':
        y = f[:, :2].contiguous()
    elif task == 'bin':
        y = (f[:, 0] > f[:, 0].median()).long()
    elif task == 'multi':
        y = f.argmax(dim=1).long()
        y[:3] = torch.tensor([0, 1, 2])  # every class present in the training part
    else:
        raise ValueError(task)
    return {'X': X[:n].contiguous(), 'y': y[:n].contiguous(), 'Xv': X[n:n + n_val].contiguous(),
            'yv': y[n:n + n_val].contiguous(), 'Xt': X[n + n_val:].contiguous()}


def seed_all(s):
    import numpy as np
    import torch
    random.seed(s)
    np.random.seed(s)
    torch.manual_seed(s)


def sha(b):
    return hashlib.sha1(b).hexdigest()[:16]


def fp(a):
    """Fingerprint (dtype, shape, sha1 of the bytes) of a tensor or ndarray."""
    import numpy as np
    import torch
    if isinstance(a, torch.Tensor):
        t = a.detach().cpu().contiguous()
        if t.dtype == torch.bool:
            raw = t.to(torch.uint8).numpy().tobytes()
        else:
            try:
                raw = t.numpy().tobytes()
            except TypeError:
                raw = t.to(torch.float64).numpy().tobytes()
        return {'kind': 'tensor', 'dtype': str(t.dtype).replace('torch.', ''), 'shape': list(t.shape), 'sha': sha(raw)}
    a = np.asarray(a)
    return {'kind': 'ndarray', 'dtype': str(a.dtype), 'shape': list(a.shape), 'sha': sha(np.ascontiguousarray(a).tobytes())}


def tree_depth(tree):
    if tree['type'] == 'leaf':
        return 0
    return 1 + max(tree_depth(tree['left']), tree_depth(tree['right']))


def n_leaves(tree):
    if tree['type'] == 'leaf':
        return 1
    return n_leaves(tree['left']) + n_leaves(tree['right'])


def perturb_history(model, seed, d, calls=6):
    """Object history before a judged call: public API calls on OTHER rows (tensors and arrays, batches of several rows and of
    one row, the same container refilled in place), state export.  What a fitted model answers for a row is a function of its
    stored state and of that row, so none of this may show in the judged call.  Results are discarded; an exception raised here
    is swallowed (every API is judged on its own elsewhere)."""
    import contextlib
    import io
    import numpy as np
    import torch
    g = torch.Generator().manual_seed(int(seed) + 77)
    is_class = getattr(model, 'n_classes_', 0) > 0
    buf = torch.randn(5, d, generator=g, dtype=torch.float32)
    nbuf = buf.numpy().copy()
    done = []
    with contextlib.redirect_stdout(io.StringIO()), contextlib.redirect_stderr(io.StringIO()):
        for k in range(calls):
            kind = int(torch.randint(0, 6, (1,), generator=g))
            rows = torch.randn(int(torch.randint(1, 6, (1,), generator=g)), d, generator=g, dtype=torch.float32) * (1.0 + 2.0 * (k % 2))
            try:
                if kind == 0:
                    model.predict(rows)
                elif kind == 1:
                    model.predict(rows.numpy())
                elif kind == 2:
                    (model.predict_proba if is_class else model.predict)(rows[:1])
                elif kind == 3:
                    buf.copy_(torch.randn(5, d, generator=g, dtype=torch.float32))
                    nbuf[:] = buf.numpy()
                    model.predict(buf)
                    (model.predict_proba if is_class else model.predict)(nbuf)
                elif kind == 4:
                    model.get_state_dict()
                else:
                    if not is_class and not model.split_temperature:
                        model.get_grads(rows)
                    else:
                        model.predict(rows)
                done.append(kind)
            except Exception:       # noqa: BLE001
                done.append(-kind - 1)
    return done
