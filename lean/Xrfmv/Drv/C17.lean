/- Driver ops for C17 (none yet). -/
import Xrfmv.Drv.Common

namespace Xrfmv.Drv.C17

def ops : List (String × Handler) := []

end Xrfmv.Drv.C17
