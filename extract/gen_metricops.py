"""
Translator recipe: Gen.MetricOps <- the `_compute` methods of the four mean-type tuning metrics MSE, RMSE, MAE and Brier
(xrfm/rfm_src/metrics.py).  Each is one method chain `(a - b).square()|.abs() .mean() [.sqrt()] .item()`; the recipe reads the
chain from the AST: minuend and subtrahend (`kwargs[...]`, or the one-hot encoding of the true labels with as many classes as the
probability array has columns), the entry-wise operation, that the mean is taken over ALL entries (no `dim`), the final root.
`Props/C16.lean` proves that the regenerated chain is the metric of `Model/Metrics.lean` for which optimality of perfect predictions
is proved.
"""
import ast

import py2lean
from py2lean import U, Unsupported, strip_doc

M_PY = 'xrfm/rfm_src/metrics.py'

DECL = '''inductive Entry | square | abs
  deriving DecidableEq, Repr
inductive Post | none | sqrt
  deriving DecidableEq, Repr
/-- `(minuend - subtrahend).<entry>().mean()[.sqrt()]` -/
structure MeanMetric where
  minuend : String
  subtrahend : String
  entry : Entry
  meanOverAllEntries : Bool
  post : Post
  deriving DecidableEq, Repr'''

ONEHOT = "torch.nn.functional.one_hot(kwargs['y_true_class'], num_classes=kwargs['y_pred_proba'].shape[-1]).float()"


def metric(cls, lean_name):
    def recipe(src):
        f = src.func(M_PY, cls, '_compute')
        body = strip_doc(f.body)
        names = {}
        ret = None
        for s in body:
            if isinstance(s, ast.Assign) and len(s.targets) == 1 and isinstance(s.targets[0], ast.Name):
                names[s.targets[0].id] = U(s.value)
            elif isinstance(s, ast.Return):
                ret = s.value
            else:
                raise Unsupported(f'{cls}._compute: statement `{U(s)[:70]}`')
        chain, node = [], ret
        while isinstance(node, ast.Call) and isinstance(node.func, ast.Attribute):
            chain.append((node.func.attr, len(node.args) + len(node.keywords)))
            node = node.func.value
        chain.reverse()
        if not (isinstance(node, ast.BinOp) and isinstance(node.op, ast.Sub)):
            raise Unsupported(f'{cls}._compute: base expression `{U(node)[:70]}`')

        def operand(n):
            t = U(n)
            if isinstance(n, ast.Name) and n.id in names:
                t = names[n.id]
            if t == ONEHOT:
                return 'one_hot(y_true_class, num_classes = columns of y_pred_proba)'
            if t.startswith("kwargs['") and t.endswith("']"):
                return t[8:-2]
            raise Unsupported(f'{cls}._compute: operand `{t[:70]}`')
        a, b = operand(node.left), operand(node.right)
        if not chain or chain[-1] != ('item', 0):
            raise Unsupported(f'{cls}._compute: chain {chain}')
        ops = chain[:-1]
        if len(ops) < 2 or ops[0] not in (('square', 0), ('abs', 0)) or ops[1][0] != 'mean':
            raise Unsupported(f'{cls}._compute: chain {chain}')
        mean_all = ops[1][1] == 0
        rest = ops[2:]
        if rest not in ([], [('sqrt', 0)]):
            raise Unsupported(f'{cls}._compute: chain {chain}')
        return (f'/-- `{cls}._compute` -/\n'
                f'def {lean_name} : MeanMetric :=\n'
                f'  {{ minuend := "{a}", subtrahend := "{b}", entry := .{ops[0][0]}, meanOverAllEntries := {"true" if mean_all else "false"}, '
                f'post := .{"sqrt" if rest else "none"} }}')
    return recipe


py2lean.register('MetricOps', M_PY, [], [
    ('decl', py2lean.const(DECL)),
    ('mse', metric('MSE', 'mse')),
    ('rmse', metric('RMSE', 'rmse')),
    ('mae', metric('MAE', 'mae')),
    ('brier', metric('Brier', 'brier')),
])
