/-
C20 — Results do not depend on how inputs are represented.

Thin by nature (DESIGN.md §6 C20): the theorem is a complete finite table over (container, dtype, shape) of the
hand-written coercion model `Xrfmv/Model/Coerce.lean` (no translator recipe: the branches of `xRFM.fit` that the
model mirrors are quoted in that file).  Value-level conversion is torch's.  The tie is the correspondence
(harness/props/c20.py): what every leaf `RFM.fit` receives is recorded for every documented representation and
compared with `coerceX`/`coerceY`; predictions are compared bit-exactly across representations.

Documented interface (the property's quantifier):
  features : float32 tensors, float32 / float64 arrays, shape (n, d)
  targets  : tensors or arrays; float targets in 32 or 64 bit, shape (n,) / (n,1) (one output) or (n,k);
             integer labels of width 8/16/32/64 (signed) or uint8, shape (n,) or (n,1)
OUTSIDE the documented interface (stated explicitly, see `outside_interface`):
  * float64 (or float16, integer) feature TENSORS: `xRFM.fit` keeps a tensor's dtype, so they are not converted
    (float64 features then meet float32 targets in `torch.linalg.solve` and the fit raises);
  * bool labels (treated as a 2-class problem), float16 targets (classification is *not* inferred, but they are not
    32/64-bit floats), an (n,k) integer label matrix (flattened by `reshape(-1)`);
  (NumPy uint16 / uint32 / uint64 labels used to raise NotImplementedError in `y_train_and_val.max()`; that was a genuine
  defect against "integer labels in any integer width", repaired by a `fix:` commit, and they are now inside the interface.)
-/
import Xrfmv.Model.Coerce

namespace Xrfmv.Props.C20
open Xrfmv.Coerce

/-- The enumeration used by the table is complete. -/
theorem mem_allReps (r : Rep) : r ∈ allReps := by
  rcases r with ⟨c, d, s⟩
  cases c <;> cases d <;> cases s <;> decide

/-- **C20 (features)** Every documented feature representation coerces to the one canonical form: a float32
tensor of shape (n, d). -/
theorem coerce_canonical_features (r : Rep) (h : documentedX r = true) : coerceX r = canonX := by
  have : ∀ r ∈ allReps, documentedX r = true → coerceX r = canonX := by decide
  exact this r (mem_allReps r) h

/-- **C20 (targets)** For each kind of data (one-output / multi-output regression, binary / multiclass labels) and
each label encoding, every documented target representation — tensor or array, 32- or 64-bit floats, any integer
width, `(n,)` or `(n,1)` — reaches the tree builder and every leaf as the same canonical tensor: float32,
`(n,1)` / `(n,outs)` / `(n,K)` / `(n,K-1)`; and the task (regression vs classification) is inferred as intended. -/
theorem coerce_canonical_targets (l : Logical) (m : Mode) (r : Rep) (h : documentedY l r = true) :
    coerceY l m r = some (canonY l m) ∧ (isClass r = true ↔ (l = .binary ∨ l = .multi)) := by
  have : ∀ l ∈ allLogical, ∀ m ∈ allModes, ∀ r ∈ allReps, documentedY l r = true →
      coerceY l m r = some (canonY l m) ∧ (isClass r = true ↔ (l = .binary ∨ l = .multi)) := by decide
  exact this l (by cases l <;> decide) m (by cases m <;> decide) r (mem_allReps r) h

/-- **C20 (outputs)** `predict` returns an `(n, outputs)` float array for regression and an `(n,)` integer label
array for classification; `predict_proba` returns `(n, n_classes)` floats — computed from the canonical leaf target
shape through `numerical_to_labels` / `numerical_to_probas`, for both encodings. -/
theorem outputs_documented (l : Logical) (m : Mode) (a : Api) : output l m a = documentedOutput l a := by
  cases l <;> cases m <;> cases a <;> decide

/-- **C20** All documented representations of the same data coerce to the same canonical (dtype, shape): any two
documented feature representations agree, and any two documented target representations of the same kind of data
agree.  (The form in which the property is phrased: "yields the same fitted predictions" then follows from the
correspondence: the same code runs on the same canonical tensors.) -/
theorem coerce_canonical :
    (∀ r₁ r₂ : Rep, documentedX r₁ = true → documentedX r₂ = true → coerceX r₁ = coerceX r₂) ∧
    (∀ (l : Logical) (m : Mode) (r₁ r₂ : Rep), documentedY l r₁ = true → documentedY l r₂ = true →
        coerceY l m r₁ = coerceY l m r₂ ∧ (coerceY l m r₁).isSome = true) := by
  refine ⟨fun r₁ r₂ h₁ h₂ => ?_, fun l m r₁ r₂ h₁ h₂ => ?_⟩
  · rw [coerce_canonical_features r₁ h₁, coerce_canonical_features r₂ h₂]
  · rw [(coerce_canonical_targets l m r₁ h₁).1, (coerce_canonical_targets l m r₂ h₂).1]
    exact ⟨rfl, rfl⟩

/-- **C20 (pre-encoded float labels with a classification metric)** Binarised labels given as 32- or 64-bit floats,
tensors or arrays, shaped `(n,)` or `(n,1)` — and one-hot `(n,K)` matrices — all reach the tree builder (training
and validation side alike) as the same float32 `(n,1)` / `(n,K)` tensor. -/
theorem coerce_canonical_float_class (l : Logical) (r : Rep) (h : documentedYFloatClass l r = true) :
    coerceYFloatClass r = canonYFloatClass l ∧ (canonYFloatClass l).isSome = true := by
  have : ∀ l ∈ allLogical, ∀ r ∈ allReps, documentedYFloatClass l r = true →
      coerceYFloatClass r = canonYFloatClass l ∧ (canonYFloatClass l).isSome = true := by decide
  exact this l (by cases l <;> decide) r (mem_allReps r) h

/-- Non-vacuity: 8 binarised and 4 one-hot representations. -/
example : allLogical.map (fun l => (allReps.filter (documentedYFloatClass l)).length) = [0, 0, 8, 4] := by decide

/-- Symbolic column counts evaluate to the documented numbers: one column for single-output regression and for
binary zero-one labels, `outs`, `K` (one-hot), `K-1` (prevalence); `predict_proba` always has `K` columns. -/
theorem cols_eval (outs K d : Nat) :
    (Cols.one).eval outs K d = 1 ∧ (Cols.outs).eval outs K d = outs ∧ (Cols.classes).eval outs K d = K ∧
    (Cols.classesM1).eval outs K d = K - 1 ∧ (Cols.feats).eval outs K d = d := ⟨rfl, rfl, rfl, rfl, rfl⟩

/-- What is explicitly OUTSIDE the documented interface, and what the model says happens there: feature tensors
that are not float32 keep their dtype (no conversion); bool labels
are taken for a classification problem; float16 targets for regression. -/
theorem outside_interface :
    (documentedX ⟨.tensor, .f64, .mat⟩ = false ∧ coerceX ⟨.tensor, .f64, .mat⟩ ≠ canonX) ∧
    (∀ c s l, documentedY l ⟨c, .bool, s⟩ = false ∧ isClass ⟨c, .bool, s⟩ = true) ∧
    (∀ c s l, documentedY l ⟨c, .f16, s⟩ = false ∧ isClass ⟨c, .f16, s⟩ = false) := by
  refine ⟨by decide, ?_, ?_⟩
  · intro c s l; cases c <;> cases s <;> cases l <;> decide
  · intro c s l; cases c <;> cases s <;> cases l <;> decide

/-- Non-vacuity: the documented interface is not empty — 6 feature representations (3 × the two 2-D shapes) and
8 / 4 / 32 / 32 target representations for the four kinds of data. -/
example : (allReps.filter documentedX).length = 6 ∧
    allLogical.map (fun l => (allReps.filter (documentedY l)).length) = [8, 4, 32, 32] := by decide

end Xrfmv.Props.C20
