import Xrfmv.Drv.C03

def main : IO Unit := Xrfmv.Drv.runDriver Xrfmv.Drv.C03.ops
