/-
Sizes are independent of the data: for every oracle meeting the sort / permutation contracts, the tree built by the
index-level model (`BuildIndex.build`) has the shape and the (pre-refill) leaf sizes of the size skeleton
(`BuildSizes.build`), and threads the same split counter.  Hence everything C06 proves about sizes, depth and forced
splits holds for the trees C07 / C08 talk about.
-/
import Xrfmv.Lemmas.BuildIndexOk

namespace Xrfmv.ShapeAgree
open Xrfmv.Gen.Split Xrfmv.BuildIndex

inductive Shape
  | leaf (n : Nat)
  | node (l r : Shape)
  | bad
  deriving DecidableEq, Repr

def ishape : ITree → Shape
  | .leaf _ c m => .leaf (c.length + m.length)
  | .node l r => .node (ishape l) (ishape r)
  | _ => .bad

def sshape : Xrfmv.BuildSizes.STree → Shape
  | .leaf n => .leaf n
  | .node _ l r => .node (sshape l) (sshape r)
  | _ => .bad

/-- The size-skeleton configuration that corresponds to an index-level configuration and its overlap oracle. -/
def sizeCfg (cfg : Cfg) (O : Oracles) : Xrfmv.BuildSizes.Cfg :=
  { maxLeaf := cfg.maxLeaf, nsplits := cfg.nsplits, ov := O.ov }

theorem refill_length (cfg : Cfg) (O : Oracles) (hc : Contracts O) (path : List Bool) (idx : List Nat) :
    (refill cfg O path idx).1.length + (refill cfg O path idx).2.length = idx.length := by
  have := (refill_perm cfg O path idx (hc.perm path idx.length)).length_eq
  simpa using this

theorem shapes_agree (cfg : Cfg) (O : Oracles) (hc : Contracts O)
    (hov : ∀ m : Nat, ∃ o : Nat, O.ov m = (o : Int) ∧ o ≤ m) :
    ∀ (fuel : Nat) (path : List Bool) (idx : List Nat) (isRoot : Bool) (count : Nat),
      ishape (build cfg O fuel path idx isRoot count).1 =
        sshape (Xrfmv.BuildSizes.build (sizeCfg cfg O) fuel idx.length count).1 ∧
      (build cfg O fuel path idx isRoot count).2 =
        (Xrfmv.BuildSizes.build (sizeCfg cfg O) fuel idx.length count).2 := by
  intro fuel
  induction fuel with
  | zero => intro path idx isRoot count; simp [build, Xrfmv.BuildSizes.build, ishape, sshape]
  | succ fuel ih =>
    intro path idx isRoot count
    simp only [build, Xrfmv.BuildSizes.build, sizeCfg]
    by_cases hleaf : shouldCreateLeaf idx.length cfg.maxLeaf cfg.nsplits.isNone count (cfg.nsplits.getD 0) = true
    · simp only [hleaf, ↓reduceIte]
      split
      · simp only [ishape, sshape, refill_length cfg O hc path idx, and_self]
      · simp [ishape, sshape]
    · simp only [hleaf, Bool.false_eq_true, ↓reduceIte]
      obtain ⟨o, hov', hon⟩ := hov idx.length
      have hlen := child_lengths idx (O.sortO path idx.length) o (hc.sort path idx.length) hon
      have hn0 : (0 : Int) ≤ (idx.length : Int) := by omega
      have hclamp : Xrfmv.BuildSizes.clampO (idx.length : Int) (o : Int) = (o : Int) := by
        simp only [Xrfmv.BuildSizes.clampO]; omega
      have hls : Xrfmv.BuildSizes.leftSize (idx.length : Int) (o : Int) = (((idx.length - o + 1) / 2 + o : Nat) : Int) := by
        rw [Xrfmv.BuildSizes.leftSize_eq _ _ hn0, hclamp]; omega
      have hrs : Xrfmv.BuildSizes.rightSize (idx.length : Int) (o : Int) =
          ((idx.length - (idx.length - o + 1) / 2 : Nat) : Int) := by
        rw [Xrfmv.BuildSizes.rightSize_eq _ _ hn0, hclamp]; omega
      have hru := Xrfmv.BuildSizes.rightUnique_slice (idx.length : Int) (o : Int) hn0
      simp only [leftChild, rightChild, hov', hls, hrs, hru]
      set li := selectBy (sideMask idx.length (O.sortO path idx.length) (o : Int) .left) idx with hli
      set ri := selectBy (sideMask idx.length (O.sortO path idx.length) (o : Int) .right) idx with hri
      have hl1 : li.length = (idx.length - o + 1) / 2 + o := by rw [hlen.1]; omega
      have hr1 : ri.length = idx.length - (idx.length - o + 1) / 2 := hlen.2
      have hiff : (idx.length = 0 ∨ li = [] ∨ ri = []) ↔
          (idx.length = 0 ∨ (((idx.length - o + 1) / 2 + o : Nat) : Int) ≤ 0 ∨
            ((idx.length - (idx.length - o + 1) / 2 : Nat) : Int) ≤ 0 ∨
            (((idx.length - o + 1) / 2 + o : Nat) : Int) - ((idx.length - (idx.length - o + 1) / 2 : Nat) : Int) > 1 ∨
            (counts (idx.length : Int) (o : Int)).rightUnique ≠ (counts (idx.length : Int) (o : Int)).rightUnique) := by
        rw [← List.length_eq_zero_iff (l := li), ← List.length_eq_zero_iff (l := ri), hl1, hr1]
        constructor
        · intro h; omega
        · intro h
          rcases h with h | h | h | h | h
          · omega
          · omega
          · omega
          · omega
          · exact absurd rfl h
      by_cases hbad : idx.length = 0 ∨ li = [] ∨ ri = []
      · rw [if_pos hbad, if_pos (hiff.mp hbad)]
        simp [ishape, sshape]
      · rw [if_neg hbad, if_neg (fun h => hbad (hiff.mpr h))]
        have h1 := ih (path ++ [false]) li (!true) (count + 1)
        rw [hl1] at h1
        have h2 := ih (path ++ [true]) ri (!true) (build cfg O fuel (path ++ [false]) li (!true) (count + 1)).2
        rw [hr1] at h2
        simp only [Int.toNat_natCast, ishape, sshape, sizeCfg] at h1 h2 ⊢
        rw [h1.1, ← h1.2, h2.1, h2.2]
        exact ⟨rfl, rfl⟩

end Xrfmv.ShapeAgree
