/-
Record model of what `xRFM.fit` reads from, and writes to, the object it is called on (property C17, clause
"re-fitting an already fitted model gives the same predictions as a fresh model").  Mathlib-free.

Learned / object attributes that `fit` touches (xrfm.py):
  trees               `self.trees = []` before the tree loop, then `append`
  split_temperature   reset to the constructor value (`_configured_split_temperature`) when `use_temperature_tuning`;
                      READ by `fit_temperature` as the incumbent of its tie rule; overwritten with the tuned value
  n_classes_, class_converter_, extra_rfm_params_   assigned from the data in the task branch (`class_converter_` only
                      for classification; for regression it is neither assigned nor read)
  tuning_metric       NOTE: `fit` assigns `self.tuning_metric` ('brier' / 'mse') when the constructor argument was None,
                      so the task type of a later fit on the same object is forced — the property says "same task type"
  data_dim            `X.shape[1]`
  rfm_params          never assigned by `fit` (NOTE: `__init__` mutates the `default_rfm_params` dict it was given, or
                      its own fresh literal, when `rfm_params is None`: per-object, not history) — part of `Cfg.rest`
Which of them are re-initialised before use is NOT hand-written: it is the regenerated `Gen.FitObj.facts`.

Everything else `fit` computes (tree building, leaf fits, temperature tuning) is an arbitrary `Learner`: two
functions of the *entry object* (all its fields — the most pessimistic reading of "fit may read anything on self"),
the data and the RNG state.
-/
import Xrfmv.Gen.FitObj
import Xrfmv.Model.Rng

namespace Xrfmv.FitObj
open Xrfmv.Gen.FitObj
open Xrfmv.Rng (Rng)

/-- Constructor configuration. -/
structure Cfg where
  useTuning : Bool                -- use_temperature_tuning
  configuredTemp : Option Nat     -- split_temperature argument (kept in `_configured_split_temperature`)
  metricArg : Option Nat          -- tuning_metric argument
  rest : Nat                      -- every other argument (rfm_params, max_leaf_size, split_method, n_trees, ...)
  deriving DecidableEq, Repr

structure Data where
  isClass : Bool                  -- task type
  id : Nat                        -- the data themselves
  deriving DecidableEq, Repr

structure Obj where
  cfg : Cfg
  trees : Option Nat
  splitTemperature : Option Nat
  nClasses : Option Nat
  classConverter : Option Nat
  extraRfmParams : Option Nat
  tuningMetric : Option Nat
  dataDim : Option Nat
  deriving DecidableEq, Repr

/-- State after `xRFM.__init__`. -/
def fresh (cfg : Cfg) : Obj :=
  { cfg := cfg, trees := none, splitTemperature := cfg.configuredTemp, nClasses := none, classConverter := none,
    extraRfmParams := some 0, tuningMetric := cfg.metricArg, dataDim := none }

/-- What the right-hand sides of the entry assignments compute: functions of configuration and data only
(`Gen.FitObj.rhsLearnedLoads` lists the learned attributes they read: only ones assigned just before). -/
structure Derive where
  nClasses : Cfg → Data → Nat
  converter : Cfg → Data → Nat
  extra : Cfg → Data → Nat
  dim : Data → Nat
  defaultMetric : Bool → Nat      -- `'brier' if is_class else 'mse'`

/-- The object after the entry block of `fit` (before the tree loop), driven by the regenerated facts `F`:
a field whose reset is not found in the source keeps its old value. -/
def atEntry (F : FitFacts) (dv : Derive) (o : Obj) (D : Data) : Obj :=
  { cfg := o.cfg
    tuningMetric := if F.metricSetIfUnset && o.tuningMetric.isNone then some (dv.defaultMetric D.isClass) else o.tuningMetric
    nClasses := if F.nClassesReset then some (dv.nClasses o.cfg D) else o.nClasses
    classConverter := if F.converterResetIfClass && D.isClass then some (dv.converter o.cfg D) else o.classConverter
    extraRfmParams := if F.extraParamsReset then some (dv.extra o.cfg D) else o.extraRfmParams
    dataDim := if F.dataDimReset then some (dv.dim D) else o.dataDim
    splitTemperature :=
      if F.tempResetIfTuning && F.tempResetFromCtor && o.cfg.useTuning then o.cfg.configuredTemp else o.splitTemperature
    trees := if F.treesReset then some 0 else o.trees }

/-- The rest of `fit`: tree building (+ leaf fits) and temperature tuning, as arbitrary functions. -/
structure Learner where
  /-- `_build_tree` for every tree: (learned trees, has_split) -/
  build : Obj → Data → Rng → Nat × Bool
  /-- `fit_temperature`: reads the entry object (in particular the incumbent `split_temperature`) and the trees -/
  tune : Obj → Nat → Data → Option Nat

/-- `xRFM.fit`. -/
def fitObj (F : FitFacts) (dv : Derive) (L : Learner) (o : Obj) (D : Data) (r : Rng) : Obj :=
  let e := atEntry F dv o D
  let b := L.build e D r
  let temp :=
    if b.2 && (e.cfg.useTuning || !F.tuneGuardedByFlag || !F.tempOnlySetByTuning) then L.tune e b.1 D else e.splitTemperature
  { e with trees := some b.1, splitTemperature := temp }

/-- What `predict` / `predict_proba` read (the class converter only for classification: `if self.n_classes_ > 0`). -/
structure PredictView where
  cfg : Cfg
  trees : Option Nat
  splitTemperature : Option Nat
  nClasses : Option Nat
  classConverter : Option Nat
  deriving DecidableEq, Repr

def predictView (isClass : Bool) (o : Obj) : PredictView :=
  { cfg := o.cfg, trees := o.trees, splitTemperature := o.splitTemperature, nClasses := o.nClasses,
    classConverter := if isClass then o.classConverter else none }

/-- All ten facts hold. -/
def factsOk (F : FitFacts) : Bool :=
  F.treesReset && F.dataDimReset && F.nClassesReset && F.extraParamsReset && F.converterResetIfClass &&
  F.tempResetIfTuning && F.tempResetFromCtor && F.metricSetIfUnset && F.tuneGuardedByFlag && F.tempOnlySetByTuning

/-- States an object with constructor configuration `cfg` can be in after any number of fits of task type `c`. -/
structure Inv (dv : Derive) (cfg : Cfg) (c : Bool) (o : Obj) : Prop where
  cfg_eq : o.cfg = cfg
  temp : cfg.useTuning = false → o.splitTemperature = cfg.configuredTemp
  metric : (∀ m, cfg.metricArg = some m → o.tuningMetric = some m) ∧
           (cfg.metricArg = none → o.tuningMetric = none ∨ o.tuningMetric = some (dv.defaultMetric c))
  conv : c = false → o.classConverter = none

/-- An object after a history of earlier fits. -/
def afterHistory (F : FitFacts) (dv : Derive) (L : Learner) (cfg : Cfg) (hist : List (Data × Rng)) : Obj :=
  hist.foldl (fun o h => fitObj F dv L o h.1 h.2) (fresh cfg)

end Xrfmv.FitObj
