/- Driver ops for C08 (none yet). -/
import Xrfmv.Drv.Common

namespace Xrfmv.Drv.C08

def ops : List (String × Handler) := []

end Xrfmv.Drv.C08
