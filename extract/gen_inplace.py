"""
Translator recipes for `Gen.InPlace` (property C18): an inventory, recomputed from the CURRENT sources on
every run, of every in-place tensor operation together with the provenance class of its target.

Sources: xrfm/rfm_src/kernels.py (CPU classes only: classes whose name starts with `Kermac` are GPU-only and
skipped, so is the `if __name__ == '__main__'` block), xrfm/rfm_src/utils.py,
xrfm/rfm_src/recursive_feature_machine.py, and - beyond what DESIGN.md asks for - xrfm/xrfm.py and
xrfm/rfm_src/class_conversion.py (where caller tensors enter the library).

THE PASS (part of the trusted base; it is deliberately small, intraprocedural and flow-insensitive)

1. Functions.  Every `def` (module level, method, nested) is analysed on its own; a nested function is named
   `Outer.inner` and sees the variables of the enclosing function (closure).  Lambdas are ignored.

2. In-place sites.  Inside a function (not descending into nested defs) a *site* is
     a. a method call `T.name_(...)` whose name ends in `_` and does not start with `_`
        (clamp_, pow_, mul_, exp_, sqrt_, add_, abs_, scatter_, copy_, zero_, fill_ ...); the op is written
        `T.name_`, e.g. `kernel_mat.clamp_`, `M.diagonal().add_`, `dist_mat[i:i + batch_size].add_`;
     b. a subscript assignment `T[i] = v`                      -> op `T[...] =`;
     c. an augmented assignment `T[i] op= v` or `T op= v`      -> op `T[...] op=` / `T op=`;
     d. a keyword argument `out=T` of any call                -> op `out=T`.
   Not tensor operations and skipped: subscript (aug)assignments whose index is a string literal
   (`kwargs['y_pred'] = ...`, `split_tracker['count'] += 1`), targets all of whose bindings are dict/list
   displays or `dict()`/`list()` calls, `name op= <list>` (list extension) and `name op= <number>` when `name` is a
   counter (not a parameter; every binding of it is a numeric literal or a `range` loop variable).

3. Provenance of an expression, `prov(e)` in {fresh, mayAlias}:
     * a local variable is `fresh` iff EVERY binding of it in the function (assignment, tuple-unpacking
       assignment, for-target, with-as; `= None` is ignored) has a fresh right-hand side and it is not a
       parameter.  (Flow-insensitive "all bindings" is stricter than "last binding".)  Computed as the
       greatest fixed point, so `a = torch.zeros(3); a = a[1:]` stays fresh, while anything reachable from a
       parameter, an attribute or an unknown call is mayAlias.
     * parameters, attributes (`self.M`, `x.T` of a non-fresh x), unknown names                 -> mayAlias
     * allocating calls: `torch.<f>` for f in ALLOC_TORCH (cdist, zeros, empty, ones, eye, *_like, stack, cat,
       where, exp, einsum, arange, nan_to_num, abs, linalg.svd/solve/..., svd_lowrank ...)           -> fresh
       (unless the call has `out=`: then prov(out));  `torch.as_tensor`, `torch.from_numpy`           -> mayAlias
     * allocating methods `e.m(...)` for m in ALLOC_METHODS (sum, mean, clone, abs, square, pow, clamp_min,
       max, argmax, ...)                                                                            -> fresh
     * view-like methods `e.m(...)` for m in VIEW_METHODS (to, float, long, reshape, view, t, transpose,
       diagonal, squeeze, unsqueeze, contiguous, cpu, expand ...), in-place methods `e.m_()` (return self),
       subscripts `e[i]` (basic indexing is a view; advanced indexing copies - treated as a view,
       conservatively) and `.T/.mT`                                                                 -> prov(e)
     * arithmetic `a - b`, `a * b`, `a @ b`, `a ** b`, `a / b`, `a + b`, comparisons, `~a`, `-a`      -> fresh
     * `x if c else y`                                                             -> fresh iff both are
     * a call of a nested function defined in the same function all of whose `return`s are fresh    -> fresh
     * every other call (`self.kernel(...)`, functions of other modules)                            -> mayAlias
   The provenance of a site is prov(T) of its target expression T, with ONE flow-sensitive refinement
   ("last binding in the same block"): if the root variable v of T (T stripped of subscripts, view-like and
   in-place method calls, `.T`) is assigned `v = rhs` by an earlier statement of the very statement list that
   contains the site, and no statement in between binds v anywhere inside it, the site gets prov(rhs)
   (straight-line code: that assignment is the last binding that reaches the site).  This is what classifies
   `projection = torch.zeros(...); projection[best_dim] = 1.0` as fresh although another branch of
   `_build_tree` binds `projection = self.fixed_vector`.

4. Private helpers (one level across functions, added after a behaviour-preserving helper extraction raised an alarm).
   A module-level function or method whose name starts with one underscore is a *private helper*; all definitions of
   that short name in the analysed files are taken together, and all calls `_h(...)`, `self._h(...)`, `cls._h(...)`,
   `Class._h(...)` anywhere in the analysed files are its call sites.
     * a site inside a private helper whose target is (a view of) one of the helper's own parameters (never re-bound in
       it) is `fresh` iff there is at least one call site and EVERY call site passes a fresh tensor for that parameter
       (an omitted argument takes its default, which is not a caller tensor; `*args`/`**kwargs` at a call: mayAlias);
     * a call of a private helper is `fresh` iff every `return` of every definition is fresh or is (a view of) a
       parameter for which this call passes a fresh tensor.
   Public methods and the `_..._impl` methods reached from them with caller tensors stay as before: their call sites
   pass parameters, which are mayAlias.

What the pass does NOT see (stated, not hidden): aliasing through containers, through attributes set elsewhere,
through calls into other functions (handled by the explicit allow-list in Props/C18.lean, which is justified
with the two auxiliary inventories below), and anything torch does internally.  The runtime half of C18
(`Tensor._version` and byte comparison of every caller tensor) covers those.

Auxiliary inventories (used to justify the allow-list):
  `returns`   : (file, function, provenance of the returned value) for every function that returns a value
                (a function with several `return`s is fresh iff all of them are; `return self.f(...)` etc. are
                mayAlias; functions that only `raise NotImplementedError` are omitted)
  `delegates` : (file, function, callee) for functions whose `return` statements are all plain calls:
                the call chain `RFM.kernel -> Kernel.get_kernel_matrix -> _get_kernel_matrix*_impl`
  `aliasBindings` : (file, function, variable, binding) for the root variable of every mayAlias site and of every
                mayAlias argument listed in `callArgs`: `<parameter>`
                or, per assignment, the callee of the right-hand side if it is a call (`self.kernel`), else its text
  `callArgs`  : (file, caller, callee, argument text, provenance) for the first positional argument of every
                call of `matrix_power` / `stable_matrix_power` / `_generate_projection_from_M` (second
                argument for the latter): who hands which matrix to the in-place `M.diagonal().add_(1e-8)`.
"""
import ast
import os
import sys

import py2lean  # the module object whose `generate` is running (py2lean.py's __main__ block imports itself under this name)

U = py2lean.U
Unsupported = py2lean.Unsupported

FILES = [
    'xrfm/rfm_src/kernels.py',
    'xrfm/rfm_src/utils.py',
    'xrfm/rfm_src/recursive_feature_machine.py',
    'xrfm/xrfm.py',
    'xrfm/rfm_src/class_conversion.py',
]

ALLOC_TORCH = {
    'cdist', 'zeros', 'empty', 'ones', 'eye', 'full', 'zeros_like', 'ones_like', 'empty_like', 'full_like',
    'stack', 'cat', 'where', 'exp', 'log', 'sqrt', 'abs', 'einsum', 'arange', 'linspace', 'nan_to_num', 'tensor',
    'randperm', 'randn', 'rand', 'normal', 'diag', 'sum', 'mean', 'median', 'quantile', 'clamp', 'sigmoid',
    'matmul', 'mm', 'cumsum', 'sort', 'nonzero', 'bincount', 'isnan', 'max', 'min', 'norm', 'square', 'pow',
    'linalg.svd', 'linalg.solve', 'linalg.eigh', 'linalg.qr', 'linalg.inv', 'linalg.lu', 'linalg.lu_solve',
    'linalg.cholesky', 'cholesky_solve', 'svd_lowrank', 'lobpcg', 'logsumexp', 'softmax', 'argmax',
}
NOT_ALLOC_TORCH = {'as_tensor', 'from_numpy', 'atleast_2d', 'squeeze', 'unsqueeze', 'reshape', 'transpose', 't'}
ALLOC_METHODS = {
    'sum', 'mean', 'clone', 'abs', 'square', 'pow', 'exp', 'sqrt', 'log', 'clamp', 'clamp_min', 'clamp_max',
    'mul', 'add', 'sub', 'div', 'matmul', 'mm', 'median', 'max', 'min', 'argmax', 'argmin', 'sort', 'norm',
    'std', 'var', 'cumsum', 'nonzero', 'any', 'all', 'item', 'numel', 'dim', 'size', 'sigmoid', 'softmax',
    'neg', 'sign', 'round', 'floor', 'ceil', 'logsumexp', 'topk', 'eq', 'ne', 'lt', 'le', 'gt', 'ge',
}
VIEW_METHODS = {
    'to', 'float', 'double', 'half', 'long', 'int', 'bool', 'type', 'reshape', 'view', 'view_as', 't', 'transpose',
    'permute', 'diagonal', 'squeeze', 'unsqueeze', 'contiguous', 'cpu', 'cuda', 'expand', 'expand_as', 'flatten',
    'detach', 'narrow', 'select', 'split', 'chunk', 'unbind', 'numpy', 'real', 'movedim', 'swapaxes', 'ravel',
}
TUPLE_ALLOC = ALLOC_TORCH
ARITH = (ast.Add, ast.Sub, ast.Mult, ast.Div, ast.MatMult, ast.Pow, ast.Mod, ast.FloorDiv,
         ast.BitAnd, ast.BitOr, ast.BitXor)

FRESH, ALIAS, NONE, CONTAINER = 'fresh', 'mayAlias', 'none', 'container'


def _torch_name(func):
    """`torch.linalg.svd` -> 'linalg.svd'; `torch.cdist` -> 'cdist'; otherwise None."""
    txt = U(func)
    if txt.startswith('torch.'):
        return txt[len('torch.'):]
    if txt.startswith('F.'):
        return None
    return None


def _own_nodes(fn):
    """Nodes of a function body without descending into nested function definitions / lambdas / classes."""
    out = []
    stack = list(fn.body)
    while stack:
        n = stack.pop()
        out.append(n)
        if isinstance(n, (ast.FunctionDef, ast.AsyncFunctionDef, ast.Lambda, ast.ClassDef)):
            continue  # the def itself is a node (a binding of its name); its body belongs to the nested function
        stack.extend(ast.iter_child_nodes(n))
    out.sort(key=lambda n: (getattr(n, 'lineno', 0), getattr(n, 'col_offset', 0)))  # source order, deterministic
    return out


def _targets(t):
    """Names bound by an assignment target, flattened."""
    if isinstance(t, ast.Name):
        return [t.id]
    if isinstance(t, (ast.Tuple, ast.List)):
        return [n for e in t.elts for n in _targets(e)]
    if isinstance(t, ast.Starred):
        return _targets(t.value)
    return []


# ---- private helpers (one level of interprocedural reasoning) --------------------------------------
# REG: short name -> [Fn] for every module-level function / method whose name starts with one underscore (no
# dunder), over all analysed files; CALLS: short name -> [(calling Fn, ast.Call)].  Filled by `build_registry`.
REG, CALLS = {}, {}
_DEPTH = [0]


def _callee_short(func):
    """short name of a possibly private-helper call: `_h(...)`, `self._h(...)`, `cls._h(...)`, `Class._h(...)`."""
    if isinstance(func, ast.Name):
        return func.id, False
    if isinstance(func, ast.Attribute) and isinstance(func.value, ast.Name):
        return func.attr, func.value.id in ('self', 'cls')
    return None, False


def _is_private(name):
    return name.startswith('_') and not name.startswith('__')


def _call_arg(g, call, bound, pname):
    """the argument expression a call hands to parameter `pname` of the definition `g` (None: left to its default)"""
    a = g.node.args
    names = [x.arg for x in a.posonlyargs + a.args]
    if bound and names and names[0] in ('self', 'cls'):
        names = names[1:]
    for k in call.keywords:
        if k.arg == pname:
            return k.value
    if pname in names:
        i = names.index(pname)
        if i < len(call.args) and not any(isinstance(x, ast.Starred) for x in call.args[:i + 1]):
            return call.args[i]
        if any(isinstance(x, ast.Starred) for x in call.args) or any(k.arg is None for k in call.keywords):
            return False          # *args / **kwargs: unknown
        return None
    return False


def _param_fresh_at_every_call(short, pname):
    """every call of the private helper `short`, anywhere in the analysed files, passes a fresh tensor for `pname`
    (at least one call exists); an omitted argument takes the default, which is not a caller tensor"""
    calls = CALLS.get(short, [])
    if not calls or _DEPTH[0] > 3:
        return False
    _DEPTH[0] += 1
    try:
        for f, c, bound in calls:
            for g in REG.get(short, []):
                e = _call_arg(g, c, bound, pname)
                if e is False:
                    return False
                if e is None:
                    continue
                f.solve()
                if f.site_prov(c, e) != FRESH:
                    return False
        return True
    finally:
        _DEPTH[0] -= 1


class Fn:
    """One function with its (flow-insensitive) variable provenance."""

    def __init__(self, node, qual, parent=None):
        self.node, self.qual, self.parent = node, qual, parent
        a = node.args
        self.params = {x.arg for x in a.posonlyargs + a.args + a.kwonlyargs}
        if a.vararg:
            self.params.add(a.vararg.arg)
        if a.kwarg:
            self.params.add(a.kwarg.arg)
        self.nodes = _own_nodes(node)
        self.nested = {n.name: n for n in self.nodes if isinstance(n, ast.FunctionDef)}
        self.nested_fn = {}
        self.bind = {}          # name -> list of rhs descriptors ('expr', node) | ('alias',) | ('elem', node)
        for n in self.nodes:
            if isinstance(n, ast.Assign):
                for t in n.targets:
                    self._bind_target(t, n.value)
            elif isinstance(n, ast.AnnAssign) and n.value is not None:
                self._bind_target(n.target, n.value)
            elif isinstance(n, (ast.For, ast.AsyncFor)):
                rng = isinstance(n.iter, ast.Call) and U(n.iter.func) == 'range'
                for name in _targets(n.target):
                    self.bind.setdefault(name, []).append(('scalar',) if rng else ('alias',))
            elif isinstance(n, ast.With):
                for it in n.items:
                    if it.optional_vars is not None:
                        for name in _targets(it.optional_vars):
                            self.bind.setdefault(name, []).append(('alias',))
            elif isinstance(n, ast.comprehension):
                for name in _targets(n.target):
                    self.bind.setdefault(name, []).append(('alias',))
            elif isinstance(n, ast.NamedExpr):
                self._bind_target(n.target, n.value)
            elif isinstance(n, ast.ExceptHandler) and n.name:
                self.bind.setdefault(n.name, []).append(('alias',))
        self.var = {}
        self._solved = False
        # statement lists ("blocks") of this function and, for every own node, its innermost statement
        self.stmt_of = {}
        self.block_of = {}
        self._index_block(node.body)

    def _index_block(self, block):
        for i, st in enumerate(block):
            if isinstance(st, (ast.FunctionDef, ast.AsyncFunctionDef, ast.ClassDef)):
                self.block_of[id(st)] = (block, i)
                continue
            self.block_of[id(st)] = (block, i)
            sub_blocks = []
            for field in ('body', 'orelse', 'finalbody'):
                b = getattr(st, field, None)
                if isinstance(b, list) and b and isinstance(b[0], ast.stmt):
                    sub_blocks.append(b)
            for h in getattr(st, 'handlers', []) or []:
                sub_blocks.append(h.body)
            for c in getattr(st, 'cases', []) or []:
                sub_blocks.append(c.body)
            inner = {id(x) for b in sub_blocks for x in b}
            stack = [st]
            while stack:
                n = stack.pop()
                self.stmt_of[id(n)] = st
                for c in ast.iter_child_nodes(n):
                    if id(c) in inner or isinstance(c, (ast.FunctionDef, ast.AsyncFunctionDef, ast.Lambda, ast.ClassDef)):
                        continue
                    if isinstance(c, ast.ExceptHandler) or isinstance(c, getattr(ast, 'match_case', ())):
                        continue
                    stack.append(c)
            for b in sub_blocks:
                self._index_block(b)

    @staticmethod
    def _root_name(e):
        while True:
            if isinstance(e, ast.Name):
                return e.id
            if isinstance(e, ast.Subscript):
                e = e.value
            elif isinstance(e, ast.Attribute) and e.attr in ('T', 'mT', 'H', 'real', 'data'):
                e = e.value
            elif isinstance(e, ast.Call) and isinstance(e.func, ast.Attribute) and \
                    (e.func.attr in VIEW_METHODS or (e.func.attr.endswith('_') and not e.func.attr.startswith('_'))):
                e = e.func.value
            else:
                return None

    @staticmethod
    def _binds(st, name):
        """Does statement `st` bind `name` anywhere inside it (any nesting, nested defs excluded)?"""
        stack = [st]
        while stack:
            n = stack.pop()
            if isinstance(n, (ast.Assign, ast.AnnAssign, ast.AugAssign)):
                ts = n.targets if isinstance(n, ast.Assign) else [n.target]
                if any(name in _targets(t) for t in ts):
                    return True
            elif isinstance(n, (ast.For, ast.AsyncFor)) and name in _targets(n.target):
                return True
            elif isinstance(n, ast.With) and any(it.optional_vars is not None and name in _targets(it.optional_vars)
                                                 for it in n.items):
                return True
            elif isinstance(n, ast.NamedExpr) and name in _targets(n.target):
                return True
            elif isinstance(n, (ast.Delete,)) and any(name in _targets(t) for t in n.targets):
                return True
            elif isinstance(n, (ast.FunctionDef, ast.AsyncFunctionDef, ast.ClassDef)):
                if n.name == name:
                    return True
                continue
            elif isinstance(n, ast.Lambda):
                continue
            stack.extend(ast.iter_child_nodes(n))
        return False

    def site_prov(self, node, target):
        """prov(target) refined by the last binding of its root variable in the same statement list."""
        base = self.prov(target)
        name = self._root_name(target)
        st = self.stmt_of.get(id(node))
        if name is None or st is None or id(st) not in self.block_of:
            return base
        block, i = self.block_of[id(st)]
        for j in range(i - 1, -1, -1):
            prev = block[j]
            if isinstance(prev, ast.Assign) and len(prev.targets) == 1 and isinstance(prev.targets[0], ast.Name) \
                    and prev.targets[0].id == name:
                p = self.prov(prev.value)
                return base if p in (NONE, CONTAINER) else self._as_view(p)
            if self._binds(prev, name):
                return base
        return base

    def _bind_target(self, t, value):
        if isinstance(t, ast.Name):
            self.bind.setdefault(t.id, []).append(('expr', value))
        elif isinstance(t, (ast.Tuple, ast.List)):
            if isinstance(value, (ast.Tuple, ast.List)) and len(value.elts) == len(t.elts):
                for a, b in zip(t.elts, value.elts):
                    self._bind_target(a, b)
            else:
                for name in _targets(t):
                    self.bind.setdefault(name, []).append(('unpack', value))

    # ---- solving ---------------------------------------------------------------------------------
    def solve(self):
        if self._solved:
            return
        self._solved = True
        for name, fn in self.nested.items():
            self.nested_fn[name] = Fn(fn, f'{self.qual}.{name}', parent=self)
        self.var = {name: FRESH for name in self.bind if name not in self.params}
        for _ in range(len(self.var) + 2):
            changed = False
            for name in list(self.var):
                if self.var[name] != FRESH:
                    continue
                ps = [self._rhs(b) for b in self.bind[name]]
                real = [p for p in ps if p != NONE]
                if real and all(p == CONTAINER for p in real):
                    new = CONTAINER
                elif all(p in (FRESH, NONE) for p in ps) and real:
                    new = FRESH
                elif not real:
                    new = NONE
                else:
                    new = ALIAS
                if new != self.var[name]:
                    self.var[name] = new
                    changed = True
            if not changed:
                break

    def _rhs(self, b):
        if b[0] == 'alias':
            return ALIAS
        if b[0] == 'scalar':
            return FRESH
        if b[0] == 'expr':
            return self.prov(b[1])
        if b[0] == 'unpack':
            v = b[1]
            if isinstance(v, ast.Call):
                tn = _torch_name(v.func)
                if tn in TUPLE_ALLOC and not any(k.arg == 'out' for k in v.keywords):
                    return FRESH
                if isinstance(v.func, ast.Attribute) and v.func.attr in ('sort', 'max', 'min', 'topk', 'median'):
                    return FRESH
            return ALIAS
        return ALIAS

    def lookup(self, name):
        if name in self.params:
            return ALIAS
        if name in self.var:
            return self.var[name]
        if self.parent is not None:
            self.parent.solve()
            return self.parent.lookup(name)
        return ALIAS

    def nested_returns_fresh(self, name):
        f = self
        while f is not None:
            if name in f.nested:
                f.solve()
                g = f.nested_fn[name]
                return g.returns() == FRESH
            f = f.parent
        return False

    def prov(self, e):
        if isinstance(e, ast.Constant):
            return NONE if e.value is None else FRESH
        if isinstance(e, (ast.Dict, ast.List, ast.ListComp, ast.DictComp, ast.Set, ast.SetComp)):
            return CONTAINER
        if isinstance(e, ast.Name):
            return self.lookup(e.id)
        if isinstance(e, ast.BinOp) and isinstance(e.op, ARITH):
            return FRESH
        if isinstance(e, ast.UnaryOp) and isinstance(e.op, (ast.Invert, ast.USub, ast.UAdd)):
            return FRESH
        if isinstance(e, ast.UnaryOp) and isinstance(e.op, ast.Not):
            return FRESH
        if isinstance(e, (ast.Compare, ast.BoolOp)):
            return FRESH
        if isinstance(e, ast.IfExp):
            a, b = self.prov(e.body), self.prov(e.orelse)
            if a == NONE:
                return b
            if b == NONE:
                return a
            return FRESH if a == FRESH and b == FRESH else (CONTAINER if a == b == CONTAINER else ALIAS)
        if isinstance(e, ast.Subscript):
            return self._as_view(self.prov(e.value))
        if isinstance(e, ast.Attribute):
            if e.attr in ('T', 'mT', 'H', 'real', 'data'):
                return self._as_view(self.prov(e.value))
            return ALIAS
        if isinstance(e, ast.Call):
            out_kw = [k for k in e.keywords if k.arg == 'out']
            if out_kw:
                return self._as_view(self.prov(out_kw[0].value))
            tn = _torch_name(e.func)
            if tn is not None:
                if tn in ALLOC_TORCH:
                    return FRESH
                return ALIAS
            if isinstance(e.func, ast.Name):
                if e.func.id in ('dict', 'list'):
                    return CONTAINER
                if e.func.id in ('int', 'float', 'len', 'min', 'max', 'round', 'bool', 'abs', 'str'):
                    return FRESH
                if self.nested_returns_fresh(e.func.id):
                    return FRESH
                return self._helper_call_prov(e)
            if isinstance(e.func, ast.Attribute):
                m = e.func.attr
                if U(e.func.value) in ('self', 'cls'):
                    return self._helper_call_prov(e)   # method of the object: unknown unless a private helper
                if m in ALLOC_METHODS:
                    return FRESH
                if m in VIEW_METHODS or (m.endswith('_') and not m.startswith('_')):
                    return self._as_view(self.prov(e.func.value))
                return ALIAS
            return ALIAS
        return ALIAS

    def _helper_call_prov(self, e):
        """A call of a private helper (`_h`, `self._h`): fresh when every definition of that name returns a fresh
        tensor or (a view of) one of its own parameters for which this call passes a fresh tensor."""
        short, bound = _callee_short(e.func)
        if short is None or not _is_private(short) or short not in REG or _DEPTH[0] > 3:
            return ALIAS
        _DEPTH[0] += 1
        try:
            for g in REG[short]:
                g.solve()
                rs = [n for n in g.nodes if isinstance(n, ast.Return) and n.value is not None
                      and not (isinstance(n.value, ast.Constant) and n.value.value is None)]
                if not rs:
                    return ALIAS
                for r in rs:
                    if g.prov(r.value) == FRESH:
                        continue
                    root = g._root_name(r.value)
                    if root is None or root not in g.params or root in g.bind:
                        return ALIAS
                    arg = _call_arg(g, e, bound, root)
                    if arg is None or arg is False or self.prov(arg) != FRESH:
                        return ALIAS
            return FRESH
        finally:
            _DEPTH[0] -= 1

    @staticmethod
    def _as_view(p):
        return FRESH if p == FRESH else (CONTAINER if p == CONTAINER else ALIAS)

    def returns(self):
        """fresh iff there is a value-returning `return` and all of them are fresh; None if none returns a value."""
        self.solve()
        rs = [n for n in self.nodes if isinstance(n, ast.Return) and n.value is not None
              and not (isinstance(n.value, ast.Constant) and n.value.value is None)]
        if not rs:
            return None
        ps = [self.prov(r.value) for r in rs]
        return FRESH if all(p == FRESH for p in ps) else ALIAS

    def delegates(self):
        rs = [n for n in self.nodes if isinstance(n, ast.Return) and n.value is not None]
        if rs and all(isinstance(r.value, ast.Call) for r in rs):
            return [U(r.value.func) for r in rs]
        return None

    # ---- sites -----------------------------------------------------------------------------------
    def sites(self):
        self.solve()
        out = []
        for n in self.nodes:
            if isinstance(n, ast.Call):
                f = n.func
                if isinstance(f, ast.Attribute) and f.attr.endswith('_') and not f.attr.startswith('_') \
                        and not U(f.value).startswith(('torch.nn.init', 'nn.init')):
                    p = self.prov(f.value)
                    if p != CONTAINER:
                        out.append((n.lineno, n.col_offset, f'{U(f.value)}.{f.attr}', self._site_prov(self.site_prov(n, f.value), f.value)))
                for k in n.keywords:
                    if k.arg == 'out':
                        out.append((n.lineno, n.col_offset + 1, f'out={U(k.value)}', self._site_prov(self.site_prov(n, k.value), k.value)))
            elif isinstance(n, ast.Assign):
                for t in n.targets:
                    for s in self._sub_targets(t):
                        if self._is_tensor_subscript(s):
                            out.append((n.lineno, n.col_offset, f'{U(s.value)}[...] =', self._site_prov(self.site_prov(n, s.value), s.value)))
            elif isinstance(n, ast.AugAssign):
                op = {ast.Add: '+', ast.Sub: '-', ast.Mult: '*', ast.Div: '/', ast.MatMult: '@', ast.Pow: '**',
                      ast.BitAnd: '&', ast.BitOr: '|', ast.BitXor: '^', ast.Mod: '%', ast.FloorDiv: '//'}.get(type(n.op), '?')
                t = n.target
                if isinstance(t, ast.Subscript):
                    if self._is_tensor_subscript(t):
                        out.append((n.lineno, n.col_offset, f'{U(t.value)}[...] {op}=', self._site_prov(self.site_prov(n, t.value), t.value)))
                elif isinstance(t, ast.Name):
                    v = n.value
                    if isinstance(v, ast.Constant) and isinstance(v.value, (int, float)) and self._is_counter(t.id):
                        continue
                    if isinstance(v, (ast.List, ast.ListComp)):
                        continue
                    if self.prov(t) == CONTAINER:
                        continue
                    out.append((n.lineno, n.col_offset, f'{t.id} {op}=', self._site_prov(self.site_prov(n, t), t)))
                elif isinstance(t, ast.Attribute):
                    out.append((n.lineno, n.col_offset, f'{U(t)} {op}=', 'mayAlias'))
        out.sort()
        return [(op, p) for _, _, op, p in out]

    def _is_counter(self, name):
        """`i = 0 ... i += 1`: a local (or enclosing-function local) all of whose bindings are numeric literals / range loops."""
        f = self
        while f is not None:
            if name in f.params:
                return False
            bs = f.bind.get(name)
            if bs:
                return all(b[0] == 'scalar' or (b[0] == 'expr' and isinstance(b[1], ast.Constant)
                                                and isinstance(b[1].value, (int, float)) and not isinstance(b[1].value, bool))
                           for b in bs)
            f = f.parent
        return False

    def _site_prov(self, p, target=None):
        if p == FRESH:
            return 'fresh'
        # the target is (a view of) a parameter of a private helper: fresh when every call of the helper passes a fresh tensor
        if target is not None and self.parent is None:
            short = self.qual.split('.')[-1]
            root = self._root_name(target)
            if _is_private(short) and root is not None and root in self.params and root not in self.bind \
                    and root not in ('self', 'cls') and _param_fresh_at_every_call(short, root):
                return 'fresh'
        return 'mayAlias'

    @staticmethod
    def _sub_targets(t):
        if isinstance(t, ast.Subscript):
            return [t]
        if isinstance(t, (ast.Tuple, ast.List)):
            return [s for e in t.elts for s in Fn._sub_targets(e)]
        return []

    def _is_tensor_subscript(self, s):
        if isinstance(s.slice, ast.Constant) and isinstance(s.slice.value, str):
            return False
        return self.prov(s.value) != CONTAINER


_REG_FOR = [None]


def build_registry(src):
    """(re)build REG / CALLS for this source tree (once per translator run)"""
    if _REG_FOR[0] is src:
        return
    _REG_FOR[0] = src
    REG.clear()
    CALLS.clear()
    allf = []
    for rel in FILES:
        allf += _functions(src, rel)
    for qual, f in allf:
        short = qual.split('.')[-1]
        if f.parent is None and _is_private(short):
            REG.setdefault(short, []).append(f)
    for qual, f in allf:
        for n in f.nodes:
            if isinstance(n, ast.Call):
                short, bound = _callee_short(n.func)
                if short in REG:
                    CALLS.setdefault(short, []).append((f, n, bound))


def functions(src, rel):
    build_registry(src)
    return _functions(src, rel)


def _functions(src, rel):
    """All analysed functions of a file: [(qualname, Fn)], nested ones included, Kermac classes skipped."""
    tree = src.tree(rel)
    out = []

    def add(fn_node, qual, parent):
        f = Fn(fn_node, qual, parent)
        f.solve()
        out.append((qual, f))
        for name in f.nested:
            g = f.nested_fn[name]
            out.append((g.qual, g))
            _add_nested(g)

    def _add_nested(f):
        f.solve()
        for name in f.nested:
            g = f.nested_fn[name]
            out.append((g.qual, g))
            _add_nested(g)

    for n in tree.body:
        if isinstance(n, ast.FunctionDef):
            add(n, n.name, None)
        elif isinstance(n, ast.ClassDef):
            if n.name.startswith('Kermac'):
                continue
            for m in n.body:
                if isinstance(m, ast.FunctionDef):
                    add(m, f'{n.name}.{m.name}', None)
    return out


def lean_str(s):
    return '"' + s.replace('\\', '\\\\').replace('"', '\\"') + '"'


def short(rel):
    return rel.split('/')[-1]


PROV_DECL = '''/-- Provenance class of the target of an in-place operation (extract/gen_inplace.py). -/
inductive Prov | fresh | mayAlias
  deriving DecidableEq, Repr'''


def item_sites(src):
    rows = []
    for rel in FILES:
        for qual, f in functions(src, rel):
            for op, p in f.sites():
                rows.append(f'  ({lean_str(short(rel))}, {lean_str(qual)}, {lean_str(op)}, .{p})')
    if not rows:
        raise Unsupported('no in-place site found at all: sources not understood')
    return ('/-- Every in-place tensor operation of the CPU code paths: (file, function, operation, provenance of its '
            'target). -/\n'
            'def sites : List (String × String × String × Prov) := [\n' + ',\n'.join(rows) + ']')


def item_returns(src):
    rows = []
    for rel in FILES[:3]:
        for qual, f in functions(src, rel):
            r = f.returns()
            if r is None:
                continue
            owner, _, name = qual.rpartition('.')
            rows.append(f'  ({lean_str(short(rel))}, {lean_str(owner)}, {lean_str(name)}, '
                        f'.{"fresh" if r == FRESH else "mayAlias"})')
    return ('/-- Provenance of the value returned by each function (fresh iff every `return` is): '
            '(file, owner class or enclosing function, name, provenance). -/\n'
            'def returns : List (String × String × String × Prov) := [\n' + ',\n'.join(rows) + ']')


def item_delegates(src):
    rows = []
    for rel in FILES[:3]:
        for qual, f in functions(src, rel):
            d = f.delegates()
            if d is None:
                continue
            for callee in d:
                rows.append(f'  ({lean_str(short(rel))}, {lean_str(qual)}, {lean_str(callee)})')
    return ('/-- Functions all of whose `return`s are plain calls: (file, function, callee). -/\n'
            'def delegates : List (String × String × String) := [\n' + ',\n'.join(rows) + ']')


def item_aliasBindings(src):
    rows = []
    for rel in FILES:
        for qual, f in functions(src, rel):
            f.solve()
            roots = []
            for n in f.nodes:
                cands = []
                if isinstance(n, ast.Call):
                    fn = n.func
                    if isinstance(fn, ast.Attribute) and fn.attr.endswith('_') and not fn.attr.startswith('_'):
                        cands.append(fn.value)
                    cands += [k.value for k in n.keywords if k.arg == 'out']
                elif isinstance(n, ast.Assign):
                    cands += [s.value for t in n.targets for s in Fn._sub_targets(t) if f._is_tensor_subscript(s)]
                elif isinstance(n, ast.AugAssign) and isinstance(n.target, ast.Subscript) \
                        and f._is_tensor_subscript(n.target):
                    cands.append(n.target.value)
                for c in cands:
                    if f.site_prov(n, c) not in (FRESH, CONTAINER):
                        r = Fn._root_name(c)
                        if r is not None and r not in roots:
                            roots.append(r)
            for c in [n for n in f.nodes if isinstance(n, ast.Call) and U(n.func) in CALLEES]:
                k = CALLEES[U(c.func)]
                if len(c.args) > k and f.prov(c.args[k]) != FRESH:
                    r = Fn._root_name(c.args[k])
                    if r is not None and r not in roots:
                        roots.append(r)
            for r in roots:
                if r in f.params:
                    rows.append(f'  ({lean_str(short(rel))}, {lean_str(qual)}, {lean_str(r)}, "<parameter>")')
                for b in f.bind.get(r, []):
                    if b[0] in ('expr', 'unpack'):
                        v = b[1]
                        txt = U(v.func) if isinstance(v, ast.Call) else U(v)
                    else:
                        txt = '<loop/with target>'
                    rows.append(f'  ({lean_str(short(rel))}, {lean_str(qual)}, {lean_str(r)}, {lean_str(txt)})')
    return ('/-- All bindings of the root variable of every in-place site classified mayAlias and of every mayAlias '
            'argument in `callArgs`: (file, function, variable, '
            '`<parameter>` | callee of the bound call | text of the bound expression). -/\n'
            'def aliasBindings : List (String × String × String × String) := [\n' + ',\n'.join(rows) + ']')


CALLEES = {'matrix_power': 0, 'stable_matrix_power': 0, 'self._generate_projection_from_M': 1}


def item_callArgs(src):
    rows = []
    for rel in FILES:
        for qual, f in functions(src, rel):
            calls = [n for n in f.nodes if isinstance(n, ast.Call) and U(n.func) in CALLEES]
            calls.sort(key=lambda n: (n.lineno, n.col_offset))
            for c in calls:
                k = CALLEES[U(c.func)]
                if len(c.args) <= k:
                    raise Unsupported(f'{qual}: call of {U(c.func)} without positional matrix argument')
                a = c.args[k]
                p = f.prov(a)
                rows.append(f'  ({lean_str(short(rel))}, {lean_str(qual)}, {lean_str(U(c.func))}, {lean_str(U(a))}, '
                            f'.{"fresh" if p == FRESH else "mayAlias"})')
    return ('/-- Who passes which matrix to `matrix_power` / `stable_matrix_power` (which add `1e-8` to the diagonal of '
            'their argument in place): (file, caller, callee, argument, provenance of the argument). -/\n'
            'def callArgs : List (String × String × String × String × Prov) := [\n' + ',\n'.join(rows) + ']')


py2lean.register('InPlace', 'xrfm/rfm_src/{kernels,utils,recursive_feature_machine,class_conversion}.py, xrfm/xrfm.py', [], [
    ('Prov', py2lean.const(PROV_DECL)),
    ('sites', item_sites),
    ('returns', item_returns),
    ('delegates', item_delegates),
    ('aliasBindings', item_aliasBindings),
    ('callArgs', item_callArgs),
])
