import Xrfmv.Drv.C06

def main : IO Unit := Xrfmv.Drv.runDriver Xrfmv.Drv.C06.ops
