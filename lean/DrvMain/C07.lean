import Xrfmv.Drv.C07

def main : IO Unit := Xrfmv.Drv.runDriver Xrfmv.Drv.C07.ops
