import Xrfmv.Props.C06
#print axioms Xrfmv.Props.C06.split_sizes
#print axioms Xrfmv.Props.C06.terminates_leaves_bounded
#print axioms Xrfmv.Props.C06.depth_bound
#print axioms Xrfmv.Props.C06.min_splits_honoured
#print axioms Xrfmv.Props.C06.overlap_hypothesis
#print axioms Xrfmv.Props.C06.sizes_independent_of_data
#print axioms Xrfmv.Props.C06.same_size_same_shape
