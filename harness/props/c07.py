"""
C07 — every training sample is used exactly once: as a center or as leaf validation.

Proof: lean/Xrfmv/Props/C07.lean over the regenerated Gen.Split / Gen.Refill.
Correspondence: recorded real fits (harness/xrec.py). The recorded `torch.sort` / `torch.randperm` values and
routed validation counts are fed to the Lean `build` as oracles (and checked against the oracle contract);
the per-leaf (centers, moved) index lists must be identical.  The property oracle is evaluated directly on
what the implementation passed to each leaf `RFM.fit` (rows are pairwise distinct, so rows map back to
original indices by their bytes).
"""
from harness import core

MOD = 'harness.props.c07'
STUB_METHODS = ['random', 'fixed_vector', 'pca', 'random_pca', 'linear', 'rf_criterion']
REAL_METHODS = ['top_vector_agop_on_subset', 'random_agop_on_subset', 'top_pc_agop_on_subset']


def py_ov(f, m):
    return int(round(2 * f * m))


def make(p):
    import torch
    from harness import xrec
    g = torch.Generator().manual_seed(p['dseed'])
    n, d, nv = p['n'], p['d'], p['nval']
    X = torch.randn(n, d, generator=g)
    Xv = torch.randn(nv, d, generator=g) * p.get('val_spread', 1.0)
    if p.get('xscale', 1.0) != 1.0:
        # features in other units (1e-4 .. 1e3): routing compares projections with thresholds, not with an absolute resolution
        X, Xv = X * p['xscale'], Xv * p['xscale']
    if p.get('grid'):
        # integer-valued features (counts, categories coded as numbers): projections on a coordinate axis are exact and tie
        # with the split point; an extra column that the split direction ignores keeps the training rows pairwise distinct
        X = torch.cat([torch.randint(-3, 4, (n, d - 1), generator=g).float(), torch.arange(n).float()[:, None] * 0.001], dim=1)
        Xv = torch.cat([torch.randint(-3, 4, (nv, d - 1), generator=g).float(), -1.0 - torch.arange(nv).float()[:, None] * 0.001], dim=1)
    if p['task'] == 'relu':
        # targets that are exactly constant (zero) on a half space: nodes inside it have no linear trend to split on
        y, yv = torch.relu(X[:, :1]), torch.relu(Xv[:, :1])
    elif p['task'] == 'reg':
        y = torch.sin(X[:, :1]) + 0.1 * torch.randn(n, p['outputs'], generator=g)
        yv = torch.sin(Xv[:, :1]) + 0.1 * torch.randn(nv, p['outputs'], generator=g)
    else:
        K = p['classes']
        y = torch.randint(0, K, (n,), generator=g)
        y[:K] = torch.arange(K)
        yv = torch.randint(0, K, (nv,), generator=g)
    kw = dict(max_leaf_size=p['L'], number_of_splits=p['nsplits'], device='cpu', verbose=False,
              overlap_fraction=p['f'], split_method=p['method'], use_temperature_tuning=False,
              random_state=p['dseed'], refill_size=p['refill'],
              classification_mode=p.get('mode', 'zero_one'),
              rfm_params={'model': {'kernel': 'l2', 'bandwidth': 5.0, 'exponent': 1.0, 'diag': False,
                                    'bandwidth_mode': 'constant'},
                          'fit': {'reg': 1e-3, 'iters': p.get('iters', 0), 'verbose': False, 'early_stop_rfm': False}})
    if p['method'] == 'fixed_vector':
        # a legitimate fixed direction need not have unit norm
        gv = torch.Generator().manual_seed(p['dseed'] + 99)
        v = torch.randn(d, generator=gv) * float(torch.randint(1, 4, (1,), generator=gv))
        v[p['dseed'] % d] += 2.0
        if p.get('grid'):
            v = torch.zeros(d)
            v[p['dseed'] % (d - 1)] = [1.0, -1.0, 2.0][p['dseed'] % 3]
        kw['fixed_vector'] = v
    return X, y, Xv, yv, kw


def analyse(p, m, X, y, Xv, yv=None):
    """Returns (impl_leaves {path: (centers, moved, reported)}, oracles, oracle_failures)."""
    import torch
    from harness import xrec
    n = p['n']
    key2idx = {xrec.row_key(X[i]): i for i in range(n)}
    fails = []
    if len(key2idx) != n:
        return None, None, [('harness', 'training rows not distinct')]
    if m.n_classes_ > 0:
        y_enc = m.class_converter_.labels_to_numerical(y)
    else:
        y_enc = y.float().reshape(n, -1)
    yv_enc, key2v = None, {}
    if yv is not None and Xv.shape[0]:
        yv_enc = m.class_converter_.labels_to_numerical(yv) if m.n_classes_ > 0 else yv.float().reshape(Xv.shape[0], -1)
        key2v = {xrec.row_key(Xv[i]): i for i in range(Xv.shape[0])}
        if len(key2v) != Xv.shape[0]:
            yv_enc = None        # duplicate caller validation rows: targets cannot be attributed by row
    sort_t, perm_t, nval_t = {}, {}, {}
    impl = {}
    root = m.rec_roots[0]
    for path, node in xrec.walk(root):
        ps = ''.join(str(b) for b in path)
        if node['type'] == 'split':
            s = node['split']['sorted']
            sort_t[ps] = s
            if sorted(s) != list(range(node['n'])):
                fails.append(('C07:oracle-contract', f'torch.sort result at {ps!r} is not a permutation of range({node["n"]})'))
            continue
        lf = node['leaf_fit']
        routed = node['val_keys']
        if 'refill' in node:
            rf = node['refill']
            if rf['perm'] is not None:
                perm_t[ps] = rf['perm']
                if sorted(rf['perm']) != list(range(rf['n_before'])):
                    fails.append(('C07:oracle-contract', f'randperm at {ps!r} is not a permutation'))
            nval_t[ps] = rf['nval_before']
        centers = [key2idx.get(k) for k in lf['x_keys']]
        if any(c is None for c in centers):
            fails.append(('C07:foreign-center', f'leaf {ps!r} is fitted on a row that is not a training row'))
            continue
        extra = lf['xval_keys'][len(routed):]
        if lf['xval_keys'][:len(routed)] != routed:
            fails.append(('C07:validation-set', f'leaf {ps!r}: validation set does not start with the routed validation points'))
        moved = [key2idx.get(k) for k in extra]
        if any(c is None for c in moved):
            fails.append(('C07:validation-set', f'leaf {ps!r}: validation rows beyond the routed ones are not training rows'))
            continue
        reported = node['train_indices']
        impl[ps] = (centers, moved, reported)
        # validation targets stay with their rows: routed caller points carry the caller's validation targets, moved
        # training samples their training targets
        if yv_enc is not None and lf.get('yval') is not None:
            w = max(1, y_enc.shape[1])
            got = torch.tensor(lf['yval'], dtype=torch.float64).reshape(len(lf['xval_keys']), w)
            exp_rows = [yv_enc[key2v[k]].double().reshape(w) for k in routed if k in key2v] + [y_enc[i].double().reshape(w) for i in moved]
            if len(exp_rows) == got.shape[0] and got.shape[0] > 0 and not torch.equal(got, torch.stack(exp_rows)):
                fails.append(('C07:validation-targets-misaligned', f'leaf {ps!r}: the validation targets are not those of its validation rows '
                              f'({len(routed)} routed caller points followed by {len(moved)} moved training samples)'))
        # --- property, per leaf -------------------------------------------------------------
        if reported != centers:
            fails.append(('C07:reported-indices', f'leaf {ps!r}: train_indices {reported[:8]}.. are not the rows of its centers {centers[:8]}..'))
        ty = torch.tensor(lf['y'], dtype=torch.float64).reshape(len(centers), max(1, y_enc.shape[1]))
        if not torch.equal(ty, y_enc[centers].double().reshape(len(centers), max(1, y_enc.shape[1]))):
            fails.append(('C07:targets-misaligned', f'leaf {ps!r}: targets are not those of its centers'))
        if set(centers) & set(moved) or len(set(centers)) != len(centers) or len(set(moved)) != len(moved):
            fails.append(('C07:center-and-validation', f'leaf {ps!r}: a sample is both center and validation, or repeated'))
        msize = len(centers) + len(moved)
        nroute = len(routed)
        cap = 0 if (not path) else (0 if nroute > p['refill'] else min(p['refill'] - nroute, int(msize * 0.2)))
        if len(moved) > max(cap, 0):
            fails.append(('C07:moved-count', f'leaf {ps!r}: {len(moved)} samples moved, bound {cap} (routed {nroute}, refill {p["refill"]}, size {msize})'))
    # --- the routed validation points of every leaf are the caller's points sent down the stored tree by the rule that
    # prediction uses (projection <= split_point goes left); rows within rounding distance of a threshold are left out,
    # except on the integer grid where projections are exact
    from collections import Counter
    exact = bool(p.get('grid'))
    want, near = {}, Counter()
    for j in range(Xv.shape[0]):
        node, ps, close = m.trees[0], '', False
        while node['type'] != 'leaf':
            v = node['split_direction'].detach().cpu()
            b = float(node['split_point'])
            pr = float(Xv[j] @ v) if exact else float(Xv[j].double() @ v.double())
            if not exact and abs(pr - b) <= 1e-5 * (float(v.norm()) * float(Xv[j].norm()) + abs(b)) + 1e-12:
                close = True
                break
            side = 'left' if pr <= b else 'right'
            ps += '0' if side == 'left' else '1'
            node = node[side]
        k = xrec.row_key(Xv[j])
        if close:
            near[k] += 1
        else:
            want.setdefault(ps, Counter())[k] += 1
    for path, node in xrec.walk(root):
        if node['type'] == 'split':
            continue
        ps = ''.join(str(b) for b in path)
        got = Counter(node['val_keys'])
        for k in near:
            got.pop(k, None)
        exp = want.get(ps, Counter())
        if got != exp:
            fails.append(('C07:validation-not-routed-like-predict', f'leaf {ps!r}: {sum((exp - got).values())} caller validation point(s) that the '
                          f'stored tree sends here (projection <= split_point goes left) are not in its validation set, '
                          f'{sum((got - exp).values())} point(s) of its validation set are sent elsewhere'))
    allidx = [i for c, mv, _ in impl.values() for i in c + mv]
    if p['f'] == 0.0:
        if sorted(allidx) != list(range(n)):
            missing = sorted(set(range(n)) - set(allidx))[:5]
            dup = sorted({i for i in allidx if allidx.count(i) > 1})[:5]
            fails.append(('C07:not-exactly-once', f'missing {missing}, duplicated {dup}'))
    else:
        if set(allidx) != set(range(n)):
            fails.append(('C07:not-at-least-once', f'missing {sorted(set(range(n)) - set(allidx))[:5]}'))
    oracles = {'sort': sort_t, 'perm': perm_t, 'nval': nval_t,
               'ov': [py_ov(p['f'], k) for k in range(n + 1)], 'frac': [int(k * 0.2) for k in range(n + 1)]}
    return impl, oracles, fails


def execute(chunk):
    from harness import xrec
    drv = core.Driver('C07')
    out = []
    try:
        for p in chunk['cases']:
            res = {'family': p['family'], 'params': p, 'disagreements': [], 'failures': []}
            X, y, Xv, yv, kw = make(p)
            try:
                m = xrec.RecXRFM(stub_leaves=p['stub'], **kw)
                with xrec.recording(m):
                    m.fit(X, y, Xv, yv)
            except Exception as e:
                res['failures'].append({'signature': f'C07:raises:{type(e).__name__}', 'detail': str(e)[:300]})
                out.append(res)
                continue
            impl, oracles, fails = analyse(p, m, X, y, Xv, yv)
            for sig, detail in fails:
                if sig == 'harness':
                    continue
                res['failures'].append({'signature': sig, 'detail': detail})
            if impl is not None:
                q = {'op': 'buildindex', 'L': p['L'], 'ns': p['nsplits'], 'minVal': p['refill'], 'n': p['n']}
                q.update(oracles)
                mres = drv.ask(q)
                if 'error' in mres:
                    res['disagreements'].append({'detail': f'model rejects: {mres["error"]}'})
                else:
                    ml = {l['path']: (l['centers'], l['moved']) for l in mres['leaves']}
                    il = {k: (c, mv) for k, (c, mv, _) in impl.items()}
                    if not mres['ok']:
                        res['disagreements'].append({'detail': 'model run not ok (assertion / fuel) while the implementation returned'})
                    elif ml != il:
                        bad = [k for k in set(ml) | set(il) if ml.get(k) != il.get(k)][:3]
                        res['disagreements'].append({'detail': f'leaf index lists differ at paths {bad}: impl {[il.get(k) for k in bad]} model {[ml.get(k) for k in bad]}'[:600]})
                nleaves = len(impl)
                moved_total = sum(len(mv) for _, mv, _ in impl.values())
                res['nontrivial'] = [p['n'], p['L'], p['f'], p['refill'], p['nval'], p['method'], p['dseed']] if nleaves > 1 else None
                res['dist'] = {'leaves': nleaves, 'moved_any': moved_total > 0, 'method': p['method'], 'overlap': p['f'],
                               'task': p['task'], 'stub': p['stub'],
                               'depth': max(len(k) for k in impl) if impl else 0}
                res['sample'] = {'n': p['n'], 'L': p['L'], 'f': p['f'], 'refill': p['refill'], 'nval': p['nval'],
                                 'method': p['method'], 'leaves': {k: {'centers': len(c), 'moved': len(mv)} for k, (c, mv, _) in impl.items()}}
            out.append(res)
    finally:
        drv.close()
    return out


def gen_cases(run):
    r = run.rng
    N = 48 if run.tier == 'quick' else 420
    cases = []
    for k in range(N):
        L = r.choice([6, 8, 10, 12, 16, 24, 40])
        f = r.choice([0.0, 0.0, 0.0, 0.05, 0.1, 0.125, 0.25])
        if (1 - 2 * f) * L < 4:
            f = 0.0
        depth = r.randint(0, 4)
        n = min(400, max(5, int(L * (2 ** depth) * r.uniform(0.55, 1.0)) + r.randint(0, 3)))
        if f > 0:
            n = min(n, 6 * L)
        real = r.random() < 0.3
        method = r.choice(REAL_METHODS if real and r.random() < 0.6 else STUB_METHODS)
        task = r.choice(['reg', 'reg', 'class'])
        cases.append(dict(
            family='recorded-fits', n=n, d=r.randint(2, 6), L=L, f=f, nsplits=r.choice([None, None, None, 1, 2]),
            refill=r.choice([1, 2, 5, 10, 20, L, 3 * L]), nval=r.choice([0, 1, 3, n // 10, n // 3, n, 3 * n]),
            val_spread=r.choice([1.0, 1.0, 0.05, 3.0]), method=method, task=task, outputs=r.randint(1, 2),
            classes=r.randint(2, 4), mode=r.choice(['zero_one', 'prevalence']), stub=not (real or method in REAL_METHODS),
            iters=r.choice([0, 0, 1]), dseed=r.randint(0, 10 ** 6), xscale=r.choice([1.0, 1.0, 1.0, 1e-4, 1e3])))
    # integer-grid data with a coordinate-axis direction: validation projections tie with the split point exactly
    for k in range(8 if run.tier == 'quick' else 60):
        L = r.choice([8, 12, 16])
        cases.append(dict(family='recorded-fits', n=r.randint(3 * L, 8 * L), d=r.randint(3, 5), L=L, f=0.0, nsplits=None,
                          refill=r.choice([1, 5, L]), nval=r.choice([20, 60, 150]), val_spread=1.0, method='fixed_vector', task='reg',
                          outputs=1, classes=2, mode='zero_one', stub=True, iters=0, dseed=r.randint(0, 10 ** 6), grid=True))
    # C07's proviso: every leaf ends with a non-empty validation set -> with real leaves keep leaves >= 5 samples
    for c in cases:
        if not c['stub']:
            c['L'] = max(c['L'], 10)
            c['nsplits'] = None          # forced splits of small nodes give leaves of < 5 samples
            c['nval'] = max(c['nval'], 3)
            c['refill'] = max(c['refill'], 2)
            if c['task'] == 'class':
                c['nval'] = max(c['nval'], 12)
    return cases


def check(run):
    run.rule = ('recorded real xRFM fits (stubbed or real leaf models), n 5..400, max_leaf_size 6..40, depth 0..4, overlap 0/0.05/0.1/0.125/0.25, '
                'refill sizes 1..3L, caller validation sets from empty to 3n, every split method, regression and classification; '
                'non-trivial = the tree has more than one leaf; cases are distinct by seed')
    run.assumptions = ['training rows pairwise distinct (rows are mapped back to indices by their bytes)',
                       'torch.sort / torch.randperm return permutations (checked on every recorded value)',
                       'every leaf ends with a non-empty validation set when real leaf models are fitted (property proviso)']
    run.lean()
    cases = gen_cases(run)
    if run.driver_ok:
        run.absorb('c07', core.pmap(MOD, [{'cases': c} for c in core.chunks(cases, 48)]))


def replay(run, payload):
    run.lean()
    run.absorb('replay', core.pmap(MOD, [{'cases': [payload['params']]}], workers=1))
