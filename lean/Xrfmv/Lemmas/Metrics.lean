/-
Helper lemmas about `Xrfmv.Metrics` (model of `xrfm/rfm_src/metrics.py`).

* value metrics over an arbitrary linearly ordered field (so at `ℝ` and at `ℚ` = core `Rat`, the type the
  driver evaluates at);
* `rmse` / `logloss` at `ℝ`;
* counting metrics (`accuracy`, `f1`, `auc`) return `ℚ`; the scores they compare live in any linearly ordered
  field (only `0 < 1` and irreflexivity are used, for the one-hot rows).

Property theorems are in `Props/C16.lean`.
-/
import Xrfmv.Model.Metrics
import Xrfmv.Lemmas.RealInst
import Mathlib.Algebra.Order.Field.Basic
import Mathlib.Algebra.Order.Field.Rat
import Mathlib.Analysis.SpecialFunctions.Log.Basic
import Mathlib.Analysis.SpecialFunctions.Sqrt

set_option linter.unusedSectionVars false
set_option linter.unusedSimpArgs false

namespace Xrfmv.Metrics
open Xrfmv

/-! ## sums -/

section Sums
variable {α : Type} [Field α] [LinearOrder α] [IsStrictOrderedRing α]

@[simp] theorem sumL_nil : sumL ([] : List α) = 0 := rfl
@[simp] theorem sumL_cons (x : α) (xs : List α) : sumL (x :: xs) = x + sumL xs := rfl

theorem sumL_nonneg {l : List α} (h : ∀ x ∈ l, 0 ≤ x) : 0 ≤ sumL l := by
  induction l with
  | nil => simp
  | cons x xs ih =>
    rw [sumL_cons]
    exact add_nonneg (h x (by simp)) (ih fun y hy => h y (by simp [hy]))

theorem sumL_eq_zero {l : List α} (h : ∀ x ∈ l, x = 0) : sumL l = 0 := by
  induction l with
  | nil => simp
  | cons x xs ih =>
    rw [sumL_cons, h x (by simp), ih fun y hy => h y (by simp [hy]), add_zero]

/-- a sum of terms `≤ 1` is at most the number of terms -/
theorem sumL_map_le_length {ι : Type} (l : List ι) (f : ι → α) (h : ∀ c ∈ l, f c ≤ 1) :
    sumL (l.map f) ≤ (l.length : α) := by
  induction l with
  | nil => simp
  | cons c cs ih =>
    have h1 := h c (by simp)
    have h2 := ih fun d hd => h d (by simp [hd])
    simp only [List.map_cons, sumL_cons, List.length_cons, Nat.cast_succ]
    linarith

theorem sumL_map_eq_length {ι : Type} (l : List ι) (f : ι → α) (h : ∀ c ∈ l, f c = 1) :
    sumL (l.map f) = (l.length : α) := by
  induction l with
  | nil => simp
  | cons c cs ih =>
    have h1 := h c (by simp)
    have h2 := ih fun d hd => h d (by simp [hd])
    simp only [List.map_cons, sumL_cons, List.length_cons, Nat.cast_succ]
    rw [h1, h2]; ring

/-- the mean of `K` values `≤ 1` is `≤ 1` (also for `K = 0`, where it is `0`) -/
theorem mean_range_le_one (K : ℕ) (f : ℕ → α) (h : ∀ c < K, f c ≤ 1) :
    sumL ((List.range K).map f) / (K : α) ≤ 1 := by
  have hs := sumL_map_le_length (List.range K) f (fun c hc => h c (List.mem_range.mp hc))
  rw [List.length_range] at hs
  exact div_le_one_of_le₀ hs (Nat.cast_nonneg K)

theorem mean_range_eq_one (K : ℕ) (hK : 0 < K) (f : ℕ → α) (h : ∀ c < K, f c = 1) :
    sumL ((List.range K).map f) / (K : α) = 1 := by
  have hs := sumL_map_eq_length (List.range K) f (fun c hc => h c (List.mem_range.mp hc))
  rw [List.length_range] at hs
  rw [hs]
  exact div_self (Nat.cast_ne_zero.mpr (by omega))

end Sums

/-! ## mse / mae / brier over a linearly ordered field -/

section Value
variable {α : Type} [Field α] [LinearOrder α] [IsStrictOrderedRing α]

theorem sqDiffs_nonneg : ∀ (y p : List α), ∀ x ∈ sqDiffs y p, 0 ≤ x
  | [], _ => by simp [sqDiffs]
  | _ :: _, [] => by simp [sqDiffs]
  | y :: ys, p :: ps => by
    intro x hx
    simp only [sqDiffs, List.mem_cons] at hx
    rcases hx with rfl | hx
    · exact mul_self_nonneg _
    · exact sqDiffs_nonneg ys ps x hx

theorem sqDiffs_self : ∀ (y : List α), ∀ x ∈ sqDiffs y y, x = 0
  | [] => by simp [sqDiffs]
  | y :: ys => by
    intro x hx
    simp only [sqDiffs, List.mem_cons] at hx
    rcases hx with rfl | hx
    · simp
    · exact sqDiffs_self ys x hx

theorem mseFlat_nonneg (y p : List α) : 0 ≤ mseFlat y p :=
  div_nonneg (sumL_nonneg (sqDiffs_nonneg y p)) (Nat.cast_nonneg _)

theorem mseFlat_self (y : List α) : mseFlat y y = 0 := by
  unfold mseFlat
  rw [sumL_eq_zero (sqDiffs_self y), zero_div]

theorem mse_nonneg (Y P : List (List α)) : 0 ≤ mse Y P := mseFlat_nonneg _ _
theorem mse_self (Y : List (List α)) : mse Y Y = 0 := mseFlat_self _

section Abs
variable [HasAbs α] (habs : ∀ x : α, HasAbs.abs x = |x|)
include habs

theorem absDiffs_nonneg : ∀ (y p : List α), ∀ x ∈ absDiffs y p, 0 ≤ x
  | [], _ => by simp [absDiffs]
  | _ :: _, [] => by simp [absDiffs]
  | y :: ys, p :: ps => by
    intro x hx
    simp only [absDiffs, List.mem_cons] at hx
    rcases hx with rfl | hx
    · rw [habs]; exact abs_nonneg _
    · exact absDiffs_nonneg ys ps x hx

theorem absDiffs_self : ∀ (y : List α), ∀ x ∈ absDiffs y y, x = 0
  | [] => by simp [absDiffs]
  | y :: ys => by
    intro x hx
    simp only [absDiffs, List.mem_cons] at hx
    rcases hx with rfl | hx
    · rw [habs]; simp
    · exact absDiffs_self ys x hx

theorem mae_nonneg (Y P : List (List α)) : 0 ≤ mae Y P :=
  div_nonneg (sumL_nonneg (absDiffs_nonneg habs _ _)) (Nat.cast_nonneg _)

theorem mae_self (Y : List (List α)) : mae Y Y = 0 := by
  unfold mae maeFlat
  rw [sumL_eq_zero (absDiffs_self habs _), zero_div]

end Abs

theorem brier_nonneg (y : List ℕ) (P : List (List α)) : 0 ≤ brier y P := mse_nonneg _ _

end Value

theorem abs_real (x : ℝ) : HasAbs.abs x = |x| := rfl

theorem abs_rat (x : ℚ) : HasAbs.abs x = |x| := by
  show (if x < 0 then -x else x) = |x|
  split
  · next h => exact (abs_of_neg h).symm
  · next h => exact (abs_of_nonneg (not_lt.mp h)).symm

/-! ## one-hot rows and arg-max -/

section OneHot
variable {α : Type} [Field α] [LinearOrder α] [IsStrictOrderedRing α]

@[simp] theorem oneHotFrom_length (c : ℕ) : ∀ (n s : ℕ), (oneHotFrom c s n : List α).length = n
  | 0, _ => rfl
  | n + 1, s => by simp [oneHotFrom, oneHotFrom_length c n]

@[simp] theorem oneHot_length (K c : ℕ) : (oneHot K c : List α).length = K := oneHotFrom_length c K 0

theorem oneHotFrom_getD (c : ℕ) : ∀ (n s j : ℕ),
    (oneHotFrom c s n : List α).getD j 0 = if s + j = c ∧ j < n then 1 else 0
  | 0, s, j => by simp [oneHotFrom]
  | n + 1, s, 0 => by simp [oneHotFrom]
  | n + 1, s, j + 1 => by
    simp only [oneHotFrom, List.getD_cons_succ]
    rw [oneHotFrom_getD c n (s + 1) j]
    have e : (s + 1 + j = c ∧ j < n) ↔ (s + (j + 1) = c ∧ j + 1 < n + 1) := by omega
    exact if_congr e rfl rfl

theorem oneHot_getD (K c j : ℕ) : (oneHot K c : List α).getD j 0 = if j = c ∧ j < K then 1 else 0 := by
  unfold oneHot
  rw [oneHotFrom_getD]
  have e : (0 + j = c ∧ j < K) ↔ (j = c ∧ j < K) := by omega
  exact if_congr e rfl rfl

theorem argmaxV_oneHotFrom (c : ℕ) : ∀ (n s : ℕ),
    argmaxV (if s = c then (1 : α) else 0) (oneHotFrom c (s + 1) n)
      = if s ≤ c ∧ c ≤ s + n then (c - s, 1) else (0, 0)
  | 0, s => by
    by_cases h : s = c
    · subst h
      rw [if_pos rfl, if_pos ⟨le_rfl, by omega⟩, Nat.sub_self]
      rfl
    · have h2 : ¬ (s ≤ c ∧ c ≤ s + 0) := by omega
      rw [if_neg h, if_neg h2]
      rfl
  | n + 1, s => by
    simp only [oneHotFrom, argmaxV]
    rw [argmaxV_oneHotFrom c n (s + 1)]
    by_cases h : s = c
    · subst h
      have h1 : ¬ (s + 1 ≤ s ∧ s ≤ s + 1 + n) := by omega
      have h2 : s ≤ s ∧ s ≤ s + (n + 1) := by omega
      rw [if_neg h1, if_pos h2, if_pos rfl, Nat.sub_self]
      exact if_neg (not_lt.mpr zero_le_one)
    · by_cases hin : s + 1 ≤ c ∧ c ≤ s + 1 + n
      · have h2 : s ≤ c ∧ c ≤ s + (n + 1) := by omega
        have h3 : c - (s + 1) + 1 = c - s := by omega
        rw [if_pos hin, if_pos h2, if_neg h]
        show (if (0 : α) < 1 then (c - (s + 1) + 1, (1 : α)) else (0, 0)) = (c - s, 1)
        rw [if_pos zero_lt_one, h3]
      · have h2 : ¬ (s ≤ c ∧ c ≤ s + (n + 1)) := by omega
        rw [if_neg hin, if_neg h2, if_neg h]
        exact if_neg (lt_irrefl _)

theorem argmax_oneHot {K c : ℕ} (h : c < K) : argmax (oneHot K c : List α) = c := by
  obtain ⟨n, rfl⟩ : ∃ n, K = n + 1 := ⟨K - 1, by omega⟩
  show (argmaxV (if 0 = c then (1 : α) else 0) (oneHotFrom c (0 + 1) n)).1 = c
  have h2 : 0 ≤ c ∧ c ≤ 0 + n := by omega
  rw [argmaxV_oneHotFrom, if_pos h2]
  exact Nat.sub_zero c

theorem predLabels_perfect {K : ℕ} : ∀ {y : List ℕ}, (∀ c ∈ y, c < K) →
    predLabels (perfect K y : List (List α)) = y
  | [], _ => rfl
  | c :: cs, h => by
    have ih := predLabels_perfect (K := K) (y := cs) (fun d hd => h d (by simp [hd]))
    simp only [predLabels, perfect, List.map_cons] at ih ⊢
    rw [argmax_oneHot (h c (by simp)), ih]

theorem numClasses_perfect {K : ℕ} {y : List ℕ} (hy : y ≠ []) :
    numClasses (perfect K y : List (List α)) = K := by
  cases y with
  | nil => exact absurd rfl hy
  | cons c cs => simp [perfect, numClasses]

theorem brier_perfect {K : ℕ} {y : List ℕ} (hy : y ≠ []) : brier y (perfect K y : List (List α)) = 0 := by
  unfold brier
  rw [numClasses_perfect hy]
  exact mse_self _

end OneHot

/-! ## accuracy -/

theorem agree_le : ∀ (y h : List ℕ), agree y h ≤ h.length
  | [], _ => by simp [agree]
  | _ :: _, [] => by simp [agree]
  | y :: ys, h :: hs => by
    have := agree_le ys hs
    simp only [agree, List.length_cons]
    split <;> omega

theorem agree_self : ∀ (y : List ℕ), agree y y = y.length
  | [] => rfl
  | y :: ys => by simp [agree, agree_self ys]; omega

theorem accuracyL_le_one (y h : List ℕ) : accuracyL y h ≤ 1 :=
  div_le_one_of_le₀ (by exact_mod_cast agree_le y h) (Nat.cast_nonneg _)

theorem accuracyL_nonneg (y h : List ℕ) : 0 ≤ accuracyL y h :=
  div_nonneg (Nat.cast_nonneg _) (Nat.cast_nonneg _)

theorem accuracyL_self {y : List ℕ} (hy : y ≠ []) : accuracyL y y = 1 := by
  unfold accuracyL
  rw [agree_self]
  exact div_self (Nat.cast_ne_zero.mpr (by simpa using hy))

/-! ## F1 -/

theorem fp_self (c : ℕ) : ∀ (y : List ℕ), fp c y y = 0
  | [] => rfl
  | y :: ys => by
    have : ¬ (y ≠ c ∧ y = c) := fun h => h.1 h.2
    simp [fp, fp_self c ys, this]

theorem fn_self (c : ℕ) : ∀ (y : List ℕ), fn c y y = 0
  | [] => rfl
  | y :: ys => by
    have : ¬ (y = c ∧ y ≠ c) := fun h => h.2 h.1
    simp [fn, fn_self c ys, this]

theorem tp_self_pos (c : ℕ) : ∀ {y : List ℕ}, c ∈ y → 0 < tp c y y
  | [], h => by simp at h
  | y :: ys, h => by
    by_cases hy : y = c
    · simp [tp, hy]
    · have hc : c ∈ ys := by
        rcases List.mem_cons.mp h with h | h
        · exact absurd h.symm hy
        · exact h
      have := tp_self_pos c hc
      simp only [tp]
      omega

theorem f1Class_le_one (c : ℕ) (y h : List ℕ) : f1Class c y h ≤ 1 := by
  unfold f1Class
  split
  · exact zero_le_one
  · exact div_le_one_of_le₀ (by exact_mod_cast (by omega : 2 * tp c y h ≤ 2 * tp c y h + fp c y h + fn c y h))
      (Nat.cast_nonneg _)

theorem f1Class_self {c : ℕ} {y : List ℕ} (h : c ∈ y) : f1Class c y y = 1 := by
  have ht := tp_self_pos c h
  unfold f1Class
  rw [fp_self, fn_self]
  have hne : ¬ (2 * tp c y y + 0 + 0 = 0) := by omega
  rw [if_neg hne]
  simp only [Nat.add_zero]
  exact div_self (Nat.cast_ne_zero.mpr (by omega))

theorem f1L_le_one (K : ℕ) (y h : List ℕ) : f1L K y h ≤ 1 := by
  unfold f1L
  split
  · exact f1Class_le_one _ _ _
  · exact mean_range_le_one K _ (fun c _ => f1Class_le_one c y h)

theorem f1L_self {K : ℕ} {y : List ℕ} (hK : 0 < K) (hall : ∀ c < K, c ∈ y) : f1L K y y = 1 := by
  unfold f1L
  split
  · next h2 => exact f1Class_self (hall 1 (by omega))
  · exact mean_range_eq_one K hK _ (fun c hc => f1Class_self (hall c hc))

/-! ## AUC -/

section Auc
variable {α : Type} [LT α] [DecidableLT α]

theorem pairScore_le (a b : α) : pairScore a b ≤ 2 := by
  unfold pairScore; split
  · exact le_rfl
  · split <;> omega

theorem pairRow_le (a : α) : ∀ (neg : List α), pairRow a neg ≤ 2 * neg.length
  | [] => by simp [pairRow]
  | b :: bs => by
    have h1 := pairScore_le a b
    have h2 := pairRow_le a bs
    simp only [pairRow, List.length_cons]
    omega

theorem pairSum_le : ∀ (pos neg : List α), pairSum pos neg ≤ 2 * (pos.length * neg.length)
  | [], _ => by simp [pairSum]
  | a :: as, neg => by
    have h1 := pairRow_le a neg
    have h2 := pairSum_le as neg
    simp only [pairSum, List.length_cons, Nat.succ_mul]
    omega

theorem pairRow_sep (a : α) : ∀ (neg : List α), (∀ b ∈ neg, b < a) → pairRow a neg = 2 * neg.length
  | [], _ => by simp [pairRow]
  | b :: bs, h => by
    have h1 : pairScore a b = 2 := by unfold pairScore; rw [if_pos (h b (by simp))]
    have h2 := pairRow_sep a bs (fun d hd => h d (by simp [hd]))
    simp only [pairRow, List.length_cons, h1, h2]
    omega

theorem pairSum_sep : ∀ (pos neg : List α), (∀ a ∈ pos, ∀ b ∈ neg, b < a) →
    pairSum pos neg = 2 * (pos.length * neg.length)
  | [], _, _ => by simp [pairSum]
  | a :: as, neg, h => by
    have h1 := pairRow_sep a neg (h a (by simp))
    have h2 := pairSum_sep as neg (fun d hd => h d (by simp [hd]))
    simp only [pairSum, List.length_cons, Nat.succ_mul, h1, h2]
    omega

theorem aucPN_le_one (pos neg : List α) : aucPN pos neg ≤ 1 :=
  div_le_one_of_le₀ (by exact_mod_cast pairSum_le pos neg) (Nat.cast_nonneg _)

theorem aucPN_nonneg (pos neg : List α) : 0 ≤ aucPN pos neg :=
  div_nonneg (Nat.cast_nonneg _) (Nat.cast_nonneg _)

theorem aucPN_sep {pos neg : List α} (hp : pos ≠ []) (hn : neg ≠ [])
    (h : ∀ a ∈ pos, ∀ b ∈ neg, b < a) : aucPN pos neg = 1 := by
  unfold aucPN
  rw [pairSum_sep pos neg h]
  have h1 : 0 < pos.length := List.length_pos_iff.mpr hp
  have h2 : 0 < neg.length := List.length_pos_iff.mpr hn
  have h3 : 0 < pos.length * neg.length := Nat.mul_pos h1 h2
  exact div_self (Nat.cast_ne_zero.mpr (by omega))

/-- Class `c` is *separated* by the scores `s`: it has positives and negatives and every positive is scored
strictly above every negative. -/
def Separated (c : ℕ) (y : List ℕ) (s : List α) : Prop :=
  sel c true y s ≠ [] ∧ sel c false y s ≠ [] ∧ ∀ a ∈ sel c true y s, ∀ b ∈ sel c false y s, b < a

theorem aucClass_le_one (c : ℕ) (y : List ℕ) (s : List α) : aucClass c y s ≤ 1 := aucPN_le_one _ _

theorem aucClass_sep {c : ℕ} {y : List ℕ} {s : List α} (h : Separated c y s) : aucClass c y s = 1 :=
  aucPN_sep h.1 h.2.1 h.2.2

theorem auc_le_one' [OfNat α 0] (y : List ℕ) (P : List (List α)) : auc y P ≤ 1 := by
  unfold auc
  split
  · exact aucClass_le_one _ _ _
  · exact mean_range_le_one _ _ (fun c _ => aucClass_le_one c y _)

theorem auc_sep' [OfNat α 0] {y : List ℕ} {P : List (List α)} (hK : 0 < numClasses P)
    (h : ∀ c < numClasses P, (numClasses P = 2 → c = 1) → Separated c y (column c P)) : auc y P = 1 := by
  unfold auc
  split
  · next h2 => exact aucClass_sep (h 1 (by omega) (fun _ => rfl))
  · next h2 => exact mean_range_eq_one _ hK _ (fun c hc => aucClass_sep (h c hc (fun e => absurd e h2)))

theorem sel_true_ne_nil {c : ℕ} : ∀ {y : List ℕ} {s : List α}, c ∈ y → y.length ≤ s.length →
    sel c true y s ≠ []
  | [], _, h, _ => by simp at h
  | _ :: _, [], _, hl => by simp at hl
  | y :: ys, a :: as, h, hl => by
    by_cases hy : y = c
    · simp [sel, hy]
    · have hc : c ∈ ys := by
        rcases List.mem_cons.mp h with h | h
        · exact absurd h.symm hy
        · exact h
      have := sel_true_ne_nil (s := as) hc (by simpa using hl)
      simpa [sel, hy] using this

theorem sel_false_ne_nil {c : ℕ} : ∀ {y : List ℕ} {s : List α}, (∃ d ∈ y, d ≠ c) → y.length ≤ s.length →
    sel c false y s ≠ []
  | [], _, h, _ => by simp at h
  | _ :: _, [], _, hl => by simp at hl
  | y :: ys, a :: as, h, hl => by
    by_cases hy : y = c
    · have hc : ∃ d ∈ ys, d ≠ c := by
        obtain ⟨d, hd, hne⟩ := h
        rcases List.mem_cons.mp hd with e | e
        · exact absurd (e.trans hy) hne
        · exact ⟨d, e, hne⟩
      have := sel_false_ne_nil (s := as) hc (by simpa using hl)
      simpa [sel, hy] using this
    · simp [sel, hy]

end Auc

section AucPerfect
variable {α : Type} [Field α] [LinearOrder α] [IsStrictOrderedRing α]

theorem column_perfect_length (K c : ℕ) (y : List ℕ) :
    (column c (perfect K y : List (List α))).length = y.length := by
  simp [column, perfect]

theorem sel_true_perfect {K c : ℕ} (hc : c < K) : ∀ (y : List ℕ),
    ∀ a ∈ sel c true y (column c (perfect K y : List (List α))), a = 1
  | [] => by simp [sel, column, perfect]
  | d :: ds => by
    intro a ha
    have ih := sel_true_perfect hc ds
    simp only [column, perfect, List.map_cons, List.map_map] at ih ha
    simp only [sel] at ha
    by_cases hd : d = c
    · subst hd
      simp only [decide_true, if_true, List.mem_cons] at ha
      rcases ha with rfl | ha
      · rw [oneHot_getD]; exact if_pos ⟨rfl, hc⟩
      · exact ih a (by simpa [column, perfect] using ha)
    · simp only [hd, decide_false, Bool.false_eq_true, if_false] at ha
      exact ih a (by simpa [column, perfect] using ha)

theorem sel_false_perfect {K c : ℕ} : ∀ (y : List ℕ),
    ∀ b ∈ sel c false y (column c (perfect K y : List (List α))), b = 0
  | [] => by simp [sel, column, perfect]
  | d :: ds => by
    intro b hb
    have ih := sel_false_perfect (K := K) (c := c) ds
    simp only [column, perfect, List.map_cons, List.map_map] at ih hb
    simp only [sel] at hb
    by_cases hd : d = c
    · simp only [hd, decide_true, Bool.true_eq_false, if_false] at hb
      exact ih b (by simpa [column, perfect] using hb)
    · simp only [hd, decide_false, if_true, List.mem_cons] at hb
      rcases hb with rfl | hb
      · rw [oneHot_getD]
        exact if_neg (fun h => hd h.1.symm)
      · exact ih b (by simpa [column, perfect] using hb)

theorem separated_perfect {K c : ℕ} {y : List ℕ} (hc : c < K) (hin : c ∈ y) (hother : ∃ d ∈ y, d ≠ c) :
    Separated c y (column c (perfect K y : List (List α))) := by
  refine ⟨sel_true_ne_nil hin (by rw [column_perfect_length]),
    sel_false_ne_nil hother (by rw [column_perfect_length]), ?_⟩
  intro a ha b hb
  rw [sel_true_perfect hc y a ha, sel_false_perfect y b hb]
  exact zero_lt_one

end AucPerfect

/-! ## rmse and log-loss at `ℝ` -/

theorem rmse_eq_sqrt (Y P : List (List ℝ)) : rmse Y P = Real.sqrt (mse Y P) := rfl

theorem rmse_self (Y : List (List ℝ)) : rmse Y Y = 0 := by
  rw [rmse_eq_sqrt, mse_self, Real.sqrt_zero]

theorem rmse_nonneg (Y P : List (List ℝ)) : 0 ≤ rmse Y P := Real.sqrt_nonneg _

theorem rmse_le_iff (Y P Q : List (List ℝ)) : rmse Y P ≤ rmse Y Q ↔ mse Y P ≤ mse Y Q := by
  rw [rmse_eq_sqrt, rmse_eq_sqrt]
  exact Real.sqrt_le_sqrt_iff (mse_nonneg Y Q)

theorem getD_mem_or_default {β : Type} : ∀ (r : List β) (j : ℕ) (d : β), r.getD j d ∈ r ∨ r.getD j d = d
  | [], j, d => Or.inr (by simp)
  | x :: xs, 0, d => Or.inl (by simp)
  | x :: xs, j + 1, d => by
    rw [List.getD_cons_succ]
    rcases getD_mem_or_default xs j d with h | h
    · exact Or.inl (List.mem_cons_of_mem _ h)
    · exact Or.inr h

theorem nll_nonneg : ∀ (y : List ℕ) (P : List (List ℝ)), (∀ r ∈ P, ∀ p ∈ r, 0 < p ∧ p ≤ 1) →
    ∀ x ∈ nll y P, 0 ≤ x
  | [], _, _ => by simp [nll]
  | _ :: _, [], _ => by simp [nll]
  | c :: cs, r :: rs, h => by
    intro x hx
    simp only [nll, List.mem_cons] at hx
    rcases hx with rfl | hx
    · have hr := h r (by simp)
      have : Real.log (r.getD c 0) ≤ 0 := by
        rcases getD_mem_or_default r c (0 : ℝ) with hm | hd
        · exact Real.log_nonpos (hr _ hm).1.le (hr _ hm).2
        · rw [hd, Real.log_zero]
      show 0 ≤ - Real.log (r.getD c 0)
      linarith
    · exact nll_nonneg cs rs (fun r' hr' => h r' (by simp [hr'])) x hx

theorem logloss_nonneg (y : List ℕ) (P : List (List ℝ)) (h : ∀ r ∈ P, ∀ p ∈ r, 0 < p ∧ p ≤ 1) :
    0 ≤ logloss y P :=
  div_nonneg (sumL_nonneg (nll_nonneg y P h)) (Nat.cast_nonneg _)

theorem nll_perfect {K : ℕ} : ∀ (y : List ℕ), (∀ c ∈ y, c < K) →
    ∀ x ∈ nll y (perfect K y : List (List ℝ)), x = 0
  | [], _ => by simp [nll, perfect]
  | c :: cs, h => by
    intro x hx
    have ih := nll_perfect cs (fun d hd => h d (by simp [hd]))
    simp only [perfect, List.map_cons, nll, List.mem_cons] at hx ih
    rcases hx with rfl | hx
    · rw [oneHot_getD, if_pos ⟨rfl, h c (by simp)⟩]
      show - Real.log 1 = 0
      rw [Real.log_one, neg_zero]
    · exact ih x hx

theorem logloss_perfect {K : ℕ} {y : List ℕ} (h : ∀ c ∈ y, c < K) :
    logloss y (perfect K y : List (List ℝ)) = 0 := by
  unfold logloss
  rw [sumL_eq_zero (nll_perfect y h), zero_div]

/-! ## the direction table -/

/-- `a` is at least as good as `b` in the declared direction. -/
def AtLeastAsGood {β : Type} [LE β] (maximize : Bool) (a b : β) : Prop :=
  if maximize then b ≤ a else a ≤ b

/-- Labels `0..K-1`, every class present. -/
def ValidLabels (K : ℕ) (y : List ℕ) : Prop := (∀ c ∈ y, c < K) ∧ (∀ c < K, c ∈ y)

/-- Every entry of the probability matrix lies in `(0, 1]`. -/
def ProbEntries (P : List (List ℝ)) : Prop := ∀ r ∈ P, ∀ p ∈ r, 0 < p ∧ p ≤ 1

/-- "Predictions identical to the targets score at least as well as any other predictions when the metric
named `name` is optimised in direction `maximize`" – the truthfulness claim of C16 for one table entry.
Regression: any matrices; classification: `K ≥ 2` classes all present, perfect predictions = one-hot rows;
log-loss: competing entries in `(0,1]`.  Unknown names have no such claim. -/
def PerfectOptimal (name : String) (maximize : Bool) : Prop :=
  if name = "mse" then ∀ Y P : List (List ℝ), AtLeastAsGood maximize (mse Y Y) (mse Y P)
  else if name = "rmse" then ∀ Y P : List (List ℝ), AtLeastAsGood maximize (rmse Y Y) (rmse Y P)
  else if name = "mae" then ∀ Y P : List (List ℝ), AtLeastAsGood maximize (mae Y Y) (mae Y P)
  else if name = "accuracy" then ∀ (K : ℕ) (y : List ℕ) (P : List (List ℝ)), 2 ≤ K → ValidLabels K y →
    AtLeastAsGood maximize (accuracy y (perfect K y : List (List ℝ))) (accuracy y P)
  else if name = "brier" then ∀ (K : ℕ) (y : List ℕ) (P : List (List ℝ)), 2 ≤ K → ValidLabels K y →
    AtLeastAsGood maximize (brier y (perfect K y : List (List ℝ))) (brier y P)
  else if name = "logloss" then ∀ (K : ℕ) (y : List ℕ) (P : List (List ℝ)), 2 ≤ K → ValidLabels K y →
    ProbEntries P → AtLeastAsGood maximize (logloss y (perfect K y : List (List ℝ))) (logloss y P)
  else if name = "f1" then ∀ (K : ℕ) (y : List ℕ) (P : List (List ℝ)), 2 ≤ K → ValidLabels K y →
    AtLeastAsGood maximize (f1 y (perfect K y : List (List ℝ))) (f1 y P)
  else if name = "auc" then ∀ (K : ℕ) (y : List ℕ) (P : List (List ℝ)), 2 ≤ K → ValidLabels K y →
    AtLeastAsGood maximize (auc y (perfect K y : List (List ℝ))) (auc y P)
  else False

theorem ValidLabels.ne_nil {K : ℕ} {y : List ℕ} (hK : 2 ≤ K) (h : ValidLabels K y) : y ≠ [] := by
  intro e
  have := h.2 0 (by omega)
  rw [e] at this
  simp at this

section Perfect
variable {α : Type} [Field α] [LinearOrder α] [IsStrictOrderedRing α]

theorem accuracy_le_one' {β : Type} [LT β] [DecidableLT β] (y : List ℕ) (P : List (List β)) :
    accuracy y P ≤ 1 := accuracyL_le_one _ _

theorem accuracy_perfect' {K : ℕ} {y : List ℕ} (hK : 2 ≤ K) (h : ValidLabels K y) :
    accuracy y (perfect K y : List (List α)) = 1 := by
  unfold accuracy
  rw [predLabels_perfect h.1]
  exact accuracyL_self (h.ne_nil hK)

theorem f1_le_one' {β : Type} [LT β] [DecidableLT β] (y : List ℕ) (P : List (List β)) : f1 y P ≤ 1 :=
  f1L_le_one _ _ _

theorem f1_perfect' {K : ℕ} {y : List ℕ} (hK : 2 ≤ K) (h : ValidLabels K y) :
    f1 y (perfect K y : List (List α)) = 1 := by
  unfold f1
  rw [predLabels_perfect h.1, numClasses_perfect (h.ne_nil hK)]
  exact f1L_self (by omega) h.2

theorem auc_perfect' {K : ℕ} {y : List ℕ} (hK : 2 ≤ K) (h : ValidLabels K y) :
    auc y (perfect K y : List (List α)) = 1 := by
  have hn : numClasses (perfect K y : List (List α)) = K := numClasses_perfect (h.ne_nil hK)
  apply auc_sep'
  · rw [hn]; omega
  · intro c hc _
    rw [hn] at hc
    refine separated_perfect hc (h.2 c hc) ?_
    by_cases h0 : c = 0
    · exact ⟨1, h.2 1 (by omega), by omega⟩
    · exact ⟨0, h.2 0 (by omega), fun e => h0 e.symm⟩

end Perfect

theorem perfectOptimal_mse : PerfectOptimal "mse" false := by
  intro Y P
  show mse Y Y ≤ mse Y P
  rw [mse_self]; exact mse_nonneg Y P

theorem perfectOptimal_rmse : PerfectOptimal "rmse" false := by
  simp only [PerfectOptimal]
  intro Y P
  show rmse Y Y ≤ rmse Y P
  rw [rmse_self]; exact rmse_nonneg Y P

theorem perfectOptimal_mae : PerfectOptimal "mae" false := by
  simp only [PerfectOptimal]
  intro Y P
  show mae Y Y ≤ mae Y P
  rw [mae_self abs_real]; exact mae_nonneg abs_real Y P

theorem perfectOptimal_accuracy : PerfectOptimal "accuracy" true := by
  simp only [PerfectOptimal]
  intro K y P hK hy
  show accuracy y P ≤ accuracy y (perfect K y : List (List ℝ))
  rw [accuracy_perfect' hK hy]; exact accuracy_le_one' y P

theorem perfectOptimal_brier : PerfectOptimal "brier" false := by
  simp only [PerfectOptimal]
  intro K y P hK hy
  show brier y (perfect K y : List (List ℝ)) ≤ brier y P
  rw [brier_perfect (hy.ne_nil hK)]; exact brier_nonneg y P

theorem perfectOptimal_logloss : PerfectOptimal "logloss" false := by
  simp only [PerfectOptimal]
  intro K y P hK hy hP
  show logloss y (perfect K y : List (List ℝ)) ≤ logloss y P
  rw [logloss_perfect hy.1]; exact logloss_nonneg y P hP

theorem perfectOptimal_f1 : PerfectOptimal "f1" true := by
  simp only [PerfectOptimal]
  intro K y P hK hy
  show f1 y P ≤ f1 y (perfect K y : List (List ℝ))
  rw [f1_perfect' hK hy]; exact f1_le_one' y P

theorem perfectOptimal_auc : PerfectOptimal "auc" true := by
  simp only [PerfectOptimal]
  intro K y P hK hy
  show auc y P ≤ auc y (perfect K y : List (List ℝ))
  rw [auc_perfect' hK hy]; exact auc_le_one' y P

/-- The opposite direction is *not* truthful (so a flipped flag cannot satisfy `PerfectOptimal`): shown for
`mse` as the representative loss and `accuracy` as the representative score. -/
theorem not_perfectOptimal_mse_true : ¬ PerfectOptimal "mse" true := by
  intro h
  have h1 : mse [[(1 : ℝ)]] [[0]] ≤ mse [[(1 : ℝ)]] [[1]] := h [[1]] [[0]]
  rw [mse_self] at h1
  norm_num [mse, mseFlat, sqDiffs, sumL] at h1

theorem not_perfectOptimal_accuracy_false : ¬ PerfectOptimal "accuracy" false := by
  intro h
  have hv : ValidLabels 2 [0, 1] := by
    constructor
    · intro c hc; simp at hc; omega
    · intro c hc
      have : c = 0 ∨ c = 1 := by omega
      rcases this with rfl | rfl <;> simp
  have h1 : accuracy [0, 1] (perfect 2 [0, 1] : List (List ℝ)) ≤ accuracy [0, 1] [[(0 : ℝ), 1], [1, 0]] :=
    h 2 [0, 1] [[0, 1], [1, 0]] (le_refl 2) hv
  rw [accuracy_perfect' (le_refl 2) hv] at h1
  norm_num [accuracy, accuracyL, predLabels, argmax, argmaxV, agree] at h1

end Xrfmv.Metrics
